#!/bin/sh
# usage: seed_check.sh <seed-id> [property ...]
# Applies /verif/seeded/<seed-id>/patch.diff to /repo, runs the given checks (default: all built checks) against /repo,
# and undoes the patch straight afterwards. Evidence of these runs goes to a scratch dir, not to /verif/evidence.
cd "$(dirname "$0")"
sid="$1"; shift
props="$*"
[ -z "$props" ] && props="all"
scratch=$(mktemp -d /tmp/fpseed.XXXXXX)
cp known_findings.txt "$scratch/"
export GOFLAGS=-mod=mod GOPROXY=off GOSUMDB=off GOTOOLCHAIN=local GOWORK=off CGO_ENABLED=0
(cd checker && go build -o ../bin/fpcheck .) || exit 2
if ! git -C /repo diff --quiet; then echo "/repo is dirty, refusing"; exit 2; fi
git -C /repo apply "$(pwd)/seeded/$sid/patch.diff" || { echo "patch does not apply"; exit 2; }
rc=0
for p in $props; do
  ./bin/fpcheck -property "$p" -tier quick -repo /repo -verif "$scratch" > "$scratch/out.$p" 2>&1 || rc=1
  grep -E "^VIOLATION|^  rule=|tier=quick" "$scratch/out.$p" | cut -c1-220
done
git -C /repo checkout -- . 
rm -rf "$scratch"
[ $rc -eq 1 ] && echo "SEED $sid: DETECTED" || echo "SEED $sid: MISSED"
exit 0
