# One claim(...) per property that has a built check. Text mirrors DESIGN.md section 4.
S = "go/ssa "

claim("C05", S + "must-pass-through path rule + who-may-write index",
  "R1 on every CFG path from each HeaderInjector.GetHeaderName call to loop re-entry/return the outbound header of that name is Set or Deleted; R2 outbound header is written only by canonicalising Set/Del or constant canonical raw keys (no Add); R3 the value set is GetHeaderValue(same injector, inbound request) on its err==nil edge and FingerprintHeaderInjector returns FingerprintFunc(metadata of this request's context); R4 ReverseProxy.Rewrite is the injection function, Director/ModifyResponse never assigned; R5 the h2 server canonicalises request header keys.",
  "Trusted: net/http Header.Set/Del canonicalisation and httputil.ReverseProxy Rewrite-mode ordering (summaries S3,S4 in DESIGN.md). Not decided: request trailers.")

claim("C10", S + "recover-frame reachability over the VTA call graph + zero-expected lint",
  "R1 no `defer recover()` / recover outside a deferred function anywhere in the module; R2 from every goroutine/timer root of the proxy no user-callback site (tls.Config callbacks via HandshakeContext, http.Server.ConnState incl. StateNew via http.Server.Serve, header injectors, FingerprintFunc, request handler) is reachable without crossing a protecting deferred-recover frame; R3 no os.Exit/log.Fatal*/Goexit reachable from per-connection code; R4 explicit panic sites on goroutines without recover frame equal a reviewed table; R5 failed handshake/capture paths never reach the hand-off; R6 the accept loop makes no blocking call besides Accept.",
  "Trusted: S2 (net/http conn.serve recovers handler panics; Serve calls ConnState(StateNew) on its caller's goroutine), S5 (TLS callbacks run synchronously in HandshakeContext). Not decided: implicit run-time panics (index, nil, type assertion) on unprotected goroutines for arbitrary client bytes, and liveness.")

claim("C15", S + "exact-count path rule + guard dominance + callee identity",
  "R1 on every path through HTTPHandler.ServeHTTP exactly one of {WriteHeader(200)+Write(\"OK\") on the IsProbeRequest!=nil && IsProbeRequest(req) edge, reverseProxy.ServeHTTP(w, req) otherwise}; R2 the predicate is strings.HasPrefix(r.UserAgent(), \"kube-probe/\"); R3 the predicate is installed only on the true edge of the enable-kubernetes-probe flag.",
  "Trusted: strings.HasPrefix / Request.UserAgent semantics. With those this covers the whole statement.")

claim("C16", S + "exact-count path rule + guard dominance + who-may-call index",
  "R1 exactly one requests_total increment on every entry→return path of the per-connection function, none in loops/closures/defers; R2 failure paths label (\"0\",\"\"), success paths (\"1\", this connection's NegotiatedProtocol); R3 the success increment is dominated by ServeConn's return (h2) or the receive on the hand-off context that the conn wrapper's Close cancels (h1); R4 only the per-connection function counts, it is started exactly once per successful Accept, the method does one WithLabelValues(ok, proto).Inc(), label names/order agree with registration.",
  "Trusted: S9 (prometheus Inc adds one). Not decided: exits by panic (a recovered panic skips the count).")
