package main

import (
	"sort"
	"strings"

	"golang.org/x/tools/go/ssa"
)

// Output languages. A function that produces text by a sequence of writes into one buffer defines, through its control
// flow graph, a regular language over "atoms": one atom per literal character written, one per formatted operand
// (num(E) for %d of E, num02(E) for %02d of E, byte(E) for WriteByte(E)). How the text is cut into writes ("0|" or "0"
// then "|"; Sprintf into WriteString or Fprintf) does not change that language. Rules state the shape of the output as
// two regular expressions — what every output must look like (upper bound: the CFG's language must be included in it)
// and what must be producible (lower bound: it must be included in the CFG's language) — and check the conditions
// attached to individual atoms separately. Branch conditions are ignored when the language is read off the graph, so
// the upper bound is written with the slack a condition-blind reading has (an optional separator in a loop body).

type olAtom struct {
	Sym string
	I   ssa.Instruction
	// Alts: the atom is one of several symbols, chosen by the path (a %d of a value that is 0 on one branch and 1 on the
	// other); G: the conditions of this atom when they are not simply those of its instruction's block
	Alts []string
	G    []string
}

type olNFA struct {
	eps    [][]int
	tr     []map[string][]int
	start  int
	accept map[int]bool
}

func newNFA() *olNFA { return &olNFA{accept: map[int]bool{}} }

func (n *olNFA) state() int {
	n.eps = append(n.eps, nil)
	n.tr = append(n.tr, map[string][]int{})
	return len(n.eps) - 1
}

// regular-expression combinators (Thompson construction); a fragment is (entry, exit)
type olFrag struct{ in, out int }

func (n *olNFA) sym(s string) olFrag {
	a, b := n.state(), n.state()
	n.tr[a][s] = append(n.tr[a][s], b)
	return olFrag{a, b}
}

func (n *olNFA) empty() olFrag {
	a := n.state()
	return olFrag{a, a}
}

func (n *olNFA) seq(fs ...olFrag) olFrag {
	if len(fs) == 0 {
		return n.empty()
	}
	for i := 0; i+1 < len(fs); i++ {
		n.eps[fs[i].out] = append(n.eps[fs[i].out], fs[i+1].in)
	}
	return olFrag{fs[0].in, fs[len(fs)-1].out}
}

func (n *olNFA) alt(fs ...olFrag) olFrag {
	a, b := n.state(), n.state()
	for _, f := range fs {
		n.eps[a] = append(n.eps[a], f.in)
		n.eps[f.out] = append(n.eps[f.out], b)
	}
	return olFrag{a, b}
}

func (n *olNFA) opt(f olFrag) olFrag { return n.alt(f, n.empty()) }

func (n *olNFA) star(f olFrag) olFrag {
	a := n.state()
	n.eps[a] = append(n.eps[a], f.in)
	n.eps[f.out] = append(n.eps[f.out], a)
	return olFrag{a, a}
}

func (n *olNFA) lits(s string) olFrag {
	var fs []olFrag
	for i := 0; i < len(s); i++ {
		fs = append(fs, n.sym("'"+s[i:i+1]+"'"))
	}
	return n.seq(fs...)
}

func (n *olNFA) finish(f olFrag) *olNFA {
	n.start = f.in
	n.accept[f.out] = true
	return n
}

// cfgNFA reads the output language off fn's control flow graph: atoms(i) lists what instruction i writes.
func cfgNFA(fn *ssa.Function, atoms func(ssa.Instruction) []olAtom) *olNFA {
	n := newNFA()
	entry := map[*ssa.BasicBlock]int{}
	for _, b := range fn.Blocks {
		entry[b] = n.state()
	}
	for _, b := range fn.Blocks {
		if b == fn.Recover {
			continue
		}
		cur := entry[b]
		for _, i := range b.Instrs {
			for _, a := range atoms(i) {
				s := n.state()
				if len(a.Alts) > 0 {
					for _, sym := range a.Alts {
						n.tr[cur][sym] = append(n.tr[cur][sym], s)
					}
				} else {
					n.tr[cur][a.Sym] = append(n.tr[cur][a.Sym], s)
				}
				cur = s
			}
		}
		if len(b.Instrs) > 0 {
			if _, ok := b.Instrs[len(b.Instrs)-1].(*ssa.Return); ok {
				n.accept[cur] = true
			}
		}
		for _, s := range liveSuccs(b) {
			n.eps[cur] = append(n.eps[cur], entry[s])
		}
	}
	if len(fn.Blocks) > 0 {
		n.start = entry[fn.Blocks[0]]
	}
	return n
}

func (n *olNFA) closure(set []int) []int {
	seen := map[int]bool{}
	var st []int
	for _, s := range set {
		if !seen[s] {
			seen[s] = true
			st = append(st, s)
		}
	}
	for k := 0; k < len(st); k++ {
		for _, t := range n.eps[st[k]] {
			if !seen[t] {
				seen[t] = true
				st = append(st, t)
			}
		}
	}
	sort.Ints(st)
	return st
}

func (n *olNFA) step(set []int, sym string) []int {
	var nx []int
	for _, s := range set {
		nx = append(nx, n.tr[s][sym]...)
	}
	return n.closure(nx)
}

func (n *olNFA) accepts(set []int) bool {
	for _, s := range set {
		if n.accept[s] {
			return true
		}
	}
	return false
}

func setKey(a []int) string {
	var sb strings.Builder
	for _, x := range a {
		sb.WriteString(itoa(x))
		sb.WriteString(",")
	}
	return sb.String()
}

// olIncluded: is L(a) ⊆ L(b)? If not, returns a shortest word of a that b rejects (as a list of atoms).
func olIncluded(a, b *olNFA) (bool, []string) {
	type pair struct {
		sa, sb []int
		word   []string
	}
	startA, startB := a.closure([]int{a.start}), b.closure([]int{b.start})
	queue := []pair{{startA, startB, nil}}
	seen := map[string]bool{setKey(startA) + "|" + setKey(startB): true}
	for len(queue) > 0 {
		p := queue[0]
		queue = queue[1:]
		if a.accepts(p.sa) && !b.accepts(p.sb) {
			return false, p.word
		}
		syms := map[string]bool{}
		for _, s := range p.sa {
			for y := range a.tr[s] {
				syms[y] = true
			}
		}
		var order []string
		for y := range syms {
			order = append(order, y)
		}
		sort.Strings(order)
		for _, y := range order {
			na, nb := a.step(p.sa, y), b.step(p.sb, y)
			if len(na) == 0 {
				continue
			}
			k := setKey(na) + "|" + setKey(nb)
			if seen[k] {
				continue
			}
			seen[k] = true
			queue = append(queue, pair{na, nb, append(append([]string{}, p.word...), y)})
			if len(seen) > 200000 {
				return false, []string{"<automaton too large>"}
			}
		}
	}
	return true, nil
}

// formatAtoms splits a fmt format with %d / %02d verbs into atoms; unknown verbs become "?fmt(...)" atoms.
func formatAtoms(i ssa.Instruction, f string, args []string) []olAtom {
	var out []olAtom
	k := 0
	for p := 0; p < len(f); p++ {
		if f[p] != '%' {
			out = append(out, olAtom{Sym: "'" + f[p:p+1] + "'", I: i})
			continue
		}
		rest := f[p:]
		arg := "?"
		if k < len(args) {
			arg = args[k]
		}
		switch {
		case strings.HasPrefix(rest, "%%"):
			out = append(out, olAtom{Sym: "'%'", I: i})
			p++
		case strings.HasPrefix(rest, "%d"):
			out = append(out, olAtom{Sym: "num(" + arg + ")", I: i})
			k++
			p++
		case strings.HasPrefix(rest, "%02d"):
			out = append(out, olAtom{Sym: "num02(" + arg + ")", I: i})
			k++
			p += 3
		default:
			out = append(out, olAtom{Sym: "?fmt(" + rest + ")", I: i})
			return out
		}
	}
	if k != len(args) {
		out = append(out, olAtom{Sym: "?fmt(operand count)", I: i})
	}
	return out
}
