package main

import (
	"go/ast"
	"fmt"
	"os"
	"go/constant"
	"go/token"
	"go/types"
	"sort"
	"strings"

	"golang.org/x/tools/go/ssa"
)

// ---------------------------------------------------------------- basics

func instrPos(i ssa.Instruction) token.Pos {
	if i == nil {
		return token.NoPos
	}
	if p := i.Pos(); p.IsValid() {
		return p
	}
	// fall back: position of an operand-defining value or the nearest positioned instruction in the block
	if v, ok := i.(ssa.Value); ok {
		_ = v
	}
	b := i.Block()
	if b != nil {
		idx := -1
		for k, x := range b.Instrs {
			if x == i {
				idx = k
			}
		}
		for k := idx; k >= 0; k-- {
			if p := b.Instrs[k].Pos(); p.IsValid() {
				return p
			}
		}
		for k := idx + 1; k >= 0 && k < len(b.Instrs); k++ {
			if p := b.Instrs[k].Pos(); p.IsValid() {
				return p
			}
		}
		if b.Parent() != nil {
			return b.Parent().Pos()
		}
	}
	return token.NoPos
}

func callOf(i ssa.Instruction) *ssa.CallCommon {
	switch c := i.(type) {
	case *ssa.Call:
		return &c.Call
	case *ssa.Go:
		return &c.Call
	case *ssa.Defer:
		return &c.Call
	}
	return nil
}

func funcName(f *ssa.Function) string {
	if f == nil {
		return ""
	}
	if o, ok := f.Object().(*types.Func); ok && o != nil {
		if org := o.Origin(); org != nil {
			o = org
		}
		return shorten(o.FullName())
	}
	if par := f.Parent(); par != nil && len(litAlias) > 0 {
		suffix := f.Name()
		if k := strings.LastIndex(suffix, "$"); k >= 0 {
			suffix = suffix[k+1:]
		}
		if lit, ok := f.Syntax().(*ast.FuncLit); ok {
			if a, ok := litAlias[lit]; ok {
				suffix = a
			}
		}
		return funcName(par) + "$" + suffix
	}
	return shorten(f.String())
}

// shorten strips the module path from rendered names.
func shorten(s string) string {
	s = shortenRaw(s)
	if len(identSubst) > 0 {
		s = applySubst(s, identSubst)
	}
	for _, r := range renameSubst {
		for from := 0; ; {
			i := strings.Index(s[from:], r[0])
			if i < 0 {
				break
			}
			i += from
			end := i + len(r[0])
			if end < len(s) && (s[end] == '_' || s[end] >= '0' && s[end] <= '9' || s[end] >= 'a' && s[end] <= 'z' || s[end] >= 'A' && s[end] <= 'Z') {
				from = end
				continue
			}
			s = s[:i] + r[1] + s[end:]
			from = i + len(r[1])
		}
	}
	return s
}

func shortenRaw(s string) string {
	s = strings.ReplaceAll(s, modPath+"/pkg/", "")
	s = strings.ReplaceAll(s, modPath+"/", "fingerproxy/")
	s = strings.ReplaceAll(s, modPath, "fingerproxy")
	return s
}

// staticCallee resolves the called function when it is statically known
// (direct call, closure literal, bound method value).
func staticCallee(c *ssa.CallCommon) *ssa.Function {
	if c == nil || c.IsInvoke() {
		return nil
	}
	switch v := c.Value.(type) {
	case *ssa.Function:
		return v
	case *ssa.MakeClosure:
		f, _ := v.Fn.(*ssa.Function)
		return f
	}
	return nil
}

// calleeName: full name of the called function/method; "" if dynamic.
func calleeName(c *ssa.CallCommon) string {
	if c == nil {
		return ""
	}
	if c.IsInvoke() {
		return shorten(c.Method.FullName())
	}
	if b, ok := c.Value.(*ssa.Builtin); ok {
		return "builtin." + b.Name()
	}
	if f := staticCallee(c); f != nil {
		return funcName(f)
	}
	return ""
}

func isCall(i ssa.Instruction, names ...string) bool {
	c := callOf(i)
	if c == nil {
		return false
	}
	n := calleeName(c)
	for _, x := range names {
		if n == x {
			return true
		}
	}
	return false
}

// callArgs returns receiver (for invoke) followed by args.
func callArgs(c *ssa.CallCommon) []ssa.Value {
	if c.IsInvoke() {
		return append([]ssa.Value{c.Value}, c.Args...)
	}
	return c.Args
}

func eachInstr(fn *ssa.Function, f func(ssa.Instruction)) {
	live := liveBlocks(fn)
	for _, b := range fn.Blocks {
		if live != nil && !live[b] {
			continue // behind a branch on a constant (an expanded helper called with a literal mode flag)
		}
		for _, i := range b.Instrs {
			f(i)
		}
	}
}

// ---- branches on constants
//
// After a helper has been expanded in place, a parameter that was passed a literal (`appendValues(buf, xs, true)`) is a
// constant in the caller, and `if !filter || …` branches on it. Such a branch has one feasible side; everything only
// reachable through the other side is dead and is skipped by every walk over a function (eachInstr, path rules, path
// conditions, phi rendering).

// constCond: v is a boolean constant after folding `!`, `==`/`!=` of constants, and phis whose edges agree.
func constCond(v ssa.Value, depth int) (val bool, ok bool) {
	if depth > 4 {
		return false, false
	}
	switch x := v.(type) {
	case *ssa.Const:
		if x.Value != nil && x.Value.Kind() == constant.Bool {
			return constant.BoolVal(x.Value), true
		}
	case *ssa.UnOp:
		if x.Op == token.NOT {
			if b, ok := constCond(x.X, depth+1); ok {
				return !b, true
			}
		}
	case *ssa.BinOp:
		if x.Op == token.EQL || x.Op == token.NEQ {
			a, okA := x.X.(*ssa.Const)
			b, okB := x.Y.(*ssa.Const)
			if okA && okB && a.Value != nil && b.Value != nil && a.Value.Kind() == b.Value.Kind() {
				eq := constant.Compare(a.Value, token.EQL, b.Value)
				return eq == (x.Op == token.EQL), true
			}
		}
	}
	return false, false
}

// liveSuccs: the successors of b that its terminating branch can take.
func liveSuccs(b *ssa.BasicBlock) []*ssa.BasicBlock {
	if len(b.Succs) == 2 && len(b.Instrs) > 0 {
		if iff, ok := b.Instrs[len(b.Instrs)-1].(*ssa.If); ok {
			if v, isC := constCond(iff.Cond, 0); isC {
				if v {
					return b.Succs[:1]
				}
				return b.Succs[1:2]
			}
		}
	}
	return b.Succs
}

func edgeLive(p, b *ssa.BasicBlock) bool {
	if live := liveBlocks(p.Parent()); live != nil && !live[p] {
		return false
	}
	for _, s := range liveSuccs(p) {
		if s == b {
			return true
		}
	}
	return false
}

var liveCache = map[*ssa.Function]map[*ssa.BasicBlock]bool{}

// liveBlocks: blocks reachable from the entry along feasible branch sides; nil when every block is (the usual case).
func liveBlocks(fn *ssa.Function) map[*ssa.BasicBlock]bool {
	if fn == nil || len(fn.Blocks) == 0 {
		return nil
	}
	if m, ok := liveCache[fn]; ok {
		return m
	}
	anyConst := false
	for _, b := range fn.Blocks {
		if len(liveSuccs(b)) != len(b.Succs) {
			anyConst = true
			break
		}
	}
	if !anyConst {
		liveCache[fn] = nil
		return nil
	}
	live := map[*ssa.BasicBlock]bool{}
	st := []*ssa.BasicBlock{fn.Blocks[0]}
	if fn.Recover != nil {
		st = append(st, fn.Recover)
	}
	for len(st) > 0 {
		b := st[len(st)-1]
		st = st[:len(st)-1]
		if live[b] {
			continue
		}
		live[b] = true
		st = append(st, liveSuccs(b)...)
	}
	liveCache[fn] = live
	return live
}

// callsIn lists instructions in fn (not nested closures) calling any of names.
func callsIn(fn *ssa.Function, names ...string) []ssa.Instruction {
	var out []ssa.Instruction
	eachInstr(fn, func(i ssa.Instruction) {
		if isCall(i, names...) {
			out = append(out, i)
		}
	})
	return out
}

func deref(t types.Type) types.Type {
	if p, ok := t.Underlying().(*types.Pointer); ok {
		return p.Elem()
	}
	return t
}

func namedOf(t types.Type) *types.Named {
	t = deref(t)
	n, _ := t.(*types.Named)
	if n == nil {
		if a, ok := t.(*types.Alias); ok {
			n, _ = types.Unalias(a).(*types.Named)
		}
	}
	return n
}

func typeName(t types.Type) string {
	s := types.TypeString(t, func(p *types.Package) string { return p.Name() })
	if strings.Contains(s, "interface{}") {
		s = strings.ReplaceAll(s, "interface{}", "any") // one spelling for the empty interface and its predeclared alias
	}
	if len(identSubst) > 0 {
		s = applySubst(s, identSubst)
	}
	return s
}

func fieldName(structT types.Type, idx int) string {
	st, ok := deref(structT).Underlying().(*types.Struct)
	if !ok || idx >= st.NumFields() {
		return fmt.Sprintf("f%d", idx)
	}
	if fieldTransparent[st.Field(idx)] {
		return ""
	}
	if a, ok := fieldAlias[st.Field(idx)]; ok {
		return a
	}
	return st.Field(idx).Name()
}

// dotField renders base.field; a field that only groups reviewed fields into a new nested struct is transparent.
func dotField(base string, structT types.Type, idx int) string {
	n := fieldName(structT, idx)
	if n == "" {
		return base
	}
	return base + "." + n
}

// fieldOwnerIs: the field number idx of structT is (in the reviewed layout) the field named field of the named type nt.
func fieldOwnerIs(structT types.Type, idx int, nt *types.Named, field string) bool {
	if fieldName(structT, idx) != field {
		return false
	}
	if n := namedOf(structT); n != nil && n.Obj() == nt.Obj() {
		return true
	}
	if st, ok := deref(structT).Underlying().(*types.Struct); ok && idx < st.NumFields() {
		return fieldOwner[st.Field(idx)] == nt.Obj()
	}
	return false
}

// ---------------------------------------------------------------- expression rendering (backward slice as a term)

type exprCtx struct {
	c     *Ctx
	seen  map[ssa.Value]bool
	depth int
	// edgeOf: render the phis of this block as the value they take on entry from predecessor number edgeIdx
	edgeBlk *ssa.BasicBlock
	edgeIdx int
	// at: the block of the instruction whose operand is being rendered (a phi is read as the value it has there)
	at *ssa.BasicBlock
}

// ExprOnEdge renders v as it reads when block blk was entered from its predecessor number k.
func (c *Ctx) ExprOnEdge(v ssa.Value, blk *ssa.BasicBlock, k int) string {
	e := &exprCtx{c: c, seen: map[ssa.Value]bool{}, edgeBlk: blk, edgeIdx: k}
	return e.expr(v)
}

// mentionsPhiOf: the definition of v (through arithmetic, slicing, conversions, field and index selection, call
// arguments) involves a phi of block blk.
func mentionsPhiOf(v ssa.Value, blk *ssa.BasicBlock, depth int) bool {
	if v == nil || depth > 6 {
		return false
	}
	switch x := v.(type) {
	case *ssa.Phi:
		return x.Block() == blk
	case *ssa.BinOp:
		return mentionsPhiOf(x.X, blk, depth+1) || mentionsPhiOf(x.Y, blk, depth+1)
	case *ssa.UnOp:
		return mentionsPhiOf(x.X, blk, depth+1)
	case *ssa.Slice:
		return mentionsPhiOf(x.X, blk, depth+1) || mentionsPhiOf(x.Low, blk, depth+1) || mentionsPhiOf(x.High, blk, depth+1) || mentionsPhiOf(x.Max, blk, depth+1)
	case *ssa.Convert:
		return mentionsPhiOf(x.X, blk, depth+1)
	case *ssa.ChangeType:
		return mentionsPhiOf(x.X, blk, depth+1)
	case *ssa.MakeInterface:
		return mentionsPhiOf(x.X, blk, depth+1)
	case *ssa.FieldAddr:
		return mentionsPhiOf(x.X, blk, depth+1)
	case *ssa.IndexAddr:
		return mentionsPhiOf(x.X, blk, depth+1) || mentionsPhiOf(x.Index, blk, depth+1)
	case *ssa.Extract:
		return mentionsPhiOf(x.Tuple, blk, depth+1)
	case *ssa.Call:
		if x.Block() != blk {
			return false
		}
		for _, a := range x.Call.Args {
			if mentionsPhiOf(a, blk, depth+1) {
				return true
			}
		}
	}
	return false
}

// Expr renders the definition of v as a canonical term over parameters (p0,
// p1…), globals, constants, field paths and calls. It is a purely syntactic
// backward slice of the SSA def-use chain; nothing is evaluated.
func (c *Ctx) Expr(v ssa.Value) string {
	e := &exprCtx{c: c, seen: map[ssa.Value]bool{}}
	// a phi asked about on its own (typically an argument picked out of a call by a rule) is read as the value it has
	// at its uses, when all of them agree
	if phi, ok := v.(*ssa.Phi); ok {
		if r := refineAtUses(phi); r != nil {
			v = r
		}
	}
	return e.expr(v)
}

// refineAtUses: the one value the phi has in every block that uses it (nil when the uses disagree, when another phi
// uses it, or when nothing narrows it).
func refineAtUses(phi *ssa.Phi) ssa.Value {
	refs := phi.Referrers()
	if refs == nil {
		return nil
	}
	var out ssa.Value
	for _, r := range *refs {
		switch r.(type) {
		case *ssa.DebugRef:
			continue
		case *ssa.Phi:
			return nil
		}
		v := refineAt(phi, r.Block())
		if v == ssa.Value(phi) {
			return nil
		}
		if out != nil && out != v {
			return nil
		}
		out = v
	}
	return out
}

func constStr(k *ssa.Const) string {
	if k.Value == nil {
		if _, ok := k.Type().Underlying().(*types.Basic); ok {
			return "0"
		}
		return "nil"
	}
	switch k.Value.Kind() {
	case constant.String:
		return fmt.Sprintf("%q", constant.StringVal(k.Value))
	case constant.Bool:
		return k.Value.String()
	}
	return k.Value.ExactString()
}

func flipOp(op token.Token) token.Token {
	switch op {
	case token.GTR:
		return token.LSS
	case token.GEQ:
		return token.LEQ
	}
	return op
}

func (e *exprCtx) expr(v ssa.Value) string {
	if v == nil {
		return "<nil>"
	}
	e.depth++
	defer func() { e.depth-- }()
	if e.depth > 28 {
		return "…"
	}
	useAt := e.at
	if in, ok := v.(ssa.Instruction); ok && in.Block() != nil {
		if _, isPhi := v.(*ssa.Phi); !isPhi {
			e.at = in.Block()
			defer func() { e.at = useAt }()
		}
	}
	switch x := v.(type) {
	case *ssa.Const:
		return constStr(x)
	case *ssa.Parameter:
		for i, p := range x.Parent().Params {
			if p == x {
				// a parameter of a new helper with one call site is the argument passed there
				if !e.seen[x] {
					if arg := e.c.uniqueCallArg(x.Parent(), i); arg != nil {
						e.seen[x] = true
						s := e.expr(arg)
						delete(e.seen, x)
						return s
					}
				}
				return fmt.Sprintf("p%d", i)
			}
		}
		return "p?"
	case *ssa.FreeVar:
		fn := x.Parent()
		mc := e.c.closureSite(fn)
		if mc != nil {
			for i, fv := range fn.FreeVars {
				if fv == x && i < len(mc.Bindings) {
					return "outer(" + e.expr(mc.Bindings[i]) + ")"
				}
			}
		}
		return "fv:" + x.Name()
	case *ssa.Global:
		if len(identSubst) > 0 {
			return applySubst(x.Pkg.Pkg.Name()+"."+x.Name(), identSubst)
		}
		return x.Pkg.Pkg.Name() + "." + x.Name()
	case *ssa.Function:
		return "func:" + funcName(x)
	case *ssa.Builtin:
		return "builtin." + x.Name()
	case *ssa.Alloc:
		if x.Comment == "" {
			return "&new(" + typeName(deref(x.Type())) + ")"
		}
		return "&" + x.Comment
	case *ssa.FieldAddr:
		if a, ok := x.X.(*ssa.Alloc); ok {
			// field of a local struct: resolve through a whole-struct store or a unique field store
			if st := uniqueStore(a); st != nil && !e.seen[a] {
				e.seen[a] = true
				s := e.expr(st.Val)
				delete(e.seen, a)
				return dotField(s, x.X.Type(), x.Field)
			}
		}
		return dotField(e.expr(x.X), x.X.Type(), x.Field)
	case *ssa.Field:
		return dotField(e.expr(x.X), x.X.Type(), x.Field)
	case *ssa.IndexAddr:
		// x[:k][i] addresses x[i] (the reslice only narrows what may be indexed; bounds are the prover's business)
		if sl, ok := x.X.(*ssa.Slice); ok && sl.Low == nil && sl.Max == nil {
			if _, isStr := sl.X.Type().Underlying().(*types.Basic); !isStr {
				return e.expr(sl.X) + "[" + e.expr(x.Index) + "]"
			}
		}
		return e.expr(x.X) + "[" + e.expr(x.Index) + "]"
	case *ssa.Index:
		return e.expr(x.X) + "[" + e.expr(x.Index) + "]"
	case *ssa.Lookup:
		return e.expr(x.X) + "[" + e.expr(x.Index) + "]"
	case *ssa.Slice:
		// the argument list of a variadic call: its elements, not the name of the compiler's temporary
		if al, ok := x.X.(*ssa.Alloc); ok && al.Comment == "varargs" && x.Low == nil && x.High == nil && x.Max == nil {
			if els := variadicElems(x); len(els) > 0 && len(els) <= 16 {
				var parts []string
				for _, el := range els {
					parts = append(parts, e.expr(el))
				}
				return "[" + strings.Join(parts, ", ") + "]"
			}
		}
		s := e.expr(x.X) + "["
		if x.Low != nil {
			s += e.expr(x.Low)
		}
		s += ":"
		if x.High != nil {
			// x[a:len(x)] is x[a:]
			if h := e.expr(x.High); h != "builtin.len("+e.expr(x.X)+")" || x.Max != nil {
				s += h
			}
		}
		if x.Max != nil {
			s += ":" + e.expr(x.Max)
		}
		return s + "]"
	case *ssa.UnOp:
		switch x.Op {
		case token.MUL:
			if fv, ok := x.X.(*ssa.FreeVar); ok {
				// captured variable: resolve through the unique store to the captured cell in the parent
				fn := fv.Parent()
				if mc := e.c.closureSite(fn); mc != nil {
					for i, f := range fn.FreeVars {
						if f == fv && i < len(mc.Bindings) {
							if a, ok := mc.Bindings[i].(*ssa.Alloc); ok {
								if st := uniqueStore(a); st != nil && !e.seen[a] && !writtenByClosures(a) {
									e.seen[a] = true
									s := e.expr(st.Val)
									delete(e.seen, a)
									return "outer(" + s + ")"
								}
							}
						}
					}
				}
			}
			if fa, ok := x.X.(*ssa.FieldAddr); ok && !e.seen[fa] {
				if s, ok := e.localField(fa); ok {
					return s
				}
			}
			if fa, ok := x.X.(*ssa.FieldAddr); ok {
				if a, ok := fa.X.(*ssa.Alloc); ok && uniqueStore(a) == nil {
					// composite literal / local struct field: resolve through the unique store to that field
					if v := uniqueFieldStore(a, fa.Field); v != nil && !e.seen[fa] {
						e.seen[fa] = true
						s := e.expr(v)
						delete(e.seen, fa)
						return s
					}
				}
			}
			// an unexported package-level variable that only its package initialiser ever assigns, and assigns a
			// constant, reads as that constant (`var sep = byte(45)` and `const sep = byte(45)` are the same thing)
			if g, ok := x.X.(*ssa.Global); ok {
				if k := initOnlyConst(g); k != nil {
					return constStr(k)
				}
			}
			if a, ok := x.X.(*ssa.Alloc); ok {
				// a local whose address is taken: resolve through its unique store
				if st := uniqueStore(a); st != nil && !e.seen[a] && (st.Parent() != x.Parent() || instrDominates(st, x) || (x.Parent() != nil && x.Block() == x.Parent().Recover)) {
					e.seen[a] = true
					s := e.expr(st.Val)
					delete(e.seen, a)
					return s
				}
				// written once, but not on every way to this load (a named result assigned in one branch and returned as
				// it is in another): what is read is the stored value or the zero value
				if st := uniqueStore(a); st != nil && !e.seen[a] && st.Parent() == x.Parent() {
					e.seen[a] = true
					s := e.expr(st.Val)
					delete(e.seen, a)
					return "maybe(" + s + "|zero(" + typeName(deref(a.Type())) + "))"
				}
				// never written: the zero value, whatever the variable is called and however it came about
				// (an unassigned named result, `var x T`, an empty composite literal)
				if allocNeverWritten(a) {
					return "zero(" + typeName(deref(a.Type())) + ")"
				}
				return "*" + e.expr(a)
			}
			return e.expr(x.X)
		case token.NOT:
			return "!" + e.expr(x.X)
		case token.ARROW:
			return "recv(" + e.expr(x.X) + ")"
		case token.SUB:
			return "-" + e.expr(x.X)
		case token.XOR:
			return "^" + e.expr(x.X)
		}
		return x.Op.String() + e.expr(x.X)
	case *ssa.BinOp:
		if s, ok := e.msgConcat(x); ok {
			return s
		}
		a, b := e.expr(x.X), e.expr(x.Y)
		op := x.Op
		switch op {
		case token.GTR, token.GEQ:
			a, b = b, a
			op = flipOp(op)
		case token.EQL, token.NEQ, token.ADD, token.MUL, token.AND, token.OR, token.XOR:
			if op != token.ADD || !isStringT(x.Type()) {
				if sortKey(b) < sortKey(a) {
					a, b = b, a
				}
			}
		}
		// for unsigned (or otherwise non-negative: len, cap) operands `0 < x` is `x != 0` and `x <= 0` is `x == 0`
		nonNeg := isUnsigned(x.X.Type())
		if !nonNeg && (op == token.LSS || op == token.LEQ) {
			other := x.Y
			if (x.Op == token.GTR || x.Op == token.GEQ) != (op == token.LEQ) {
				other = x.X
			}
			nonNeg = sigBits(other, 0) < 64
		}
		if (op == token.LSS || op == token.LEQ) && nonNeg {
			if op == token.LSS && a == "0" {
				return "(0 != " + b + ")"
			}
			if op == token.LEQ && b == "0" {
				return "(0 == " + a + ")"
			}
		}
		if op == token.AND {
			if s, ok := e.maskAnd(x); ok {
				return s
			}
		}
		return "(" + a + " " + op.String() + " " + b + ")"
	case *ssa.Convert:
		return e.convert(x)
	case *ssa.ChangeType:
		return e.expr(x.X)
	case *ssa.ChangeInterface:
		return e.expr(x.X)
	case *ssa.MakeInterface:
		return e.expr(x.X)
	case *ssa.SliceToArrayPointer:
		return e.expr(x.X)
	case *ssa.MultiConvert:
		return e.expr(x.X)
	case *ssa.TypeAssert:
		return "assert[" + typeName(x.AssertedType) + "](" + e.expr(x.X) + ")"
	case *ssa.Extract:
		return e.expr(x.Tuple) + "#" + fmt.Sprint(x.Index)
	case *ssa.Call:
		return e.call(&x.Call)
	case *ssa.Phi:
		if e.seen[x] {
			return "phi@"
		}
		if e.edgeBlk != nil && x.Block() == e.edgeBlk && e.edgeIdx < len(x.Edges) {
			return e.expr(x.Edges[e.edgeIdx])
		}
		// where it is used, a phi of a flag block can be pinned to one predecessor's value by the side of the flag's
		// branch the use lies on
		if useAt != nil && useAt.Parent() == x.Parent() {
			if r := refineAt(x, useAt); r != ssa.Value(x) {
				return e.expr(r)
			}
		}
		// a boolean flag merged from constants and conditions says when it is true (not just "one of false, true")
		if s, ok := e.flagPhi(x); ok {
			return s
		}
		// a value chosen between alternatives says under which condition each one is taken (and min/max idioms say so)
		if s, ok := e.selPhi(x); ok {
			return s
		}
		// a counter that starts at 0 and is incremented by 1 per iteration (`for i := 0; …; i++`) is rendered like the
		// index go/ssa synthesises for `for i := range s`, so that the two loop forms read alike
		if len(x.Edges) == 2 {
			for k := 0; k < 2; k++ {
				z, okz := constInt(x.Edges[k])
				inc, oki := x.Edges[1-k].(*ssa.BinOp)
				if _, isC := x.Edges[k].(*ssa.Const); okz && isC && z == 0 && oki && inc.Op == token.ADD {
					one, ok1 := constInt(inc.Y)
					if inc.X == ssa.Value(x) && ok1 && one == 1 {
						return "(1 + phi((1 + phi@)|-1))"
					}
					one, ok1 = constInt(inc.X)
					if inc.Y == ssa.Value(x) && ok1 && one == 1 {
						return "(1 + phi((1 + phi@)|-1))"
					}
				}
			}
		}
		// edges that cannot be taken (behind a branch on a constant) contribute no value
		edges := x.Edges
		if liveBlocks(x.Parent()) != nil {
			edges = nil
			for k, ed := range x.Edges {
				if k < len(x.Block().Preds) && !edgeLive(x.Block().Preds[k], x.Block()) {
					continue
				}
				edges = append(edges, ed)
			}
			if len(edges) == 1 {
				return e.expr(edges[0])
			}
			if len(edges) == 0 {
				edges = x.Edges
			}
		}
		e.seen[x] = true
		var parts []string
		for _, ed := range edges {
			parts = append(parts, e.expr(ed))
		}
		delete(e.seen, x)
		sort.Slice(parts, func(i, j int) bool { return sortKey(parts[i]) < sortKey(parts[j]) })
		parts = uniq(parts)
		if len(parts) == 1 {
			return parts[0]
		}
		return "phi(" + strings.Join(parts, "|") + ")"
	case *ssa.MakeClosure:
		f, _ := x.Fn.(*ssa.Function)
		return "closure:" + funcName(f)
	case *ssa.MakeSlice:
		return "make(" + typeName(x.Type()) + "," + e.expr(x.Len) + ")"
	case *ssa.MakeMap:
		return "make(" + typeName(x.Type()) + ")"
	case *ssa.MakeChan:
		return "make(" + typeName(x.Type()) + "," + e.expr(x.Size) + ")"
	case *ssa.Range:
		return "range(" + e.expr(x.X) + ")"
	case *ssa.Next:
		return "next(" + e.expr(x.Iter) + ")"
	case *ssa.Select:
		// ordinal of this select within its function, so that two selects never render alike
		k := 0
		n := 0
		eachInstr(x.Parent(), func(i ssa.Instruction) {
			if sel, ok := i.(*ssa.Select); ok {
				n++
				if sel == x {
					k = n
				}
			}
		})
		return fmt.Sprintf("select%d", k)
	}
	return fmt.Sprintf("?%T", v)
}

func isStringT(t types.Type) bool {
	b, ok := t.Underlying().(*types.Basic)
	return ok && b.Info()&types.IsString != 0
}

func (e *exprCtx) call(c *ssa.CallCommon) string {
	n := calleeName(c)
	if n == "" {
		n = "dyn:" + e.expr(c.Value)
	}
	if n == "fmt.Sprintf" || n == "fmt.Errorf" {
		if s, ok := e.msgSprintf(c, n); ok {
			return s
		}
	}
	// binary.BigEndian.AppendUintNN(b, v) is append(b, the bytes of v from the most significant down)
	if strings.HasPrefix(n, "(encoding/binary.bigEndian).AppendUint") {
		width := 0
		switch strings.TrimPrefix(n, "(encoding/binary.bigEndian).AppendUint") {
		case "16":
			width = 16
		case "32":
			width = 32
		case "64":
			width = 64
		}
		if as := callArgs(c); width > 0 && len(as) == 3 {
			vs := e.expr(as[2])
			bits := sigBits(as[2], 0)
			if bits > width {
				bits = width
			}
			var parts []string
			for k := width - 8; k >= 0; k -= 8 {
				t := vs
				if k > 0 {
					t = fmt.Sprintf("(%s >> %d)", vs, k)
				}
				if bits-k > 8 {
					t = andStr("255", t)
				}
				parts = append(parts, t)
			}
			return "builtin.append(" + e.expr(as[1]) + ", [" + strings.Join(parts, ", ") + "])"
		}
	}
	// the min/max builtins read like the hand-written idioms (see selPhi)
	if n == "builtin.min" || n == "builtin.max" {
		var vs []string
		for _, a := range callArgs(c) {
			vs = append(vs, e.expr(a))
		}
		if len(vs) >= 2 {
			return minMaxStr(strings.TrimPrefix(n, "builtin."), vs...)
		}
	}
	// len(x[:k]) is k
	if n == "builtin.len" {
		if as := callArgs(c); len(as) == 1 {
			if sl, ok := as[0].(*ssa.Slice); ok && sl.Low == nil && sl.High != nil && sl.Max == nil {
				return e.expr(sl.High)
			}
		}
	}
	// binary.BigEndian.Uint16(b[k:...]) with a constant k is the hand-written b[k]<<8 | b[k+1]
	if n == "(encoding/binary.bigEndian).Uint16" {
		if as := callArgs(c); len(as) == 2 {
			if sl, ok := as[1].(*ssa.Slice); ok {
				lo := int64(0)
				okLo := sl.Low == nil
				if sl.Low != nil {
					lo, okLo = constInt(sl.Low)
				}
				if okLo {
					b := e.expr(sl.X)
					return fmt.Sprintf("((%s[%d] << 8) | %s[%d])", b, lo, b, lo+1)
				}
			}
		}
	}
	var as []string
	for _, a := range callArgs(c) {
		as = append(as, e.expr(a))
	}
	return n + "(" + strings.Join(as, ", ") + ")"
}

func uniq(s []string) []string {
	var out []string
	for i, x := range s {
		if i == 0 || x != s[i-1] {
			out = append(out, x)
		}
	}
	return out
}

func uniqueStore(a *ssa.Alloc) *ssa.Store {
	var st *ssa.Store
	n := 0
	for _, r := range *a.Referrers() {
		if s, ok := r.(*ssa.Store); ok && s.Addr == a {
			// `x = x` (a named result returned as itself through an expanded helper) stores what is there already
			if ld, isLoad := s.Val.(*ssa.UnOp); isLoad && ld.Op == token.MUL && ld.X == ssa.Value(a) && ld.Block() == s.Block() {
				continue
			}
			st = s
			n++
		}
	}
	if n == 1 {
		return st
	}
	return nil
}

// uniqueFieldStore returns the single value stored to field idx of alloc a (through any FieldAddr of a), or nil.
func uniqueFieldStore(a *ssa.Alloc, idx int) ssa.Value {
	var val ssa.Value
	n := 0
	for _, r := range *a.Referrers() {
		fa, ok := r.(*ssa.FieldAddr)
		if !ok || fa.Field != idx {
			continue
		}
		for _, rr := range *fa.Referrers() {
			if st, ok := rr.(*ssa.Store); ok && st.Addr == fa {
				val = st.Val
				n++
			}
		}
	}
	if n == 1 {
		return val
	}
	return nil
}

// complitFields returns field name -> stored value for stores into fields of alloc a.
func complitFields(a *ssa.Alloc) map[string]ssa.Value {
	out := map[string]ssa.Value{}
	for _, r := range *a.Referrers() {
		fa, ok := r.(*ssa.FieldAddr)
		if !ok {
			continue
		}
		for _, rr := range *fa.Referrers() {
			if st, ok := rr.(*ssa.Store); ok && st.Addr == fa {
				out[fieldName(a.Type(), fa.Field)] = st.Val
			}
		}
	}
	return out
}

// closureSite finds the MakeClosure instruction creating fn in its parent.
func (c *Ctx) closureSite(fn *ssa.Function) *ssa.MakeClosure {
	if fn.Parent() == nil {
		return nil
	}
	if c.parentOf == nil {
		c.parentOf = map[*ssa.Function]*ssa.MakeClosure{}
	}
	if m, ok := c.parentOf[fn]; ok {
		return m
	}
	var found *ssa.MakeClosure
	eachInstr(fn.Parent(), func(i ssa.Instruction) {
		if m, ok := i.(*ssa.MakeClosure); ok && m.Fn == fn {
			found = m
		}
	})
	c.parentOf[fn] = found
	return found
}

// leaves collects the leaf values of the backward slice of v (params, globals,
// consts, calls, allocs, field loads rooted in those), through phi/binop/convert.
func leaves(v ssa.Value, throughCalls bool) []ssa.Value {
	seen := map[ssa.Value]bool{}
	var out []ssa.Value
	var walk func(ssa.Value, int)
	walk = func(v ssa.Value, d int) {
		if v == nil || seen[v] || d > 30 {
			return
		}
		seen[v] = true
		switch x := v.(type) {
		case *ssa.Phi:
			for _, e := range x.Edges {
				walk(e, d+1)
			}
		case *ssa.BinOp:
			walk(x.X, d+1)
			walk(x.Y, d+1)
		case *ssa.UnOp:
			if x.Op == token.MUL {
				if a, ok := x.X.(*ssa.Alloc); ok {
					if st := uniqueStore(a); st != nil {
						walk(st.Val, d+1)
						return
					}
				}
				out = append(out, v)
				return
			}
			walk(x.X, d+1)
		case *ssa.Convert:
			walk(x.X, d+1)
		case *ssa.ChangeType:
			walk(x.X, d+1)
		case *ssa.ChangeInterface:
			walk(x.X, d+1)
		case *ssa.MakeInterface:
			walk(x.X, d+1)
		case *ssa.Slice:
			walk(x.X, d+1)
		case *ssa.Extract:
			walk(x.Tuple, d+1)
		case *ssa.Call:
			out = append(out, v)
			if throughCalls {
				for _, a := range callArgs(&x.Call) {
					walk(a, d+1)
				}
			}
		default:
			out = append(out, v)
		}
	}
	walk(v, 0)
	return out
}

// ---------------------------------------------------------------- dominance and guards

// Guard: site executes only if Cond evaluated to Pol at block B.
type Guard struct {
	Cond ssa.Value
	Pol  bool
	If   *ssa.If
	Alt  [][]Guard // Cond == nil: a disjunction of conjunctions (from a branch on a flag set on several edges)
}

// flagOutcomes: block b ends in an `if` whose condition is decided by the edge through which b was entered: the
// condition is (the negation of) a phi of b, or compares a phi of b with a constant. Returns, per predecessor, 1 when
// the condition is true on entry from it, 0 when false, -1 when that edge's value does not decide it.
func flagOutcomes(b *ssa.BasicBlock) ([]int, bool) { return flagOutcomesD(b, 0) }

func flagOutcomesD(b *ssa.BasicBlock, depth int) ([]int, bool) {
	if b == nil || len(b.Instrs) == 0 || len(b.Succs) != 2 {
		return nil, false
	}
	iff, ok := b.Instrs[len(b.Instrs)-1].(*ssa.If)
	if !ok {
		return nil, false
	}
	v := iff.Cond
	neg := false
	for {
		if u, ok := v.(*ssa.UnOp); ok && u.Op == token.NOT {
			v = u.X
			neg = !neg
			continue
		}
		break
	}
	out := make([]int, len(b.Preds))
	for i := range out {
		out[i] = -1
	}
	flip := func(x int) int {
		if x < 0 || !neg {
			return x
		}
		return 1 - x
	}
	any := false
	if phi, ok := v.(*ssa.Phi); ok && phi.Block() == b {
		for k := range b.Preds {
			if k < len(phi.Edges) {
				if cst, ok := phi.Edges[k].(*ssa.Const); ok && cst.Value != nil && cst.Value.Kind() == constant.Bool {
					out[k] = 0
					if constant.BoolVal(cst.Value) {
						out[k] = 1
					}
					out[k] = flip(out[k])
					any = true
				}
			}
		}
		return out, any
	}
	bo, ok := v.(*ssa.BinOp)
	if !ok || (bo.Op != token.EQL && bo.Op != token.NEQ) {
		return nil, false
	}
	var phi *ssa.Phi
	var other *ssa.Const
	for _, pr := range [][2]ssa.Value{{bo.X, bo.Y}, {bo.Y, bo.X}} {
		if p, ok := pr[0].(*ssa.Phi); ok && p.Block() == b {
			if k, ok := pr[1].(*ssa.Const); ok {
				phi, other = p, k
			}
		}
	}
	if phi == nil {
		return nil, false
	}
	for k := range b.Preds {
		if k >= len(phi.Edges) {
			continue
		}
		eq := -1
		e := phi.Edges[k]
		if cst, ok := e.(*ssa.Const); ok {
			switch {
			case cst.IsNil() && other.IsNil():
				eq = 1
			case cst.IsNil() != other.IsNil():
				eq = 0
			case cst.Value != nil && other.Value != nil && cst.Value.Kind() == other.Value.Kind():
				eq = 0
				if constant.Compare(cst.Value, token.EQL, other.Value) {
					eq = 1
				}
			}
		} else if other.IsNil() && knownNonNil(e, 0) {
			eq = 0
		} else if other.IsNil() && depth < 2 {
			switch nilTestedOnEdge(e, b.Preds[k], b, depth) {
			case 0:
				eq = 0
			case 1:
				eq = 1
			}
		}
		if eq >= 0 {
			r := eq
			if bo.Op == token.NEQ {
				r = 1 - eq
			}
			out[k] = flip(r)
			any = true
		}
	}
	return out, any
}

// nilTestedOnEdge: the conditions holding on the edge pred→succ include a test of e against nil: 1 = e is nil,
// 0 = e is not nil, -1 = no such test.
func nilTestedOnEdge(e ssa.Value, pred, succ *ssa.BasicBlock, depth int) int {
	for _, g := range edgeGuardList(pred, succ, depth+1) {
		bo, ok := g.Cond.(*ssa.BinOp)
		if !ok || (bo.Op != token.EQL && bo.Op != token.NEQ) {
			continue
		}
		for _, pr := range [][2]ssa.Value{{bo.X, bo.Y}, {bo.Y, bo.X}} {
			if k, isC := pr[1].(*ssa.Const); isC && k.IsNil() && pr[0] == e {
				isNil := (bo.Op == token.EQL) == g.Pol
				if isNil {
					return 1
				}
				return 0
			}
		}
	}
	return -1
}

// knownNonNil: v cannot be nil (freshly made values, non-nil by construction; a call that hands back one of its
// arguments, or errors.New / fmt.Errorf).
func knownNonNil(v ssa.Value, depth int) bool {
	if depth > 4 {
		return false
	}
	switch x := v.(type) {
	case *ssa.MakeInterface, *ssa.Alloc, *ssa.MakeClosure, *ssa.MakeMap, *ssa.MakeChan, *ssa.MakeSlice, *ssa.Function, *ssa.FieldAddr, *ssa.IndexAddr, *ssa.Global:
		return true
	case *ssa.ChangeInterface:
		return knownNonNil(x.X, depth+1)
	case *ssa.ChangeType:
		return knownNonNil(x.X, depth+1)
	case *ssa.Phi:
		for _, e := range x.Edges {
			if !knownNonNil(e, depth+1) {
				return false
			}
		}
		return len(x.Edges) > 0
	case *ssa.UnOp:
		// a load of a package-level sentinel (`var errX = errors.New(…)`, a ConnectionError/StreamError value) that
		// is assigned once, in the package initialiser, a value that is never nil
		if x.Op == token.MUL {
			if g, ok := x.X.(*ssa.Global); ok {
				return sentinelNonNil(g)
			}
		}
	case *ssa.Call:
		switch calleeName(&x.Call) {
		case "errors.New", "fmt.Errorf":
			return true
		}
		if g := staticCallee(&x.Call); g != nil && g.Blocks != nil && g.Signature.Results().Len() == 1 {
			// every return of the callee returns something that is never nil (a struct or number converted to error, a
			// fresh error): `fr.connError(code, reason)` returning ConnectionError(code)
			if depth < 3 && g.Recover == nil {
				all, n := true, 0
				for _, b := range g.Blocks {
					for _, i := range b.Instrs {
						if ret, ok := i.(*ssa.Return); ok {
							n++
							if len(ret.Results) != 1 || !knownNonNil(ret.Results[0], depth+2) {
								all = false
							}
						}
					}
				}
				if all && n > 0 {
					return true
				}
			}
			if k, ok := identityReturn(g); ok {
				args := x.Call.Args
				if k < len(args) {
					return knownNonNil(args[k], depth+1)
				}
			}
		}
	}
	return false
}

// identityReturn: every return of g returns its parameter k unchanged.
func identityReturn(g *ssa.Function) (int, bool) {
	k := -1
	ok := true
	n := 0
	eachInstr(g, func(i ssa.Instruction) {
		ret, isR := i.(*ssa.Return)
		if !isR || len(ret.Results) != 1 || (g.Recover != nil && i.Block() == g.Recover) {
			return
		}
		n++
		p, isP := ret.Results[0].(*ssa.Parameter)
		if !isP {
			ok = false
			return
		}
		for idx, q := range g.Params {
			if q == p {
				if k >= 0 && k != idx {
					ok = false
				}
				k = idx
			}
		}
	})
	return k, ok && n > 0 && k >= 0
}

// feasibleSuccs: successors of b when it was entered from `from`. A block that branches on a flag (a phi of boolean
// constants, the shape left by `ok := false; if c { ok = true }; if ok {…}` and by an expanded helper that returns
// true/false or an error) continues only on the side the flag selects.
func feasibleSuccs(b, from *ssa.BasicBlock) []*ssa.BasicBlock {
	if ls := liveSuccs(b); len(ls) != len(b.Succs) {
		return ls
	}
	if from == nil {
		return b.Succs
	}
	oc, ok := flagOutcomes(b)
	if !ok {
		return b.Succs
	}
	for k, p := range b.Preds {
		if p == from {
			switch oc[k] {
			case 1:
				return b.Succs[:1]
			case 0:
				return b.Succs[1:2]
			}
			return b.Succs
		}
	}
	return b.Succs
}

func isThreaded(b *ssa.BasicBlock) bool {
	_, ok := flagOutcomes(b)
	return ok
}

// refineAt: the value v has in block blk. A phi of a flag block whose branch side dominating blk can be entered
// from exactly one predecessor is that predecessor's value.
func refineAt(v ssa.Value, blk *ssa.BasicBlock) ssa.Value {
	for depth := 0; depth < 4; depth++ {
		phi, ok := v.(*ssa.Phi)
		if !ok || blk == nil {
			return v
		}
		d := phi.Block()
		oc, isFlag := flagOutcomes(d)
		if !isFlag {
			return v
		}
		side := -1
		if edgeDominates(d, 0, blk) {
			side = 1
		} else if edgeDominates(d, 1, blk) {
			side = 0
		}
		if side < 0 {
			return v
		}
		var cand []int
		for k := range d.Preds {
			if oc[k] == side || oc[k] < 0 {
				cand = append(cand, k)
			}
		}
		if len(cand) != 1 || cand[0] >= len(phi.Edges) {
			return v
		}
		v = phi.Edges[cand[0]]
	}
	return v
}

func (c *Ctx) ExprAt(v ssa.Value, blk *ssa.BasicBlock) string { return c.Expr(refineAt(v, blk)) }

// edgeGuardList: guards that hold when control goes from pred to succ.
func edgeGuardList(pred, succ *ssa.BasicBlock, depth int) []Guard {
	out := guardsOfD(pred, depth+1)
	if len(pred.Instrs) > 0 {
		if iff, ok := pred.Instrs[len(pred.Instrs)-1].(*ssa.If); ok && len(pred.Succs) == 2 && pred.Succs[0] != pred.Succs[1] {
			if pred.Succs[0] == succ {
				out = append([]Guard{{Cond: iff.Cond, Pol: true, If: iff}}, out...)
			} else if pred.Succs[1] == succ {
				out = append([]Guard{{Cond: iff.Cond, Pol: false, If: iff}}, out...)
			}
		}
	}
	return out
}

func edgeDominates(d *ssa.BasicBlock, succIdx int, b *ssa.BasicBlock) bool {
	s := d.Succs[succIdx]
	if d.Succs[0] == d.Succs[1] {
		return false
	}
	if !s.Dominates(b) {
		return false
	}
	for _, p := range s.Preds {
		if p == d {
			continue
		}
		if !s.Dominates(p) {
			return false
		}
	}
	return true
}

// guardsOf returns the branch conditions that dominate block b (innermost first).
var useDomGuards = os.Getenv("FPCHECK_DOMGUARDS") != ""

// guardsOf: the branch outcomes that hold whenever b executes (path conditions, see pathcond.go); with
// FPCHECK_DOMGUARDS=1 the older dominator-based computation is used instead (kept for comparison).
func guardsOf(b *ssa.BasicBlock) []Guard {
	if useDomGuards {
		return guardsOfD(b, 0)
	}
	// only what holds on every path; the disjunction over the edges joining at b is added by reachConds where wanted
	common, _ := pathGuards(b)
	return common
}

func guardsOfD(b *ssa.BasicBlock, depth int) []Guard {
	var out []Guard
	seen := map[[2]any]bool{}
	add := func(g Guard) {
		if g.Cond != nil {
			k := [2]any{g.Cond, g.Pol}
			if seen[k] {
				return
			}
			seen[k] = true
		}
		out = append(out, g)
	}
	for d := b.Idom(); d != nil; d = d.Idom() {
		if len(d.Instrs) == 0 {
			continue
		}
		iff, ok := d.Instrs[len(d.Instrs)-1].(*ssa.If)
		if !ok {
			continue
		}
		side := -1
		if edgeDominates(d, 0, b) {
			side = 0
		} else if edgeDominates(d, 1, b) {
			side = 1
		}
		if side < 0 {
			continue
		}
		// a branch on a flag: state the conditions under which the flag has the value this side needs
		if oc, isFlag := flagOutcomesD(d, depth+1); isFlag && depth < 3 {
			want := 1
			if side == 1 {
				want = 0
			}
			var sets [][]Guard
			unknown := false
			for k, p := range d.Preds {
				if oc[k] < 0 {
					unknown = true
				}
				if oc[k] == want || oc[k] < 0 {
					sets = append(sets, edgeGuardList(p, d, depth))
				}
			}
			if len(sets) >= 1 {
				if unknown {
					// an undecided edge keeps the test itself as a condition
					add(Guard{Cond: iff.Cond, Pol: side == 0, If: iff})
				}
				if len(sets) == 1 {
					for _, g := range sets[0] {
						add(g)
					}
				} else if !unknown {
					out = append(out, Guard{Alt: sets, If: iff})
				}
				continue
			}
		}
		add(Guard{Cond: iff.Cond, Pol: side == 0, If: iff})
	}
	return out
}

// guardStrs renders guards as "+cond" / "-cond" in canonical polarity (see canonGuard).
func (c *Ctx) guardStrs(b *ssa.BasicBlock) []string {
	var out []string
	for _, g := range guardsOf(b) {
		out = append(out, c.guardStr(g))
	}
	return out
}

func (c *Ctx) guardStr(g Guard) string {
	if g.Cond != nil {
		return canonGuard(g.Pol, c.Expr(g.Cond))
	}
	// common literals are factored out by the caller's reader; render the alternatives sorted
	var alts []string
	for _, set := range g.Alt {
		var lits []string
		for _, x := range set {
			lits = append(lits, c.guardStr(x))
		}
		sort.Strings(lits)
		alts = append(alts, "("+strings.Join(uniq(lits), " & ")+")")
	}
	sort.Strings(alts)
	return "OR{" + strings.Join(uniq(alts), " | ") + "}"
}

// splitCmp splits a rendered comparison "(L op R)" at its top-level operator.
func splitCmp(e string) (l, op, r string, ok bool) {
	if len(e) < 2 || e[0] != '(' || e[len(e)-1] != ')' {
		return
	}
	depth := 0
	inStr := false
	for i := 0; i < len(e); i++ {
		ch := e[i]
		if inStr {
			if ch == '\\' {
				i++
			} else if ch == '"' {
				inStr = false
			}
			continue
		}
		switch ch {
		case '"':
			inStr = true
		case '(', '[', '{':
			depth++
		case ')', ']', '}':
			depth--
			if depth == 0 && i != len(e)-1 {
				return // the outer parenthesis closes early: not a single parenthesised term
			}
		case ' ':
			if depth == 1 {
				for _, o := range []string{" == ", " != ", " <= ", " < "} {
					if strings.HasPrefix(e[i:], o) {
						return e[1:i], strings.TrimSpace(o), e[i+len(o) : len(e)-1], true
					}
				}
			}
		}
	}
	return
}

// canonGuard gives every branch condition one spelling whatever way the source wrote the test: a comparison is always
// stated positively ("-(a == b)" becomes "+(a != b)", "-(a < b)" becomes "+(b <= a)"), a negated operand flips the sign.
// `if x == nil {A} else {B}` and `if x != nil {B} else {A}` thus give A and B the same guards.
func canonGuard(pol bool, cond string) string {
	for strings.HasPrefix(cond, "!") {
		cond = cond[1:]
		pol = !pol
	}
	if l, op, r, ok := splitCmp(cond); ok && !pol {
		switch op {
		case "==":
			return "+(" + l + " != " + r + ")"
		case "!=":
			return "+(" + l + " == " + r + ")"
		case "<":
			return "+(" + r + " <= " + l + ")"
		case "<=":
			return "+(" + r + " < " + l + ")"
		}
	}
	if pol {
		return "+" + cond
	}
	return "-" + cond
}

// negGuard is the canonical spelling of the negation of a canonical guard.
func negGuard(g string) string {
	if len(g) == 0 {
		return g
	}
	return canonGuard(g[0] != '+', g[1:])
}

// canonStr canonicalises a guard given as "+cond" / "-cond" (rule code may spell expectations either way).
func canonStr(g string) string {
	if len(g) == 0 || (g[0] != '+' && g[0] != '-') {
		return g
	}
	return canonGuard(g[0] == '+', g[1:])
}

// altGuard is the other spelling of a canonical comparison guard ("+(a != b)" -> "-(a == b)"), or "".
func altGuard(g string) string {
	if len(g) == 0 || g[0] != '+' {
		return ""
	}
	if l, op, r, ok := splitCmp(g[1:]); ok {
		switch op {
		case "==":
			return "-(" + l + " != " + r + ")"
		case "!=":
			return "-(" + l + " == " + r + ")"
		case "<":
			return "-(" + r + " <= " + l + ")"
		case "<=":
			return "-(" + r + " < " + l + ")"
		}
	}
	return ""
}

func hasGuard(gs []string, want string) bool {
	want = canonStr(want)
	for _, g := range gs {
		if g == want {
			return true
		}
	}
	return false
}

// guardErrOn / guardOkOn: a dominating test `x != nil` / `x == nil` (in either spelling) of a value whose rendering contains sub.
func guardErrOn(gs []string, sub string) bool {
	for _, g := range gs {
		if l, op, r, ok := splitCmp(strings.TrimPrefix(g, "+")); ok && strings.HasPrefix(g, "+") && op == "!=" && (r == "nil" || l == "nil") && strings.Contains(g, sub) {
			return true
		}
	}
	return false
}

func guardOkOn(gs []string, sub string) bool {
	for _, g := range gs {
		if l, op, r, ok := splitCmp(strings.TrimPrefix(g, "+")); ok && strings.HasPrefix(g, "+") && op == "==" && (r == "nil" || l == "nil") && strings.Contains(g, sub) {
			return true
		}
	}
	return false
}

// hasGuardContaining: a guard of the given polarity whose condition contains sub. For comparisons, which have two
// spellings ("+(a != b)" is "-(a == b)"), sub should include the operator; both spellings are tried.
func hasGuardContaining(gs []string, pol string, sub string) bool {
	for _, g := range gs {
		if strings.HasPrefix(g, pol) && strings.Contains(g, sub) {
			return true
		}
		if a := altGuard(g); a != "" && strings.HasPrefix(a, pol) && strings.Contains(a, sub) {
			return true
		}
	}
	return false
}

// instrDominates: a executes before b on every path reaching b.
func instrDominates(a, b ssa.Instruction) bool {
	ba, bb := a.Block(), b.Block()
	if ba == bb {
		for _, i := range ba.Instrs {
			if i == a {
				return true
			}
			if i == b {
				return false
			}
		}
		return false
	}
	return ba.Dominates(bb)
}

func instrIndex(i ssa.Instruction) int {
	for k, x := range i.Block().Instrs {
		if x == i {
			return k
		}
	}
	return -1
}

// ---------------------------------------------------------------- P1 must-pass-through

// pathViolation: from just after `from`, is there a path reaching an
// instruction satisfying `bad` without first passing one satisfying `via`?
// Returns the block path (as "bN(line)" strings) of a witness, or nil.
// If from is nil, the walk starts at function entry.
func (c *Ctx) escapePath(fn *ssa.Function, from ssa.Instruction, via, bad func(ssa.Instruction) bool) []string {
	type node struct {
		b    *ssa.BasicBlock
		idx  int
		from *ssa.BasicBlock // predecessor through which b was entered (kept only for blocks that branch on a flag)
		par  *node
	}
	startB := fn.Blocks[0]
	startIdx := 0
	if from != nil {
		startB = from.Block()
		startIdx = instrIndex(from) + 1
	}
	type vkey struct{ b, from *ssa.BasicBlock }
	visited := map[vkey]bool{}
	queue := []*node{{b: startB, idx: startIdx}}
	render := func(n *node, last ssa.Instruction) []string {
		var rev []string
		for cur := n; cur != nil; cur = cur.par {
			ln := ""
			for _, i := range cur.b.Instrs {
				if p := i.Pos(); p.IsValid() {
					ln = c.Pos(p)
					break
				}
			}
			rev = append(rev, fmt.Sprintf("b%d[%s](%s)", cur.b.Index, cur.b.Comment, ln))
			if len(rev) > 200 {
				break
			}
		}
		for i, j := 0, len(rev)-1; i < j; i, j = i+1, j-1 {
			rev[i], rev[j] = rev[j], rev[i]
		}
		if last != nil {
			rev = append(rev, "→ "+c.Pos(instrPos(last))+" "+shortInstr(last))
		}
		return rev
	}
	first := true
	for len(queue) > 0 {
		n := queue[0]
		queue = queue[1:]
		if !first || n.idx == 0 {
			k := vkey{n.b, nil}
			if isThreaded(n.b) {
				k.from = n.from
			}
			if visited[k] {
				continue
			}
			visited[k] = true
		}
		first = false
		stopped := false
		for k := n.idx; k < len(n.b.Instrs); k++ {
			i := n.b.Instrs[k]
			if via(i) {
				stopped = true
				break
			}
			if bad(i) {
				return render(n, i)
			}
		}
		if stopped {
			continue
		}
		for _, s := range feasibleSuccs(n.b, n.from) {
			queue = append(queue, &node{b: s, from: n.b, par: n})
		}
	}
	return nil
}

func shortInstr(i ssa.Instruction) string {
	s := i.String()
	if len(s) > 90 {
		s = s[:90] + "…"
	}
	return s
}

func isReturn(i ssa.Instruction) bool { _, ok := i.(*ssa.Return); return ok }

// ---------------------------------------------------------------- P2 exact count on all paths

type countResult struct {
	Min, Max int
	InLoop   bool // an event lies on a cycle
	Exits    int
}

// countOnPaths computes min/max number of events over all entry→return paths.
// Paths ending in panic are ignored. Events on a cycle set InLoop.
func countOnPaths(fn *ssa.Function, event func(ssa.Instruction) int) countResult {
	bw := make([]int, len(fn.Blocks))
	for _, b := range fn.Blocks {
		for _, i := range b.Instrs {
			bw[b.Index] += event(i)
		}
	}
	// nodes: one per block, except that a block branching on a flag (see feasibleSuccs) gets one node per predecessor
	type nkey struct{ b, from *ssa.BasicBlock }
	id := map[nkey]int{}
	var nodes []nkey
	var adj [][]int
	var mk func(b, from *ssa.BasicBlock) int
	mk = func(b, from *ssa.BasicBlock) int {
		k := nkey{b, nil}
		if isThreaded(b) {
			k.from = from
		}
		if v, ok := id[k]; ok {
			return v
		}
		v := len(nodes)
		id[k] = v
		nodes = append(nodes, k)
		adj = append(adj, nil)
		var out []int
		for _, s := range feasibleSuccs(b, k.from) {
			out = append(out, mk(s, b))
		}
		adj[v] = out
		return v
	}
	mk(fn.Blocks[0], nil)
	n := len(nodes)
	w := make([]int, n)
	for v, k := range nodes {
		w[v] = bw[k.b.Index]
	}
	// SCCs (Tarjan)
	index := make([]int, n)
	low := make([]int, n)
	on := make([]bool, n)
	comp := make([]int, n)
	for i := range index {
		index[i] = -1
		comp[i] = -1
	}
	var stack []int
	idx, nc := 0, 0
	var strong func(v int)
	strong = func(v int) {
		index[v], low[v] = idx, idx
		idx++
		stack = append(stack, v)
		on[v] = true
		for _, s := range adj[v] {
			if index[s] < 0 {
				strong(s)
				if low[s] < low[v] {
					low[v] = low[s]
				}
			} else if on[s] && index[s] < low[v] {
				low[v] = index[s]
			}
		}
		if low[v] == index[v] {
			for {
				x := stack[len(stack)-1]
				stack = stack[:len(stack)-1]
				on[x] = false
				comp[x] = nc
				if x == v {
					break
				}
			}
			nc++
		}
	}
	strong(0)
	res := countResult{Min: 1 << 30, Max: -1}
	size := make([]int, nc)
	cw := make([]int, nc)
	selfLoop := make([]bool, nc)
	for v := 0; v < n; v++ {
		if comp[v] < 0 {
			continue
		}
		size[comp[v]]++
		cw[comp[v]] += w[v]
		for _, s := range adj[v] {
			if s == v {
				selfLoop[comp[v]] = true
			}
		}
	}
	for k := 0; k < nc; k++ {
		if (size[k] > 1 || selfLoop[k]) && cw[k] != 0 {
			res.InLoop = true
		}
	}
	// DP over condensation: Tarjan numbers components in reverse topological order
	const inf = 1 << 30
	minTo := make([]int, nc)
	maxTo := make([]int, nc)
	for k := range minTo {
		minTo[k] = inf
		maxTo[k] = -inf
	}
	entry := comp[0]
	// for cyclic comps, count weight once for min (a path may pass through all or part); conservative: min uses 0 if cyclic, max uses cw
	wmin := func(k int) int {
		if size[k] > 1 || selfLoop[k] {
			return 0
		}
		return cw[k]
	}
	minTo[entry] = wmin(entry)
	maxTo[entry] = cw[entry]
	for k := nc - 1; k >= 0; k-- { // topological order = decreasing comp number
		if minTo[k] == inf {
			continue
		}
		for v := 0; v < n; v++ {
			if comp[v] != k {
				continue
			}
			b := nodes[v].b
			if len(b.Instrs) > 0 {
				if _, ok := b.Instrs[len(b.Instrs)-1].(*ssa.Return); ok {
					res.Exits++
					if minTo[k] < res.Min {
						res.Min = minTo[k]
					}
					if maxTo[k] > res.Max {
						res.Max = maxTo[k]
					}
				}
			}
			for _, s := range adj[v] {
				t := comp[s]
				if t == k {
					continue
				}
				if minTo[k]+wmin(t) < minTo[t] {
					minTo[t] = minTo[k] + wmin(t)
				}
				if maxTo[k]+cw[t] > maxTo[t] {
					maxTo[t] = maxTo[k] + cw[t]
				}
			}
		}
	}
	return res
}

// ---------------------------------------------------------------- P4 access index

type Access struct {
	Fn    *ssa.Function
	Instr ssa.Instruction
	Kind  string // "read", "write", "addr:<use>"
	Addr  ssa.Value
}

// fieldAccesses lists all accesses to field `field` of named struct type nt in fns.
func fieldAccesses(fns []*ssa.Function, nt *types.Named, field string) []Access {
	var out []Access
	for _, fn := range fns {
		eachInstr(fn, func(i ssa.Instruction) {
			switch x := i.(type) {
			case *ssa.FieldAddr:
				if !fieldOwnerIs(x.X.Type(), x.Field, nt, field) {
					return
				}
				refs := x.Referrers()
				if refs == nil || len(*refs) == 0 {
					return
				}
				for _, r := range *refs {
					switch u := r.(type) {
					case *ssa.Store:
						if u.Addr == x {
							out = append(out, Access{fn, u, "write", x})
						} else {
							out = append(out, Access{fn, u, "addr:stored", x})
						}
					case *ssa.UnOp:
						if u.Op == token.MUL {
							out = append(out, Access{fn, u, "read", x})
						}
					case *ssa.DebugRef:
					default:
						k := "addr:" + shortKind(r)
						out = append(out, Access{fn, r, k, x})
					}
				}
			case *ssa.Field:
				if fieldOwnerIs(x.X.Type(), x.Field, nt, field) {
					out = append(out, Access{fn, x, "read", nil})
				}
			}
		})
	}
	return out
}

func shortKind(i ssa.Instruction) string {
	if c := callOf(i); c != nil {
		n := calleeName(c)
		if n == "" {
			n = "dynamic"
		}
		return "call:" + n
	}
	switch i.(type) {
	case *ssa.FieldAddr:
		return "fieldaddr"
	case *ssa.IndexAddr:
		return "indexaddr"
	case *ssa.MakeClosure:
		return "closure"
	case *ssa.Phi:
		return "phi"
	}
	return fmt.Sprintf("%T", i)
}

// globalWriters lists stores to global g (direct stores, and map/field/index updates through it) in fns.
func globalWriters(fns []*ssa.Function, g *ssa.Global) []Access {
	var out []Access
	for _, fn := range fns {
		eachInstr(fn, func(i ssa.Instruction) {
			switch x := i.(type) {
			case *ssa.Store:
				if rootGlobal(x.Addr) == g {
					out = append(out, Access{fn, x, "write", x.Addr})
				}
			case *ssa.MapUpdate:
				if rootGlobal(x.Map) == g {
					out = append(out, Access{fn, x, "write", x.Map})
				}
			}
		})
	}
	return out
}

// rootGlobal follows field/index/deref chains down to a global, if any.
func rootGlobal(v ssa.Value) *ssa.Global {
	for d := 0; d < 20; d++ {
		switch x := v.(type) {
		case *ssa.Global:
			return x
		case *ssa.FieldAddr:
			v = x.X
		case *ssa.IndexAddr:
			v = x.X
		case *ssa.UnOp:
			v = x.X
		case *ssa.Field:
			v = x.X
		case *ssa.Slice:
			v = x.X
		case *ssa.ChangeType:
			v = x.X
		default:
			return nil
		}
	}
	return nil
}

// ---------------------------------------------------------------- P7 call graph reachability

// reachable returns functions reachable from roots in the VTA call graph.
// Edges for which cutEdge returns true, and nodes for which cutNode returns true, are not followed.
// parent maps each reached function to the (caller, site) through which it was first reached.
type reachInfo struct {
	From *ssa.Function
	Site ssa.CallInstruction
}

func (c *Ctx) reachable(roots []*ssa.Function, followGo bool, cutNode func(*ssa.Function) bool) map[*ssa.Function]reachInfo {
	cg := c.CG()
	out := map[*ssa.Function]reachInfo{}
	var q []*ssa.Function
	for _, r := range roots {
		if r == nil {
			continue
		}
		if _, ok := out[r]; !ok {
			out[r] = reachInfo{}
			q = append(q, r)
		}
	}
	for len(q) > 0 {
		f := q[0]
		q = q[1:]
		if cutNode != nil && cutNode(f) {
			continue
		}
		n := cg.Nodes[f]
		if n == nil {
			continue
		}
		// deterministic order
		edges := n.Out
		for _, e := range edges {
			if !followGo {
				if _, isGo := e.Site.(*ssa.Go); isGo {
					continue
				}
			}
			t := e.Callee.Func
			if _, ok := out[t]; ok {
				continue
			}
			out[t] = reachInfo{f, e.Site}
			q = append(q, t)
		}
		// closures created here and passed to opaque callees count as called
		if f.Blocks != nil {
			eachInstr(f, func(i ssa.Instruction) {
				if mc, ok := i.(*ssa.MakeClosure); ok {
					if t, ok := mc.Fn.(*ssa.Function); ok {
						if _, seen := out[t]; !seen && closureEscapesToOpaque(c, mc) {
							out[t] = reachInfo{f, nil}
							q = append(q, t)
						}
					}
				}
			})
		}
	}
	return out
}

// closureEscapesToOpaque: closure value is passed as an argument to a call whose callee has no body in the program.
func closureEscapesToOpaque(c *Ctx, mc *ssa.MakeClosure) bool {
	refs := mc.Referrers()
	if refs == nil {
		return false
	}
	for _, r := range *refs {
		if cc := callOf(r); cc != nil {
			if _, isGo := r.(*ssa.Go); isGo {
				continue
			}
			f := staticCallee(cc)
			if f == nil || f.Blocks == nil {
				for _, a := range cc.Args {
					if a == mc {
						return true
					}
				}
			}
		}
	}
	return false
}

func (c *Ctx) pathTo(info map[*ssa.Function]reachInfo, f *ssa.Function) string {
	var rev []string
	for f != nil {
		ri, ok := info[f]
		s := funcName(f)
		if ok && ri.Site != nil {
			s += "@" + c.Pos(ri.Site.Pos())
		}
		rev = append(rev, s)
		if !ok || ri.From == nil {
			break
		}
		f = ri.From
		if len(rev) > 40 {
			break
		}
	}
	for i, j := 0, len(rev)-1; i < j; i, j = i+1, j-1 {
		rev[i], rev[j] = rev[j], rev[i]
	}
	return strings.Join(rev, " → ")
}

// ---------------------------------------------------------------- P5 lock-held dataflow

// lockState: held[key] = "W" or "R"
type lockSet map[string]string

func (a lockSet) clone() lockSet {
	b := lockSet{}
	for k, v := range a {
		b[k] = v
	}
	return b
}

func meet(a, b lockSet) lockSet {
	if a == nil {
		return b.clone()
	}
	out := lockSet{}
	for k, v := range a {
		if w, ok := b[k]; ok {
			if v == w {
				out[k] = v
			} else {
				out[k] = "R"
			}
		}
	}
	return out
}

func eqLock(a, b lockSet) bool {
	if len(a) != len(b) {
		return false
	}
	for k, v := range a {
		if b[k] != v {
			return false
		}
	}
	return true
}

var lockOps = map[string]string{
	"(*sync.RWMutex).Lock": "+W", "(*sync.RWMutex).Unlock": "-W", "(*sync.RWMutex).RLock": "+R", "(*sync.RWMutex).RUnlock": "-R",
	"(*sync.Mutex).Lock": "+W", "(*sync.Mutex).Unlock": "-W",
}

// locksHeld computes, for every instruction in fn, the set of mutex access
// paths (rendered by Expr) that are held on every path reaching it.
// Deferred unlocks are ignored (the lock stays held until exit).
func (c *Ctx) locksHeld(fn *ssa.Function) map[ssa.Instruction]lockSet {
	in := make([]lockSet, len(fn.Blocks))
	in[0] = lockSet{}
	apply := func(s lockSet, i ssa.Instruction) lockSet {
		call, ok := i.(*ssa.Call)
		if !ok {
			return s
		}
		op, ok := lockOps[calleeName(&call.Call)]
		if !ok || len(call.Call.Args) == 0 {
			return s
		}
		key := c.Expr(call.Call.Args[0])
		s = s.clone()
		switch op {
		case "+W":
			s[key] = "W"
		case "+R":
			if s[key] != "W" {
				s[key] = "R"
			}
		case "-W", "-R":
			delete(s, key)
		}
		return s
	}
	changed := true
	for iter := 0; changed && iter < 100; iter++ {
		changed = false
		for _, b := range fn.Blocks {
			var s lockSet
			if b.Index == 0 {
				s = lockSet{}
			} else {
				for _, p := range b.Preds {
					if in[p.Index] == nil {
						continue
					}
					// out of p
					o := in[p.Index]
					for _, i := range p.Instrs {
						o = apply(o, i)
					}
					s = meet(s, o)
				}
			}
			if s == nil {
				continue
			}
			if in[b.Index] == nil || !eqLock(in[b.Index], s) {
				in[b.Index] = s
				changed = true
			}
		}
	}
	out := map[ssa.Instruction]lockSet{}
	for _, b := range fn.Blocks {
		s := in[b.Index]
		if s == nil {
			s = lockSet{}
		}
		for _, i := range b.Instrs {
			out[i] = s
			s = apply(s, i)
		}
	}
	return out
}

// ---------------------------------------------------------------- misc

// reachesWithin: can instruction b be executed after a (intra-procedurally)?
func reachesAfter(a, b ssa.Instruction) bool {
	if a.Block() == b.Block() && instrIndex(a) < instrIndex(b) {
		return true
	}
	seen := map[*ssa.BasicBlock]bool{}
	q := append([]*ssa.BasicBlock{}, a.Block().Succs...)
	for len(q) > 0 {
		x := q[0]
		q = q[1:]
		if seen[x] {
			continue
		}
		seen[x] = true
		if x == b.Block() {
			return true
		}
		q = append(q, x.Succs...)
	}
	return false
}

// inLoop: is block b on a CFG cycle?
func inLoop(b *ssa.BasicBlock) bool {
	seen := map[*ssa.BasicBlock]bool{}
	q := append([]*ssa.BasicBlock{}, b.Succs...)
	for len(q) > 0 {
		x := q[0]
		q = q[1:]
		if x == b {
			return true
		}
		if seen[x] {
			continue
		}
		seen[x] = true
		q = append(q, x.Succs...)
	}
	return false
}

// constOf returns the constant value of v if it is an ssa.Const.
func constInt(v ssa.Value) (int64, bool) {
	for {
		switch x := v.(type) {
		case *ssa.Convert:
			v = x.X
			continue
		case *ssa.ChangeType:
			v = x.X
			continue
		}
		break
	}
	k, ok := v.(*ssa.Const)
	if !ok || k.Value == nil {
		if ok && k.Value == nil {
			return 0, true
		}
		return 0, false
	}
	if k.Value.Kind() != constant.Int {
		return 0, false
	}
	n, ok := constant.Int64Val(k.Value)
	return n, ok
}

func constString(v ssa.Value) (string, bool) {
	for {
		switch x := v.(type) {
		case *ssa.Convert:
			v = x.X
			continue
		case *ssa.ChangeType:
			v = x.X
			continue
		case *ssa.MakeInterface:
			v = x.X
			continue
		}
		break
	}
	k, ok := v.(*ssa.Const)
	if !ok || k.Value == nil || k.Value.Kind() != constant.String {
		return "", false
	}
	return constant.StringVal(k.Value), true
}

// variadicElems returns the element values stored into the slice literal passed as a variadic argument.
func variadicElems(v ssa.Value) []ssa.Value {
	sl, ok := v.(*ssa.Slice)
	if !ok {
		return nil
	}
	al, ok := sl.X.(*ssa.Alloc)
	if !ok {
		return nil
	}
	type kv struct {
		idx int64
		val ssa.Value
	}
	var els []kv
	for _, r := range *al.Referrers() {
		ia, ok := r.(*ssa.IndexAddr)
		if !ok {
			continue
		}
		idx, _ := constInt(ia.Index)
		for _, rr := range *ia.Referrers() {
			if st, ok := rr.(*ssa.Store); ok && st.Addr == ia {
				els = append(els, kv{idx, st.Val})
			}
		}
	}
	sort.Slice(els, func(i, j int) bool { return els[i].idx < els[j].idx })
	var out []ssa.Value
	for _, e := range els {
		out = append(out, e.val)
	}
	return out
}

func structNumFields(t types.Type) int {
	if st, ok := t.Underlying().(*types.Struct); ok {
		return st.NumFields()
	}
	return 0
}

func structField(t types.Type, i int) *types.Var {
	return t.Underlying().(*types.Struct).Field(i)
}

// constObjString returns the exact value of a constant object, "" otherwise.
func constObjString(o types.Object) string {
	if k, ok := o.(*types.Const); ok {
		return k.Val().ExactString()
	}
	return ""
}

// isInitFn: the package initialiser or a declared `func init()`.
func isInitFn(f *ssa.Function) bool {
	return f != nil && f.Parent() == nil && (f.Name() == "init" || strings.HasPrefix(f.Name(), "init#"))
}

// eqs renders an equality the way Expr does (operands in lexical order).
func eqs(a, b string) string {
	if sortKey(b) < sortKey(a) {
		a, b = b, a
	}
	return "(" + a + " == " + b + ")"
}

// sortKey: operand ordering must not depend on which copy (fork or upstream reference) a name belongs to.
func sortKey(s string) string { return normRef(s) }

// countWithCallees wraps an event predicate so that a static call to a function of the same package contributes that
// function's own (path-independent) event count: a helper extracted from the analysed function does not hide its effects.
// A callee whose count differs between its paths contributes `varying` (a large number), which exact-count rules reject.
const varying = 1000

func countWithCallees(base func(ssa.Instruction) int, depth int) func(ssa.Instruction) int {
	var ev func(ssa.Instruction) int
	memo := map[*ssa.Function]int{}
	var level int
	ev = func(i ssa.Instruction) int {
		if n := base(i); n != 0 {
			return n
		}
		call, ok := i.(*ssa.Call)
		if !ok || level >= depth {
			return 0
		}
		g := staticCallee(&call.Call)
		if g == nil || g.Blocks == nil || g.Pkg == nil || i.Parent().Pkg == nil || g.Pkg != i.Parent().Pkg {
			return 0
		}
		if v, ok := memo[g]; ok {
			return v
		}
		memo[g] = 0
		level++
		res := countOnPaths(g, ev)
		level--
		v := 0
		switch {
		case res.Max <= 0:
			v = 0
		case res.Min == res.Max && !res.InLoop:
			v = res.Max
		default:
			v = varying
		}
		memo[g] = v
		return v
	}
	return ev
}

// ---------------------------------------------------------------- lock re-entry

// lockClass names the mutex a lock operation addresses by the struct type that holds it and the field, so that the
// same mutex can be recognised across functions (the access path differs between caller and callee).
func lockClass(c *Ctx, call *ssa.CallCommon) string {
	if len(call.Args) == 0 {
		return ""
	}
	a := call.Args[0]
	if fa, ok := a.(*ssa.FieldAddr); ok {
		return typeName(deref(fa.X.Type())) + "." + fieldName(deref(fa.X.Type()), fa.Field)
	}
	return c.Expr(a)
}

type lockAcq struct {
	Class, Mode string
	At          ssa.Instruction
	Via         string
}

// mayAcquire: mutex classes fn acquires itself or through statically resolved same-module callees (not `go`), to depth.
func (c *Ctx) mayAcquire(fn *ssa.Function, depth int, seen map[*ssa.Function]bool) []lockAcq {
	if fn == nil || fn.Blocks == nil || seen[fn] {
		return nil
	}
	seen[fn] = true
	var out []lockAcq
	eachInstr(fn, func(i ssa.Instruction) {
		call, ok := i.(*ssa.Call)
		if !ok {
			return
		}
		if op, ok := lockOps[calleeName(&call.Call)]; ok {
			if op[0] == '+' {
				out = append(out, lockAcq{Class: lockClass(c, &call.Call), Mode: op[1:], At: i, Via: funcName(fn)})
			}
			return
		}
		if depth > 0 {
			if g := staticCallee(&call.Call); g != nil && g.Pkg != nil && c.inModule(g) {
				for _, a := range c.mayAcquire(g, depth-1, seen) {
					a.Via = funcName(fn) + " → " + a.Via
					out = append(out, a)
				}
			}
		}
	})
	return out
}

// exprKnown renders v as seen in block blk: a literal nil of an interface/pointer type under a dominating test
// `X == nil` of a single value X of the same type is X itself (`return n, nil` after `if err != nil { return n, err }`).
func (c *Ctx) exprKnown(v ssa.Value, blk *ssa.BasicBlock) string {
	e := c.Expr(v)
	if e != "nil" || blk == nil {
		return e
	}
	var found []string
	for _, g := range guardsOf(blk) {
		bo, ok := g.Cond.(*ssa.BinOp)
		if !ok || !(bo.Op == token.EQL && g.Pol || bo.Op == token.NEQ && !g.Pol) {
			continue
		}
		for _, pair := range [][2]ssa.Value{{bo.X, bo.Y}, {bo.Y, bo.X}} {
			if k, isC := pair[1].(*ssa.Const); isC && k.IsNil() && types.Identical(pair[0].Type(), v.Type()) {
				found = append(found, c.Expr(pair[0]))
			}
		}
	}
	found = uniq(found)
	if len(found) == 1 {
		return found[0]
	}
	return e
}

// allocOfStruct: al allocates a value of the named struct type (not a pointer variable that merely points to one).
func allocOfStruct(al *ssa.Alloc, nameSuffix string) bool {
	pt, ok := al.Type().Underlying().(*types.Pointer)
	if !ok {
		return false
	}
	if _, isPtr := pt.Elem().Underlying().(*types.Pointer); isPtr {
		return false
	}
	return strings.HasSuffix(typeName(al.Type()), nameSuffix)
}

// valueCase: one of the values a variable can have at a use, with the conditions under which it has it.
type valueCase struct {
	V      ssa.Value
	E      string
	Guards []string
	// Conds: for a case that is one edge of the outermost phi, the full conditions of that edge (common literals and
	// an OR{…} over the alternatives), nil otherwise
	Conds []string
}

// valueCases resolves v as used in block blk into its alternatives: a phi contributes one case per incoming edge (with
// the conditions of that edge), anything else is a single case under blk's guards. "One store of a chosen value" and
// "one store per branch" read alike through it.
func (c *Ctx) valueCases(v ssa.Value, blk *ssa.BasicBlock) []valueCase {
	var out []valueCase
	var curConds []string
	var walk func(v ssa.Value, gs []string, depth int)
	walk = func(v ssa.Value, gs []string, depth int) {
		for {
			switch x := v.(type) {
			case *ssa.ChangeType:
				v = x.X
				continue
			case *ssa.MakeInterface:
				v = x.X
				continue
			}
			break
		}
		if phi, ok := v.(*ssa.Phi); ok && depth < 4 {
			// edges that the branch between the phi and the use rules out are not cases
			d := phi.Block()
			oc, isFlag := flagOutcomes(d)
			side := -1
			if isFlag && blk != nil {
				if edgeDominates(d, 0, blk) {
					side = 1
				} else if edgeDominates(d, 1, blk) {
					side = 0
				}
			}
			for k, e := range phi.Edges {
				if k < len(d.Preds) {
					if !edgeLive(d.Preds[k], d) {
						continue
					}
					if side >= 0 && oc[k] >= 0 && oc[k] != side {
						continue
					}
					if depth == 0 {
						curConds = c.edgeConds(d.Preds[k], d)
					}
					walk(e, uniq(append(append([]string{}, gs...), edgeGuards(c, d.Preds[k], d)...)), depth+1)
					if depth == 0 {
						curConds = nil
					}
				}
			}
			return
		}
		vc := valueCase{V: v, E: c.Expr(v), Guards: gs}
		if depth == 1 {
			vc.Conds = curConds
		}
		out = append(out, vc)
	}
	walk(v, c.guardStrs(blk), 0)
	return out
}

// allocNeverWritten: no store targets the cell or any part of it and its address does not escape to a call.
func allocNeverWritten(a *ssa.Alloc) bool {
	refs := a.Referrers()
	if refs == nil {
		return false
	}
	var ok func(v ssa.Value, depth int) bool
	ok = func(v ssa.Value, depth int) bool {
		rs := v.Referrers()
		if rs == nil || depth > 3 {
			return false
		}
		for _, r := range *rs {
			switch u := r.(type) {
			case *ssa.Store:
				if u.Addr == v {
					return false
				}
				if u.Val == v {
					return false // address stored somewhere
				}
			case *ssa.UnOp:
				if u.Op != token.MUL {
					return false
				}
			case *ssa.FieldAddr:
				if !ok(u, depth+1) {
					return false
				}
			case *ssa.IndexAddr:
				if !ok(u, depth+1) {
					return false
				}
			case *ssa.DebugRef:
			default:
				return false
			}
		}
		return true
	}
	return ok(a, 0)
}

// writtenByClosures: some function literal that captures the cell assigns to it (so the parent's single store is not
// the only value the cell can hold).
func writtenByClosures(a *ssa.Alloc) bool {
	refs := a.Referrers()
	if refs == nil {
		return false
	}
	for _, r := range *refs {
		mc, ok := r.(*ssa.MakeClosure)
		if !ok {
			continue
		}
		fn, _ := mc.Fn.(*ssa.Function)
		if fn == nil {
			continue
		}
		for i, b := range mc.Bindings {
			if b != ssa.Value(a) || i >= len(fn.FreeVars) {
				continue
			}
			fv := fn.FreeVars[i]
			if fr := fv.Referrers(); fr != nil {
				for _, u := range *fr {
					if st, ok := u.(*ssa.Store); ok && st.Addr == ssa.Value(fv) {
						return true
					}
				}
			}
		}
	}
	return false
}


// Integer conversions. A conversion that cannot change the value (to a wider type of the same signedness, or from an
// unsigned type to a strictly wider signed one) is transparent. A narrowing conversion to an unsigned type is the mask
// it applies, `(255 & x)` for byte(x), so that byte(v) and v&0xff read alike; any other value-changing conversion is
// rendered as conv[T](x). Masks are simplified: a mask that cannot clear a bit of its operand (the operand is an
// unsigned value shifted right far enough, or is already masked) disappears, nested masks combine.

func intInfo(t types.Type) (bits int, unsigned, ok bool) {
	b, isB := t.Underlying().(*types.Basic)
	if !isB || b.Info()&types.IsInteger == 0 {
		return 0, false, false
	}
	switch b.Kind() {
	case types.Int8:
		return 8, false, true
	case types.Int16:
		return 16, false, true
	case types.Int32:
		return 32, false, true
	case types.Int64:
		return 64, false, true
	case types.Int:
		return wordBits, false, true
	case types.Uint8:
		return 8, true, true
	case types.Uint16:
		return 16, true, true
	case types.Uint32:
		return 32, true, true
	case types.Uint64:
		return 64, true, true
	case types.Uint, types.Uintptr:
		return wordBits, true, true
	}
	return 0, false, false
}

// wordBits is the size of int/uint in the configuration being analysed (set by the loader).
var wordBits = 64

// sigBits: an upper bound on the number of significant bits of the non-negative value v (64 when nothing is known, and
// for anything that may be negative).
func sigBits(v ssa.Value, depth int) int {
	if depth > 6 {
		return 64
	}
	switch x := v.(type) {
	case *ssa.Const:
		if k, ok := constInt(x); ok && k >= 0 {
			n := 0
			for k > 0 {
				n++
				k >>= 1
			}
			return n
		}
		return 64
	case *ssa.Convert:
		db, du, ok := intInfo(x.Type())
		sb, su, ok2 := intInfo(x.X.Type())
		if !ok || !ok2 {
			return 64
		}
		in := 64
		if su {
			in = sigBits(x.X, depth+1)
			if in > sb {
				in = sb
			}
		}
		if du {
			if in < db {
				return in
			}
			return db
		}
		// signed target: non-negative only when the source is unsigned and fits
		if su && in < db {
			return in
		}
		return 64
	case *ssa.BinOp:
		switch x.Op {
		case token.SHR:
			if k, ok := constInt(x.Y); ok && k >= 0 {
				n := sigBits(x.X, depth+1)
				if n == 64 {
					if b, u, ok := intInfo(x.X.Type()); ok && u {
						n = b
					} else {
						return 64
					}
				}
				if int(k) >= n {
					return 0
				}
				return n - int(k)
			}
		case token.AND:
			a, b := sigBits(x.X, depth+1), sigBits(x.Y, depth+1)
			if _, isC := x.X.(*ssa.Const); !isC && a == 64 {
				if w, u, ok := intInfo(x.X.Type()); ok && u {
					a = w
				}
			}
			if _, isC := x.Y.(*ssa.Const); !isC && b == 64 {
				if w, u, ok := intInfo(x.Y.Type()); ok && u {
					b = w
				}
			}
			if a < b {
				return a
			}
			return b
		}
	}
	if cl, ok := v.(*ssa.Call); ok {
		if bi, ok := cl.Call.Value.(*ssa.Builtin); ok && (bi.Name() == "len" || bi.Name() == "cap") {
			return wordBits - 1
		}
	}
	if b, u, ok := intInfo(v.Type()); ok && u {
		return b
	}
	return 64
}

// maskOf: v is `x & (2^n - 1)` or a narrowing conversion of x to an n-bit unsigned type: returns x and n.
func maskOf(v ssa.Value) (ssa.Value, int, bool) {
	switch x := v.(type) {
	case *ssa.BinOp:
		if x.Op != token.AND {
			return nil, 0, false
		}
		for _, p := range [][2]ssa.Value{{x.X, x.Y}, {x.Y, x.X}} {
			if k, ok := constInt(p[0]); ok && k > 0 && k&(k+1) == 0 {
				if _, isC := p[0].(*ssa.Const); isC {
					n := 0
					for k > 0 {
						n++
						k >>= 1
					}
					return p[1], n, true
				}
			}
		}
	case *ssa.Convert:
		db, du, ok := intInfo(x.Type())
		sb, _, ok2 := intInfo(x.X.Type())
		if ok && ok2 && du && db < sb {
			return x.X, db, true
		}
	}
	return nil, 0, false
}

func (e *exprCtx) masked(inner ssa.Value, n int) string {
	// combine nested masks, look through value-preserving conversions
	for depth := 0; depth < 6; depth++ {
		if y, m, ok := maskOf(inner); ok {
			if m < n {
				n = m
			}
			inner = y
			continue
		}
		if cv, ok := inner.(*ssa.Convert); ok && convPreserves(cv) {
			inner = cv.X
			continue
		}
		break
	}
	if sigBits(inner, 0) <= n {
		return e.expr(inner)
	}
	if n >= 64 {
		return e.expr(inner)
	}
	return andStr(fmt.Sprint((uint64(1)<<uint(n))-1), e.expr(inner))
}

// andStr orders the operands of & the way every commutative operator is rendered.
func andStr(a, b string) string {
	if sortKey(b) < sortKey(a) {
		a, b = b, a
	}
	return "(" + a + " & " + b + ")"
}

func (e *exprCtx) maskAnd(x *ssa.BinOp) (string, bool) {
	inner, n, ok := maskOf(x)
	if !ok {
		return "", false
	}
	return e.masked(inner, n), true
}

func convPreserves(x *ssa.Convert) bool {
	db, du, ok := intInfo(x.Type())
	sb, su, ok2 := intInfo(x.X.Type())
	if !ok || !ok2 {
		return true // not an integer-to-integer conversion: rendered transparently as before
	}
	if du == su {
		return db >= sb
	}
	if su && !du {
		return db > sb || sigBits(x.X, 0) < db
	}
	// signed to unsigned: preserves only values known non-negative
	return sigBits(x.X, 0) < 64 && sigBits(x.X, 0) <= db
}

func (e *exprCtx) convert(x *ssa.Convert) string {
	if convPreserves(x) {
		return e.expr(x.X)
	}
	if _, n, ok := maskOf(x); ok {
		return e.masked(x.X, n)
	}
	db, du, _ := intInfo(x.Type())
	if du && db < 64 {
		// sign change (and possibly narrowing) into an unsigned type: the low bits of the two's complement value
		return andStr(fmt.Sprint((uint64(1)<<uint(db))-1), e.expr(x.X))
	}
	return "conv[" + typeName(x.Type()) + "](" + e.expr(x.X) + ")"
}


// localField renders a load of a (possibly nested) field of a local struct variable as the value that was put there:
// through the composite literal's store to that field, and through whole copies of the struct into other locals
// (`x := T{f: v}; y := x; … y.f.g` reads `v.g`). ok is false when the field's value is not uniquely determined.
func (e *exprCtx) localField(fa *ssa.FieldAddr) (string, bool) {
	type step struct {
		t   types.Type
		idx int
	}
	var path []step
	cur := fa
	var base *ssa.Alloc
	for depth := 0; depth < 6; depth++ {
		path = append([]step{{cur.X.Type(), cur.Field}}, path...)
		if a, ok := cur.X.(*ssa.Alloc); ok {
			base = a
			break
		}
		nxt, ok := cur.X.(*ssa.FieldAddr)
		if !ok {
			return "", false
		}
		cur = nxt
	}
	if base == nil || (len(path) == 1 && uniqueStore(base) == nil) {
		return "", false // the one-level case keeps its own rendering
	}
	v := resolveAllocField(base, path[0].idx, 0)
	if v == nil {
		return "", false
	}
	e.seen[fa] = true
	s := e.expr(v)
	delete(e.seen, fa)
	for _, st := range path[1:] {
		s = dotField(s, st.t, st.idx)
	}
	return s, true
}

func hasFieldStores(a *ssa.Alloc) bool {
	for _, r := range *a.Referrers() {
		if fa, ok := r.(*ssa.FieldAddr); ok {
			for _, rr := range *fa.Referrers() {
				if st, ok := rr.(*ssa.Store); ok && st.Addr == ssa.Value(fa) {
					return true
				}
			}
		}
	}
	return false
}

// resolveAllocField: the one value field f of the local struct a holds.
func resolveAllocField(a *ssa.Alloc, f int, depth int) ssa.Value {
	if depth > 3 {
		return nil
	}
	st := uniqueStore(a)
	if st == nil {
		return uniqueFieldStore(a, f)
	}
	if hasFieldStores(a) {
		return nil
	}
	ld, ok := st.Val.(*ssa.UnOp)
	if !ok || ld.Op != token.MUL {
		return nil
	}
	a1, ok := ld.X.(*ssa.Alloc)
	if !ok || a1.Parent() != a.Parent() {
		return nil
	}
	v := resolveAllocField(a1, f, depth+1)
	if v == nil {
		return nil
	}
	// the field must have been set before the copy was taken
	for _, r := range *a1.Referrers() {
		if fa, ok := r.(*ssa.FieldAddr); ok && fa.Field == f {
			for _, rr := range *fa.Referrers() {
				if s2, ok := rr.(*ssa.Store); ok && s2.Addr == ssa.Value(fa) && !instrDominates(s2, ld) {
					return nil
				}
			}
		}
	}
	return v
}


// flagPhi renders a boolean phi whose edges are constants, plain boolean values or phis of the same kind — the shape
// of `f := false; if a && b { f = true }` and of `a && b` evaluated as a value — as the disjunction of the conditions
// under which it is true: any{(c1 & c2) | (c3)}. Conditions that hold for every way of reaching the phi's block are
// left out (they do not distinguish the edges). Loop-carried flags (an edge is the phi itself, or the block is entered
// from a block it dominates) keep the plain phi rendering: their value summarises earlier iterations.
func (e *exprCtx) flagPhi(x *ssa.Phi) (string, bool) {
	alts, ok := e.flagAlts(x, 0)
	if !ok {
		return "", false
	}
	if os.Getenv("FPCHECK_DEBUG_FLAG") != "" && strings.Contains(x.Parent().String(), os.Getenv("FPCHECK_DEBUG_FLAG")) {
		for _, a := range alts {
			println("FLAG", x.Name(), "raw:", strings.Join(a, " & "))
		}
	}
	alts = absorbAlts(alts)
	if os.Getenv("FPCHECK_DEBUG_FLAG") != "" && strings.Contains(x.Parent().String(), os.Getenv("FPCHECK_DEBUG_FLAG")) {
		for _, a := range alts {
			println("FLAG", x.Name(), "abs:", strings.Join(a, " & "))
		}
	}
	if len(alts) == 0 {
		return "false", true
	}
	var out []string
	for _, a := range alts {
		if len(a) == 0 {
			return "true", true
		}
		sort.Strings(a)
		out = append(out, "("+strings.Join(uniq(a), " & ")+")")
	}
	sort.Strings(out)
	return "any{" + strings.Join(uniq(out), " | ") + "}", true
}

// flagBusy: phis whose flag rendering is being computed (the conditions it is made of are rendered by fresh contexts,
// which must not come back to the same phi).
var flagBusy = map[*ssa.Phi]bool{}

func (e *exprCtx) flagAlts(x *ssa.Phi, depth int) ([][]string, bool) {
	if depth > 2 || e.seen[x] || flagBusy[x] {
		return nil, false
	}
	flagBusy[x] = true
	defer delete(flagBusy, x)
	if b, isB := x.Type().Underlying().(*types.Basic); !isB || b.Kind() != types.Bool {
		return nil, false
	}
	blk := x.Block()
	anyConst := false
	for k, ed := range x.Edges {
		if ed == ssa.Value(x) || k >= len(blk.Preds) {
			return nil, false
		}
		if blk.Dominates(blk.Preds[k]) {
			return nil, false // loop header
		}
		if _, isC := ed.(*ssa.Const); isC {
			anyConst = true
		}
	}
	_ = anyConst // a bool chosen between two non-constant values is stated the same way: (conditions of the edge & the value)
	common := map[string]bool{}
	for _, g := range e.c.guardStrs(blk) {
		common[g] = true
	}
	e.seen[x] = true
	defer delete(e.seen, x)
	var out [][]string
	for k, ed := range x.Edges {
		if !edgeLive(blk.Preds[k], blk) {
			continue
		}
		var vals [][]string // alternatives under which this edge's value is true
		switch v := ed.(type) {
		case *ssa.Const:
			if v.Value == nil || v.Value.Kind() != constant.Bool {
				return nil, false
			}
			if !constant.BoolVal(v.Value) {
				continue
			}
			vals = [][]string{{}}
		case *ssa.Phi:
			if sub, ok := e.flagAlts(v, depth+1); ok {
				vals = sub
			} else {
				vals = [][]string{{canonGuard(true, e.expr(v))}}
			}
		default:
			vals = [][]string{{canonGuard(true, e.expr(ed))}}
		}
		edgeAlts := e.c.pathEdgeAlts(blk.Preds[k], blk)
		if len(edgeAlts) == 0 {
			continue
		}
		for _, ea := range edgeAlts {
			var lits []string
			for _, l := range ea {
				if !common[l] {
					lits = append(lits, l)
				}
			}
			for _, va := range vals {
				alt := uniq(append(append([]string{}, lits...), va...))
				// the value's own alternatives repeat the way to this block: combinations that assert a condition
				// both ways are not paths
				contra := false
				set := map[string]bool{}
				for _, l := range alt {
					set[l] = true
				}
				for _, l := range alt {
					if len(l) > 1 && ((l[0] == '+' && set["-"+l[1:]]) || (l[0] == '-' && set["+"+l[1:]])) {
						contra = true
					}
				}
				if contra {
					continue
				}
				out = append(out, alt)
				if len(out) > 12 {
					return nil, false
				}
			}
		}
	}
	return out, true
}


// absorbAlts simplifies a disjunction of conjunctions: a literal ¬l is dropped from an alternative B when another
// alternative A contains l and the rest of A is contained in the rest of B (A ∨ (¬l ∧ R) = A ∨ R when A\{l} ⊆ R), so
// `a || b` evaluated left to right, (a) | (¬a & b), reads (a) | (b) like `b || a`; duplicates and supersets go.
func absorbAlts(alts [][]string) [][]string {
	has := func(a []string, l string) bool {
		for _, x := range a {
			if x == l {
				return true
			}
		}
		return false
	}
	for changed, rounds := true, 0; changed && rounds < 8; rounds++ {
		changed = false
		for i := range alts {
			for j := range alts {
				if i == j {
					continue
				}
				for _, l := range alts[i] {
					nl := negGuard(l)
					if nl == "" || !has(alts[j], nl) {
						continue
					}
					ok := true
					for _, x := range alts[i] {
						if x != l && (x == nl || !has(alts[j], x)) {
							ok = false
							break
						}
					}
					if ok {
						var nb []string
						for _, x := range alts[j] {
							if x != nl {
								nb = append(nb, x)
							}
						}
						alts[j] = nb
						changed = true
					}
				}
			}
		}
		// drop supersets and duplicates
		var keep [][]string
		for i, a := range alts {
			sub := false
			for j, b := range alts {
				if i == j {
					continue
				}
				all := true
				for _, x := range b {
					if !has(a, x) {
						all = false
						break
					}
				}
				if all && (len(b) < len(a) || j < i) {
					sub = true
					break
				}
			}
			if !sub {
				keep = append(keep, a)
			} else {
				changed = true
			}
		}
		alts = keep
	}
	return alts
}


// selPhi renders a phi that is not loop-carried with the condition that selects each edge:
//   sel{+(a < b)→x | +(b <= a)→y}
// (the literals that hold on every path through that edge and not on every path into the block). The idioms
// `m := a; if b < m { m = b }` and its mirror are min(a, b) / max(a, b), nested ones flatten, and the min/max builtins
// render the same way. Without this a phi only lists its values: `if n < allowed` turned into `if n > allowed` would
// read the same.
var selCache = map[*ssa.Phi]string{}

func (e *exprCtx) selPhi(x *ssa.Phi) (string, bool) {
	if e.seen[x] || flagBusy[x] || len(x.Edges) != 2 {
		return "", false
	}
	if !isIntegerT(x.Type()) {
		return "", false
	}
	if r, ok := selCache[x]; ok {
		return r, r != ""
	}
	r, ok := e.selPhi1(x)
	if !ok {
		r = ""
	}
	selCache[x] = r
	return r, ok
}

func (e *exprCtx) selPhi1(x *ssa.Phi) (string, bool) {
	blk := x.Block()
	for k, ed := range x.Edges {
		if ed == ssa.Value(x) || k >= len(blk.Preds) || blk.Dominates(blk.Preds[k]) {
			return "", false
		}
	}
	flagBusy[x] = true
	defer delete(flagBusy, x)
	e.seen[x] = true
	defer delete(e.seen, x)
	common := map[string]bool{}
	for _, g := range e.c.guardStrs(blk) {
		common[g] = true
	}
	type arm struct {
		lits []string
		val  string
		v    ssa.Value
	}
	var arms []arm
	for k, ed := range x.Edges {
		if !edgeLive(blk.Preds[k], blk) {
			continue
		}
		var lits []string
		for _, g := range e.c.pathEdgeGuards(blk.Preds[k], blk) {
			if !common[g] {
				lits = append(lits, g)
			}
		}
		sort.Strings(lits)
		arms = append(arms, arm{uniq(lits), e.expr(ed), ed})
	}
	if len(arms) < 2 {
		return "", false
	}
	anyLit := false
	for _, a := range arms {
		if len(a.lits) > 0 {
			anyLit = true
		}
	}
	if !anyLit {
		return "", false
	}
	// min / max
	if len(arms) == 2 && len(arms[0].lits) == 1 && len(arms[1].lits) == 1 {
		a, b := arms[0], arms[1]
		for i := 0; i < 2; i++ {
			// arm a is taken under `a.val < b.val` or `a.val <= b.val` and arm b under the complement: min; mirrored: max
			if l, op, r, ok := splitCmp(strings.TrimPrefix(a.lits[0], "+")); ok && strings.HasPrefix(a.lits[0], "+") && negGuard(a.lits[0]) == b.lits[0] {
				if (op == "<" || op == "<=") && l == a.val && r == b.val {
					return minMaxStr("min", a.val, b.val), true
				}
				if (op == "<" || op == "<=") && l == b.val && r == a.val {
					return minMaxStr("max", a.val, b.val), true
				}
			}
			a, b = b, a
		}
	}
	// a value chosen by one test (`v := a; if c { v = b }` or the if/else form): sel{c: b | a}, with the test in its
	// canonical spelling so that the inverted form reads the same
	if len(arms) == 2 && len(arms[0].lits) == 1 && len(arms[1].lits) == 1 && negGuard(arms[0].lits[0]) == arms[1].lits[0] && len(arms[0].lits[0]) < 400 {
		a, b := arms[0], arms[1]
		if b.lits[0] < a.lits[0] {
			a, b = b, a
		}
		if !strings.Contains(a.lits[0], "phi@") {
			return "sel{" + a.lits[0] + ": " + a.val + " | " + b.val + "}", true
		}
	}
	// (a general rendering of every phi with its selecting conditions was tried and dropped: conditions mention phis
	// that mention conditions, and the strings explode; what remains path-insensitive is said in DESIGN.md)
	return "", false
}

// minMaxStr flattens nested min/max of the same kind and orders the operands.
func minMaxStr(kind string, vals ...string) string {
	var flat []string
	for _, v := range vals {
		if strings.HasPrefix(v, kind+"(") && strings.HasSuffix(v, ")") {
			flat = append(flat, splitTop(v[len(kind)+1:len(v)-1])...)
		} else {
			flat = append(flat, v)
		}
	}
	sort.Strings(flat)
	return kind + "(" + strings.Join(uniq(flat), ", ") + ")"
}

// splitTop splits "a, b, c" at top-level commas.
func splitTop(s string) []string {
	var out []string
	depth, from := 0, 0
	for i := 0; i < len(s); i++ {
		switch s[i] {
		case '(', '[', '{':
			depth++
		case ')', ']', '}':
			depth--
		case ',':
			if depth == 0 {
				out = append(out, strings.TrimSpace(s[from:i]))
				from = i + 1
			}
		}
	}
	return append(out, strings.TrimSpace(s[from:]))
}


var sentinelCache = map[*ssa.Global]bool{}

// sentinelNonNil: the only store to the package-level variable g anywhere in its package is in the package
// initialiser and stores a value that cannot be nil.
func sentinelNonNil(g *ssa.Global) bool {
	if r, ok := sentinelCache[g]; ok {
		return r
	}
	sentinelCache[g] = false
	if g.Pkg == nil {
		return false
	}
	n, ok := 0, true
	for _, m := range g.Pkg.Members {
		fn, isFn := m.(*ssa.Function)
		if !isFn {
			continue
		}
		for _, f := range withAnon(fn) {
			for _, b := range f.Blocks {
				for _, i := range b.Instrs {
					switch st := i.(type) {
					case *ssa.Store:
						if st.Addr == ssa.Value(g) {
							n++
							if f.Name() != "init" || !knownNonNil(st.Val, 1) {
								ok = false
							}
						}
					default:
						// the address of g taken for anything but a load
						for _, op := range i.Operands(nil) {
							if op != nil && *op == ssa.Value(g) {
								if u, isU := i.(*ssa.UnOp); !(isU && u.Op == token.MUL) {
									ok = false
								}
							}
						}
					}
				}
			}
		}
	}
	// methods of the package's types may also touch it
	if ok {
		for _, m := range g.Pkg.Members {
			if tn, isT := m.(*ssa.Type); isT {
				for _, t := range []types.Type{tn.Type(), types.NewPointer(tn.Type())} {
					ms := g.Pkg.Prog.MethodSets.MethodSet(t)
					for k := 0; k < ms.Len(); k++ {
						if f := g.Pkg.Prog.MethodValue(ms.At(k)); f != nil {
							for _, ff := range withAnon(f) {
								for _, b := range ff.Blocks {
									for _, i := range b.Instrs {
										for _, op := range i.Operands(nil) {
											if op != nil && *op == ssa.Value(g) {
												if u, isU := i.(*ssa.UnOp); !(isU && u.Op == token.MUL) {
													ok = false
												}
											}
										}
									}
								}
							}
						}
					}
				}
			}
		}
	}
	sentinelCache[g] = ok && n == 1
	return sentinelCache[g]
}


var initConstCache = map[*ssa.Global]*ssa.Const{}
var initConstDone = map[*ssa.Global]bool{}

// initOnlyConst: g is unexported, its address is used for nothing but loads and one store, that store is in the package
// initialiser and stores a constant: the constant.
func initOnlyConst(g *ssa.Global) *ssa.Const {
	if initConstDone[g] {
		return initConstCache[g]
	}
	initConstDone[g] = true
	if g.Pkg == nil || ast.IsExported(g.Name()) {
		return nil
	}
	if !strings.HasPrefix(g.Pkg.Pkg.Path(), modPath) {
		return nil
	}
	var val *ssa.Const
	n, ok := 0, true
	scan := func(f *ssa.Function) {
		for _, ff := range withAnon(f) {
			for _, b := range ff.Blocks {
				for _, i := range b.Instrs {
					if st, isSt := i.(*ssa.Store); isSt && st.Addr == ssa.Value(g) {
						n++
						k, isC := st.Val.(*ssa.Const)
						if !isC || ff.Name() != "init" || ff.Parent() != nil {
							ok = false
						}
						val = k
						continue
					}
					for _, op := range i.Operands(nil) {
						if op != nil && *op == ssa.Value(g) {
							if u, isU := i.(*ssa.UnOp); !(isU && u.Op == token.MUL) {
								ok = false
							}
						}
					}
				}
			}
		}
	}
	for _, m := range g.Pkg.Members {
		switch x := m.(type) {
		case *ssa.Function:
			scan(x)
		case *ssa.Type:
			for _, t := range []types.Type{x.Type(), types.NewPointer(x.Type())} {
				ms := g.Pkg.Prog.MethodSets.MethodSet(t)
				for k := 0; k < ms.Len(); k++ {
					if f := g.Pkg.Prog.MethodValue(ms.At(k)); f != nil {
						scan(f)
					}
				}
			}
		}
	}
	if ok && n == 1 && val != nil {
		initConstCache[g] = val
	}
	return initConstCache[g]
}
