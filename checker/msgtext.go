package main

import (
	"go/token"
	"strings"

	"golang.org/x/tools/go/ssa"
)

// Message texts. `fmt.Sprintf("got %s for stream %d", t, id)` and `"got " + t.String() + " for stream " +
// strconv.FormatUint(uint64(id), 10)` are the same text; which of the two a function uses to build an error detail or a
// log line is not behaviour. Both are rendered as one template: the literal pieces with numbered holes, followed by
// the values that fill them — text"got ⟨⟩ for stream ⟨⟩"[t, id]. A hole filled through a verb other than %s, %d, %v
// keeps the verb (⟨%02d⟩, ⟨%x⟩, ⟨%q⟩, ⟨%w⟩), so those are not confused with plain holes. In a concatenation an operand
// that is `x.String()`, `strconv.Itoa(x)`, `strconv.FormatInt(int64(x), 10)` or `strconv.FormatUint(uint64(x), 10)` fills
// the hole with x, as %s / %d would.

// msgSprintf renders a Sprintf/Errorf call with a constant format; ok=false leaves the call to the generic rendering.
func (e *exprCtx) msgSprintf(cc *ssa.CallCommon, name string) (string, bool) {
	if len(cc.Args) < 1 {
		return "", false
	}
	format, ok := constString(cc.Args[0])
	if !ok {
		return "", false
	}
	var args []ssa.Value
	if len(cc.Args) > 1 {
		args = variadicElems(cc.Args[1])
		if args == nil {
			if k, isC := cc.Args[1].(*ssa.Const); !isC || !k.IsNil() {
				return "", false
			}
		}
	}
	var sk strings.Builder
	var vals []string
	ai := 0
	for i := 0; i < len(format); i++ {
		ch := format[i]
		if ch != '%' {
			sk.WriteByte(ch)
			continue
		}
		j := i + 1
		if j < len(format) && format[j] == '%' {
			sk.WriteByte('%')
			i = j
			continue
		}
		for j < len(format) && strings.IndexByte("+-# 0123456789.", format[j]) >= 0 {
			j++
		}
		if j >= len(format) || format[j] == '*' || format[j] == '[' {
			return "", false
		}
		verb := format[i : j+1]
		if ai >= len(args) {
			return "", false
		}
		switch verb {
		case "%s", "%d", "%v":
			sk.WriteString("⟨⟩")
		default:
			sk.WriteString("⟨" + verb + "⟩")
		}
		vals = append(vals, e.expr(unwrapIface(args[ai])))
		ai++
		i = j
	}
	if ai != len(args) {
		return "", false
	}
	tag := "text"
	if name == "fmt.Errorf" {
		tag = "errtext"
	}
	return tag + quoteSkeleton(sk.String()) + "[" + strings.Join(vals, ", ") + "]", true
}

func quoteSkeleton(s string) string {
	return "\"" + strings.ReplaceAll(strings.ReplaceAll(s, "\\", "\\\\"), "\"", "\\\"") + "\""
}

// msgConcat renders a string concatenation that contains at least one literal piece.
func (e *exprCtx) msgConcat(x *ssa.BinOp) (string, bool) {
	if x.Op != token.ADD || !isStringT(x.Type()) {
		return "", false
	}
	var ops []ssa.Value
	var flat func(v ssa.Value, depth int)
	flat = func(v ssa.Value, depth int) {
		if b, ok := v.(*ssa.BinOp); ok && b.Op == token.ADD && isStringT(b.Type()) && depth < 12 {
			flat(b.X, depth+1)
			flat(b.Y, depth+1)
			return
		}
		ops = append(ops, v)
	}
	flat(x, 0)
	lit := false
	var sk strings.Builder
	var vals []string
	for _, o := range ops {
		if s, ok := constString(o); ok {
			lit = true
			sk.WriteString(s)
			continue
		}
		sk.WriteString("⟨⟩")
		vals = append(vals, e.expr(holeValue(o)))
	}
	if !lit {
		return "", false
	}
	return "text" + quoteSkeleton(sk.String()) + "[" + strings.Join(vals, ", ") + "]", true
}

// holeValue: what a concatenation operand prints — the value itself for the decimal and String() spellings.
func holeValue(v ssa.Value) ssa.Value {
	call, ok := v.(*ssa.Call)
	if !ok {
		return v
	}
	n := calleeName(&call.Call)
	args := call.Call.Args
	stripConv := func(a ssa.Value) ssa.Value {
		for {
			if cv, ok := a.(*ssa.Convert); ok && convPreserves(cv) {
				a = cv.X
				continue
			}
			return a
		}
	}
	switch {
	case n == "strconv.Itoa" && len(args) == 1:
		return stripConv(args[0])
	case (n == "strconv.FormatInt" || n == "strconv.FormatUint") && len(args) == 2:
		if k, isC := constInt(args[1]); isC && k == 10 {
			return stripConv(args[0])
		}
	case strings.HasSuffix(n, ").String") && len(args) == 1 && !call.Call.IsInvoke():
		return args[0]
	case call.Call.IsInvoke() && call.Call.Method != nil && call.Call.Method.Name() == "String" && len(args) == 0:
		return call.Call.Value
	}
	return v
}
