package main

import (
	"strings"

	"golang.org/x/tools/go/ssa"
)

func init() {
	register("C04", false,
		ruleDef{"C04.R1", c04r1},
		ruleDef{"C04.R2", c04r2},
		ruleDef{"C04.R3", c04r3},
		ruleDef{"C04.R4", c04r4},
		ruleDef{"C04.R5", c04r5},
	)
}

const (
	nInnerRead   = "(net.Conn).Read(p0.tlsConn, p1)"
	nHasComplete = "(*hack.HijackClientHelloConn).hasCompleteClientHello(p0)"
	nTryParse    = "(*hack.HijackClientHelloConn).tryParseClientHello(p0)"
	nBufBytes    = "(*bytes.Buffer).Bytes(p0.buf)"
	nBufLen      = "(*bytes.Buffer).Len(p0.buf)"
)

func hijackMethod(r *R, name string) *ssa.Function {
	f := r.C.Method("pkg/hack", "HijackClientHelloConn", name)
	r.need(f != nil, "hack.HijackClientHelloConn.%s not found", name)
	return f
}

func c04r1(r *R) {
	c := r.C
	rd := hijackMethod(r, "Read")
	o := r.Ob("C04.R1", "read-transparent:"+funcName(rd)).At(rd.Pos())
	nret := 0
	eachInstr(rd, func(i ssa.Instruction) {
		switch x := i.(type) {
		case *ssa.Return:
			nret++
			o.AtI(i)
			o.Check(c.Expr(x.Results[0]) == nInnerRead+"#0" && c.exprKnown(x.Results[1], i.Block()) == nInnerRead+"#1", "Read returns (%s, %s), want exactly the wrapped connection's (n, err)", c.Expr(x.Results[0]), c.Expr(x.Results[1]))
		case *ssa.Store:
			if strings.HasPrefix(c.Expr(x.Addr), "p1") {
				o.AtI(i).Fail("Read writes into the caller's buffer itself: %s", c.Expr(x.Addr))
			}
		case *ssa.Call:
			n := calleeName(&x.Call)
			if n == "builtin.copy" && c.Expr(x.Call.Args[0]) == "p1" {
				o.AtI(i).Fail("Read copies into the caller's buffer")
			}
		}
	})
	o.Check(nret >= 1, "Read has no return")
	reads := callsIn(rd, "(net.Conn).Read")
	o.Check(len(reads) == 1 && !inLoop(reads[0].Block()), "Read calls the wrapped connection's Read %d times (want exactly once per call)", len(reads))
	if len(reads) == 1 {
		o.Check(c.Expr(reads[0].(ssa.Value)) == nInnerRead, "inner read is %s, want tlsConn.Read(b) with the caller's buffer", c.Expr(reads[0].(ssa.Value)))
		o.Check(len(guardsOf(reads[0].Block())) == 0, "the inner read is conditional")
	}
	// the other net.Conn methods are pure delegations, for both wrappers
	for _, w := range [][2]string{{"HijackClientHelloConn", "tlsConn"}, {"TLSClientHelloConn", "Conn"}} {
		for _, m := range []string{"Write", "LocalAddr", "RemoteAddr", "SetDeadline", "SetReadDeadline", "SetWriteDeadline", "Close", "Read"} {
			if w[0] == "HijackClientHelloConn" && m == "Read" {
				continue
			}
			fn := c.Method("pkg/hack", w[0], m)
			oo := r.Ob("C04.R1", "delegates:"+w[0]+"."+m)
			if fn != nil {
				oo.At(fn.Pos())
			}
			var extra func(ssa.Instruction) bool
			if w[0] == "TLSClientHelloConn" && m == "Close" {
				extra = func(i ssa.Instruction) bool {
					cc := callOf(i)
					return cc != nil && calleeName(cc) == "" && c.Expr(cc.Value) == "p0.Done"
				}
			}
			d := delegationDefect(c, fn, w[1], m, extra)
			oo.Check(d == "", "%s.%s is not a verbatim delegation to the wrapped connection: %s", w[0], m, d)
		}
	}
	// the wrapped conn field is set once, from the constructor's parameter
	ht := c.Named("pkg/hack", "HijackClientHelloConn")
	for _, a := range fieldAccesses(c.FuncsIn(), ht, "tlsConn") {
		if a.Kind == "write" {
			r.Ob("C04.R1", "inner-conn-writer:"+funcName(a.Fn)).AtI(a.Instr).Check(funcName(a.Fn) == "hack.NewHijackClientHelloConn" && c.Expr(a.Instr.(*ssa.Store).Val) == "p0", "the wrapped connection is replaced in %s", funcName(a.Fn))
		}
	}
}

func c04r2(r *R) {
	c := r.C
	rd := hijackMethod(r, "Read")
	hj := c.Method("pkg/hack", "HijackClientHelloConn", "hijackClientHello") // may have been merged into Read
	o := r.Ob("C04.R2", "tee-exactly-the-read-bytes:"+funcName(rd)).At(rd.Pos())
	// the tee as seen from Read: the call of the helper, or the buffer write itself when there is no helper
	teeName := "(*bytes.Buffer).Write"
	if hj != nil {
		teeName = "(*hack.HijackClientHelloConn).hijackClientHello"
	}
	isTee := func(i ssa.Instruction) bool {
		if !isCall(i, teeName) {
			return false
		}
		return hj != nil || c.Expr(callOf(i).Args[0]) == "p0.buf"
	}
	n := 0
	for _, fn := range c.FuncsIn() {
		eachInstr(fn, func(s ssa.Instruction) {
			if !isTee(s) {
				return
			}
			n++
			o.AtI(s)
			o.Check(fn == rd, "the capture buffer is also fed from %s", funcName(fn))
			e := c.ExprAt(callOf(s).Args[1], s.Block())
			o.Check(e == "p1[:"+nInnerRead+"#0]", "the bytes teed into the capture buffer are %s, want b[:n] of this read (not the whole buffer, not an offset)", e)
			gs := c.guardStrs(s.Block())
			o.Check(hasGuard(gs, "+("+nInnerRead+"#1 == nil)") || hasGuard(gs, "-("+nInnerRead+"#1 != nil)"), "bytes are captured although the read failed; guards %v", gs)
			for _, g := range gs {
				ok := strings.Contains(g, nInnerRead+"#1") || g == "-"+nHasComplete || strings.Contains(g, nInnerRead+"#0")
				o.Check(ok, "capture is additionally conditional on %s (only n/err of this read and completeness may decide)", g)
			}
		})
	}
	o.Check(n == 1, "expected exactly one site feeding the capture buffer, found %d", n)
	// must-call: on the err == nil && !complete edge the tee happens before return
	found := false
	for _, b := range rd.Blocks {
		gs := c.guardStrs(b)
		if hasGuard(gs, "-"+nHasComplete) && (hasGuard(gs, "+("+nInnerRead+"#1 == nil)") || hasGuard(gs, "-("+nInnerRead+"#1 != nil)")) {
			for _, i := range b.Instrs {
				if isTee(i) {
					found = true
				}
			}
		}
	}
	o.Check(found, "on the successful-read, hello-not-yet-complete edge the bytes are not teed")
	// the whole chunk is appended once, unconditionally (within the helper, or right at the tee), then the header is re-parsed
	where := rd
	want := "(*bytes.Buffer).Write(p0.buf, p1[:" + nInnerRead + "#0])"
	if hj != nil {
		where = hj
		want = "(*bytes.Buffer).Write(p0.buf, p1)"
	}
	o2 := r.Ob("C04.R2", "append-whole-chunk:"+funcName(where)).At(where.Pos())
	ws := callsIn(where, "(*bytes.Buffer).Write")
	if o2.Check(len(ws) == 1, "%s writes to the buffer %d times", where.Name(), len(ws)) {
		o2.AtI(ws[0])
		o2.Check(c.Expr(ws[0].(ssa.Value)) == want, "buffer write is %s, want buf.Write(b)", c.Expr(ws[0].(ssa.Value)))
		if hj != nil {
			o2.Check(len(guardsOf(ws[0].Block())) == 0, "buffer write is conditional")
		}
		o2.Check(!inLoop(ws[0].Block()), "buffer write is repeated")
		tp := callsIn(where, "(*hack.HijackClientHelloConn).tryParseClientHello")
		o2.Check(len(tp) == 1 && instrDominates(ws[0], tp[0]) && tp[0].Block() == ws[0].Block(), "the record header is not (re)parsed after appending")
	}
}

func c04r3(r *R) {
	c := r.C
	ht := c.Named("pkg/hack", "HijackClientHelloConn")
	r.need(ht != nil, "type not found")
	allowed := map[string]string{
		"addr:call:(*bytes.Buffer).Write":    "(*hack.HijackClientHelloConn).hijackClientHello",
		"addr:call:(*bytes.Buffer).Write/":   "(*hack.HijackClientHelloConn).Read", // when the helper has been merged into Read (C04.R2 checks the site)
		"addr:call:(*bytes.Buffer).Truncate": "(*hack.HijackClientHelloConn).hasCompleteClientHello",
		"addr:call:(*bytes.Buffer).Len":      "*",
		"addr:call:(*bytes.Buffer).Bytes":    "*",
	}
	n := 0
	for _, a := range fieldAccesses(c.FuncsIn(), ht, "buf") {
		n++
		o := r.Ob("C04.R3", "buf-access:"+funcName(a.Fn)+":"+a.Kind).AtI(a.Instr)
		who, ok := allowed[a.Kind]
		if !ok {
			o.Fail("the capture buffer is touched by %s in %s (only Write in hijackClientHello, Truncate in hasCompleteClientHello, Len and Bytes are expected)", a.Kind, funcName(a.Fn))
			continue
		}
		o.Check(who == "*" || who == funcName(a.Fn) || allowed[a.Kind+"/"] == funcName(a.Fn), "%s on the capture buffer from %s", a.Kind, funcName(a.Fn))
	}
	r.Ob("C04.R3", "instances").Check(n >= 6, "expected >= 6 accesses of the capture buffer, found %d", n)
	// Truncate: on the too-long edge, with expectedLen, before reporting complete
	hc := hijackMethod(r, "hasCompleteClientHello")
	o := r.Ob("C04.R3", "truncate-surplus:"+funcName(hc)).At(hc.Pos())
	tr := callsIn(hc, "(*bytes.Buffer).Truncate")
	if o.Check(len(tr) == 1, "hasCompleteClientHello truncates %d times: bytes of later records that arrived in the same read would stay in the reported ClientHello", len(tr)) {
		o.AtI(tr[0])
		o.Check(c.Expr(tr[0].(ssa.Value)) == "(*bytes.Buffer).Truncate(p0.buf, p0.expectedLen)", "truncation is %s, want buf.Truncate(expectedLen)", c.Expr(tr[0].(ssa.Value)))
		// every `return true` is reached only with len == expectedLen: either the len > expected edge passed Truncate, or neither < nor > holds
		eachInstr(hc, func(i ssa.Instruction) {
			ret, ok := i.(*ssa.Return)
			if !ok || c.Expr(ret.Results[0]) != "true" {
				return
			}
			gs := c.guardStrs(i.Block())
			o.AtI(i)
			o.Check(hasGuard(gs, "-("+nBufLen+" < p0.expectedLen)"), "complete is reported although fewer bytes than the record declares are buffered; guards %v", gs)
			o.Check(hasGuard(gs, "-(0 == p0.expectedLen)") && hasGuard(gs, "-("+nBufLen+" == 0)"), "complete is reported before a record header was parsed; guards %v", gs)
			// no path from the '>' test's true edge to this return bypasses Truncate
			var gtIf *ssa.If
			eachInstr(hc, func(j ssa.Instruction) {
				if iff, ok := j.(*ssa.If); ok && c.Expr(iff.Cond) == "(p0.expectedLen < "+nBufLen+")" {
					gtIf = iff
				}
			})
			if o.Check(gtIf != nil, "no test for surplus bytes (len > expectedLen) in hasCompleteClientHello") {
				p := c.escapeFromBlock(hc, gtIf.Block().Succs[0], func(j ssa.Instruction) bool { return j == tr[0] }, func(j ssa.Instruction) bool { return j == i })
				o.Check(p == nil, "with surplus bytes buffered, complete can be reported without truncating: %v", p)
			}
		})
	}
	// expectedLen is stored only by the header parser
	nw := 0
	for _, a := range fieldAccesses(c.FuncsIn(), ht, "expectedLen") {
		if a.Kind != "read" {
			nw++
			r.Ob("C04.R3", "expectedLen-writer:"+funcName(a.Fn)).AtI(a.Instr).Check(funcName(a.Fn) == "(*hack.HijackClientHelloConn).tryParseClientHello" && a.Kind == "write", "expectedLen is written (%s) in %s", a.Kind, funcName(a.Fn))
		}
	}
	r.Ob("C04.R3", "expectedLen-instances").Check(nw == 1, "expectedLen has %d writers, want 1", nw)
}

func c04r4(r *R) {
	c := r.C
	tp := hijackMethod(r, "tryParseClientHello")
	ht := c.Named("pkg/hack", "HijackClientHelloConn")
	o := r.Ob("C04.R4", "header-arithmetic:"+funcName(tp)).At(tp.Pos())
	hi, lo := nBufBytes+"[3]", nBufBytes+"[4]"
	for _, a := range fieldAccesses([]*ssa.Function{tp}, ht, "expectedLen") {
		if a.Kind != "write" {
			continue
		}
		st := a.Instr.(*ssa.Store)
		o.AtI(st)
		e := c.Expr(st.Val)
		want := "(((" + hi + " << 8) | " + lo + ") + 5)"
		o.Check(e == want, "expected record length is computed as %s, want 5 + (buf[3]<<8 | buf[4])", e)
		gs := c.guardStrs(st.Block())
		o.Check(hasGuard(gs, "-("+nBufLen+" < 5)"), "the length bytes are read before 5 header bytes are buffered; guards %v", gs)
		o.Check(hasGuard(gs, "-("+nBufBytes+"[0] != 22)"), "the record type (byte 0 == 0x16 handshake) is not checked before the length is trusted; guards %v", gs)
		ver := "((" + nBufBytes + "[1] << 8) | " + nBufBytes + "[2])"
		o.Check(hasGuard(gs, "-("+ver+" < 768)") && hasGuard(gs, "-(772 < "+ver+")"), "the record version (bytes 1-2 within SSL3.0..TLS1.3) is not checked; guards %v", gs)
	}
	// failing edges return a non-nil error
	eachInstr(tp, func(i ssa.Instruction) {
		ret, ok := i.(*ssa.Return)
		if !ok {
			return
		}
		gs := c.guardStrs(i.Block())
		e := c.Expr(ret.Results[0])
		if e == "nil" {
			o.AtI(i).Check(hasGuard(gs, "+"+nHasComplete), "tryParseClientHello reports success outside the complete edge; guards %v", gs)
		}
	})
	// buffer too short -> ErrIncomplete
	eachInstr(tp, func(i ssa.Instruction) {
		if ret, ok := i.(*ssa.Return); ok && hasGuard(c.guardStrs(i.Block()), "+("+nBufLen+" < 5)") {
			o.Check(c.Expr(ret.Results[0]) == "hack.ErrIncompleteClientHello", "short buffer returns %s", c.Expr(ret.Results[0]))
		}
	})
	// all byte indexes into the buffer in tryParse are constants 0..4
	eachInstr(tp, func(i ssa.Instruction) {
		if ia, ok := i.(*ssa.IndexAddr); ok && c.Expr(ia.X) == nBufBytes {
			k, isC := constInt(ia.Index)
			o.Check(isC && k >= 0 && k <= 4, "header parser indexes buffer byte %s", c.Expr(ia.Index))
		}
	})
}

func c04r5(r *R) {
	c := r.C
	gc := hijackMethod(r, "GetClientHello")
	o := r.Ob("C04.R5", "nothing-partial:"+funcName(gc)).At(gc.Pos())
	// every way of returning: the buffer's bytes only when the parse succeeded, a nil error only then too
	// (return alternatives: one store of a chosen value and one return per case read alike)
	n0 := 0
	for _, ra := range c.returnAlts(gc, 0) {
		o.AtI(ra.Ret)
		n0++
		switch ra.E {
		case "nil":
		case nBufBytes:
			o.Check(relHolds(ra.Lits, nTryParse, "==", "nil"), "GetClientHello returns %s under %v; want buf.Bytes() only when tryParseClientHello succeeded", ra.E, ra.Lits)
		default:
			o.Fail("GetClientHello returns %s, want the captured bytes or nil", ra.E)
		}
	}
	o.Check(n0 > 0, "GetClientHello has no return")
	for _, ra := range c.returnAlts(gc, 1) {
		o.AtI(ra.Ret)
		switch ra.E {
		case nTryParse:
		case "nil":
			o.Check(relHolds(ra.Lits, nTryParse, "==", "nil"), "GetClientHello returns a nil error under %v although tryParseClientHello failed", ra.Lits)
		default:
			o.Fail("GetClientHello returns the error %s, want tryParseClientHello's", ra.E)
		}
	}
	// serveConn: the record is used only on the err == nil edge; the error edge returns
	_, _, sc := serveLoop(r)
	o2 := r.Ob("C04.R5", "capture-error-drops-connection:"+funcName(sc)).At(sc.Pos())
	rec := "(*hack.HijackClientHelloConn).GetClientHello(hack.NewHijackClientHelloConn(p1))#0"
	errG := "((*hack.HijackClientHelloConn).GetClientHello(hack.NewHijackClientHelloConn(p1))#1 != nil)"
	uses := 0
	eachInstr(sc, func(i ssa.Instruction) {
		var ops []*ssa.Value
		ops = i.Operands(ops)
		for _, op := range ops {
			if *op == nil {
				continue
			}
			if _, isPhi := i.(*ssa.Phi); isPhi {
				continue // a join only forwards the value; its uses are looked at where they are
			}
			if ex, ok := (*op).(*ssa.Extract); ok && c.Expr(ex) == rec {
				uses++
				gs := c.guardStrs(i.Block())
				o2.AtI(i).Check(hasGuard(gs, "-"+errG), "the captured record is used although GetClientHello failed; guards %v", gs)
			} else if phi, ok := (*op).(*ssa.Phi); ok {
				// the record handed on through a join (`rec, ok := helper()` expanded in place): each case in which the
				// joined value is the record must lie on the err == nil side
				for _, vc := range c.valueCases(phi, i.Block()) {
					if vc.E != rec {
						continue
					}
					uses++
					gs := append(append([]string{}, vc.Guards...), c.guardStrs(i.Block())...)
					o2.AtI(i).Check(hasGuard(gs, "-"+errG), "the captured record is used although GetClientHello failed; conditions %v", gs)
				}
			}
		}
	})
	o2.Check(uses >= 2, "expected the record to flow into the h2 metadata and the h1 wrapper (%d uses found)", uses)
	// … and a captured record is used: once GetClientHello succeeded no path leaves serveConn without handing the
	// connection to the HTTP/2 server or to the HTTP/1.1 listener (a later "sanity check" that drops the connection would
	// turn a valid capture into "no ClientHello reported")
	isServe := func(i ssa.Instruction) bool { return isCall(i, nServeConn, "(*hack.ChannelListener).SendToChannel") }
	nOK := 0
	for _, b := range sc.Blocks {
		if !hasGuard(c.guardStrs(b), "-"+errG) || len(b.Preds) != 1 || hasGuard(c.guardStrs(b.Preds[0]), "-"+errG) {
			continue
		}
		nOK++
		if p := c.escapeFromBlock(sc, b, isServe, isReturn); p != nil {
			o2.Fail("after a successful capture the connection can be dropped without being served: %v", p)
		}
	}
	o2.Check(nOK >= 1, "the success edge of GetClientHello was not found (rule needs re-anchoring)")
	// error edge returns without serving
	for _, b := range sc.Blocks {
		if hasGuard(c.guardStrs(b), "+"+errG) {
			for _, i := range b.Instrs {
				if isCall(i, nServeConn, "(*hack.ChannelListener).SendToChannel") {
					o2.AtI(i).Fail("connection is served although the ClientHello capture failed")
				}
			}
		}
	}
	// GetClientHello is called after the handshake completed
	for _, s := range callsIn(sc, "(*hack.HijackClientHelloConn).GetClientHello") {
		for _, h := range callsIn(sc, "(*proxyserver.Server).tlsHandshakeWithTimeout") {
			o2.Check(instrDominates(h, s), "the ClientHello is fetched before the handshake ran")
		}
		o2.Check(c.Expr(callOf(s).Args[0]) == "hack.NewHijackClientHelloConn(p1)", "GetClientHello is called on %s", c.Expr(callOf(s).Args[0]))
	}
	// the tls.Conn reads through the hijack wrapper (otherwise nothing is captured)
	for _, s := range callsIn(sc, "crypto/tls.Server") {
		o2.AtI(s).Check(c.Expr(callOf(s).Args[0]) == "hack.NewHijackClientHelloConn(p1)", "tls.Server is layered on %s, not on the capturing wrapper", c.Expr(callOf(s).Args[0]))
	}
}
