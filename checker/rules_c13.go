package main

import (
	"go/token"
	"fmt"
	"sort"
	"strings"

	"golang.org/x/tools/go/ssa"
)

func init() {
	register("C13", false,
		ruleDef{"C13.R5", c13r5},
		ruleDef{"C13.R7", c13r7},
		ruleDef{"C13.R8", c13r8},
	)
}

// errSite: one labelled protocol-error site.
type errSite struct {
	Fn     *ssa.Function
	I      ssa.Instruction
	Label  string
	Kind   string // conn | stream | other
	Code   string
	Guards []string
}

var errCodeNames = map[string]string{"0": "NO_ERROR", "1": "PROTOCOL_ERROR", "2": "INTERNAL_ERROR", "3": "FLOW_CONTROL_ERROR", "4": "SETTINGS_TIMEOUT", "5": "STREAM_CLOSED", "6": "FRAME_SIZE_ERROR", "7": "REFUSED_STREAM", "8": "CANCEL", "9": "COMPRESSION_ERROR", "10": "CONNECT_ERROR", "11": "ENHANCE_YOUR_CALM", "12": "INADEQUATE_SECURITY", "13": "HTTP_1_1_REQUIRED"}

// classifyErr renders an error value as (kind, code).
func classifyErr(c *Ctx, v ssa.Value) (string, string) {
	v = unwrapIface(v)
	switch x := v.(type) {
	case *ssa.Const:
		if typeName(x.Type()) == "http2.ConnectionError" {
			return "conn", errCodeNames[constStr(x)]
		}
	case *ssa.Call:
		if calleeName(&x.Call) == "http2.streamError" {
			return "stream", errCodeNames[c.Expr(x.Call.Args[1])]
		}
	case *ssa.UnOp:
		if al, ok := x.X.(*ssa.Alloc); ok && uniqueStore(al) == nil {
			f := complitFields(al)
			switch typeName(deref(al.Type())) {
			case "http2.connError":
				if f["Code"] != nil {
					return "conn", errCodeNames[c.Expr(f["Code"])]
				}
			case "http2.StreamError":
				if f["Code"] != nil {
					return "stream", errCodeNames[c.Expr(f["Code"])]
				}
			}
		}
		// load of a local StreamError struct built by streamError(...)
		e := c.Expr(x)
		if strings.HasPrefix(e, "http2.streamError(") {
			if call := findCall(x); call != nil {
				return "stream", errCodeNames[c.Expr(call.Call.Args[1])]
			}
		}
	}
	e := c.Expr(v)
	if strings.HasPrefix(e, "http2.streamError(") {
		k := strings.LastIndex(e, ", ")
		return "stream", errCodeNames[strings.TrimSuffix(e[k+2:], ")")]
	}
	if typeName(v.Type()) == "http2.ConnectionError" {
		return "conn", "?" + e
	}
	return "other", e
}

func findCall(v ssa.Value) *ssa.Call {
	for d := 0; d < 6; d++ {
		switch x := v.(type) {
		case *ssa.Call:
			return x
		case *ssa.UnOp:
			if a, ok := x.X.(*ssa.Alloc); ok {
				if st := uniqueStore(a); st != nil {
					v = st.Val
					continue
				}
			}
			return nil
		case *ssa.MakeInterface:
			v = x.X
		default:
			return nil
		}
	}
	return nil
}

// serverErrSites: sc.countError(label, err) sites in the h2 server.
func serverErrSites(c *Ctx) []errSite {
	var out []errSite
	for _, fn := range c.FuncsIn("pkg/http2") {
		for _, s := range callsIn(fn, "(*http2.serverConn).countError") {
			a := callOf(s).Args
			lbl, _ := constString(a[1])
			k, code := classifyErr(c, a[2])
			out = append(out, errSite{fn, s, lbl, k, code, c.guardStrs(s.Block())})
		}
	}
	sort.Slice(out, func(i, j int) bool { return out[i].I.Pos() < out[j].I.Pos() })
	return out
}

func c13r5(r *R) {
	c := r.C
	sites := serverErrSites(c)
	r.Ob("C13.R5", "instances").Check(len(sites) >= 28, "expected >= 28 labelled protocol-error sites in the h2 server, found %d", len(sites))
	count := map[string]int{}
	var rows []siteRow
	for _, s := range sites {
		count[s.Label]++
		key := fmt.Sprintf("%s#%d", s.Label, count[s.Label])
		attrs := append([]string{"in " + funcName(s.Fn), "raises " + s.Kind + " " + s.Code}, c.reachConds(s.I.Block())...)
		rows = append(rows, siteRow{key, attrs, s.I})
		// the error is returned, not dropped
		o := r.Ob("C13.R5", "error-is-returned:"+key).AtI(s.I)
		used := false
		if v, ok := s.I.(ssa.Value); ok {
			for _, ref := range *v.Referrers() {
				switch ref.(type) {
				case *ssa.Return, *ssa.Store, *ssa.Phi:
					used = true
				}
			}
		}
		o.Check(used, "the %s error raised for %q is not returned to the frame loop", s.Code, s.Label)
	}
	checkTable(r, "C13.R5", "h2_server_errors", rows, "protocol-error site")
}

// R7: who writes the connection/stream state that drives the state machine, with what value, under which conditions.
func c13r7(r *R) {
	c := r.C
	fns := c.FuncsIn("pkg/http2")
	rows := fieldWriteRows(c, fns, "pkg/http2", "serverConn", []string{"maxClientStreamID", "maxPushPromiseID", "curClientStreams", "curPushedStreams", "inGoAway", "needToSendGoAway", "goAwayCode", "sawFirstSettings", "unackedSettings", "advMaxStreams", "streams"})
	rows = append(rows, fieldWriteRows(c, fns, "pkg/http2", "stream", []string{"state", "resetQueued", "gotTrailerHeader", "wroteHeaders", "bodyBytes", "declBodyBytes"})...)
	r.Ob("C13.R7", "instances").Check(len(rows) >= 25, "expected >= 25 state writes, found %d", len(rows))
	checkTable(r, "C13.R7", "h2_server_state_writes", rows, "state write")
	// map writes to sc.streams (insert/delete)
	var mrows []siteRow
	n := 0
	for _, fn := range fns {
		eachInstr(fn, func(i ssa.Instruction) {
			switch x := i.(type) {
			case *ssa.MapUpdate:
				if strings.HasSuffix(c.Expr(x.Map), ".streams") && strings.Contains(funcName(fn), "serverConn") {
					n++
					mrows = append(mrows, siteRow{fmt.Sprintf("streams-insert@%s#%d", funcName(fn), n), append([]string{"key " + c.Expr(x.Key), "value " + c.Expr(x.Value)}, c.reachConds(i.Block())...), i})
				}
			case *ssa.Call:
				if calleeName(&x.Call) == "builtin.delete" && strings.HasSuffix(c.Expr(x.Call.Args[0]), ".streams") && strings.Contains(funcName(fn), "serverConn") {
					n++
					mrows = append(mrows, siteRow{fmt.Sprintf("streams-delete@%s#%d", funcName(fn), n), append([]string{"key " + c.Expr(x.Call.Args[1])}, c.reachConds(i.Block())...), i})
				}
			}
		})
	}
	checkTable(r, "C13.R7", "h2_server_streams_map", mrows, "stream table update")
}

// R8: decision tables of the pure validation functions between the wire and the handler.
func c13r8(r *R) {
	c := r.C
	var rows []siteRow
	for _, nm := range [][3]string{
		{"pkg/http2", "MetaHeadersFrame", "checkPseudos"}, {"pkg/http2", "Framer", "checkFrameOrder"}, {"pkg/http2", "serverConn", "state"},
		{"pkg/http2", "serverConn", "checkPriority"}, {"pkg/http2", "serverConn", "processSetting"}, {"pkg/http2", "serverConn", "processSettings"},
		{"pkg/http2", "Setting", "Valid"}, {"pkg/http2", "serverConn", "processPing"}, {"pkg/http2", "serverConn", "processGoAway"},
		{"pkg/http2", "serverConn", "processResetStream"}, {"pkg/http2", "serverConn", "processPriority"}, {"pkg/http2", "stream", "endStream"},
	} {
		fn := c.Method(nm[0], nm[1], nm[2])
		r.need(fn != nil, "%s.%s not found", nm[1], nm[2])
		rows = append(rows, returnRows(c, fn)...)
	}
	for _, nm := range []string{"checkValidHTTP2RequestHeaders", "validPseudoPath"} {
		fn := c.Func("pkg/http2", nm)
		r.need(fn != nil, "%s not found", nm)
		rows = append(rows, returnRows(c, fn)...)
	}
	r.Ob("C13.R8", "instances").Check(len(rows) >= 40, "expected >= 40 decision rows, found %d", len(rows))
	checkTable(r, "C13.R8", "h2_validation_decisions", rows, "decision")
}

func init() {
	p := registry["C13"]
	p.Rules = append([]ruleDef{{"C13.R1", c13r1}, {"C13.R2", c13r2}, {"C13.R3", c13r3}, {"C13.R4", c13r4}, {"C13.R6", c13r6}}, p.Rules...)
}

// parserTable: frame type constant name -> parser function name, from the typed syntax of frameParsers.
func parserTable(r *R) map[string]string {
	c := r.C
	e, p := c.varInit("pkg/http2", "frameParsers")
	r.need(e != nil, "http2.frameParsers initialiser not found")
	out := map[string]string{}
	cl, ok := e.(interface{ End() int })
	_ = cl
	_ = ok
	lit := compositeElts(e)
	r.need(lit != nil, "frameParsers is not a composite literal")
	for _, kv := range lit {
		k := constOf(p, kv[0])
		r.need(k != nil, "frameParsers key is not a constant")
		out[k.ExactString()] = exprIdent(kv[1])
	}
	return out
}

var frameTypeOfParser = map[string][2]string{
	"0": {"parseDataFrame", "*http2.DataFrame"}, "1": {"parseHeadersFrame", "*http2.HeadersFrame"}, "2": {"parsePriorityFrame", "*http2.PriorityFrame"},
	"3": {"parseRSTStreamFrame", "*http2.RSTStreamFrame"}, "4": {"parseSettingsFrame", "*http2.SettingsFrame"}, "5": {"parsePushPromise", "*http2.PushPromiseFrame"},
	"6": {"parsePingFrame", "*http2.PingFrame"}, "7": {"parseGoAwayFrame", "*http2.GoAwayFrame"}, "8": {"parseWindowUpdateFrame", "*http2.WindowUpdateFrame"},
	"9": {"parseContinuationFrame", "*http2.ContinuationFrame"},
}

// successType: the concrete frame type a parser returns on its nil-error returns.
func successTypes(c *Ctx, fn *ssa.Function) []string {
	set := map[string]bool{}
	eachInstr(fn, func(i ssa.Instruction) {
		ret, ok := i.(*ssa.Return)
		if !ok || len(ret.Results) != 2 || i.Block() == fn.Recover {
			return
		}
		if c.Expr(ret.Results[1]) != "nil" && !strings.HasPrefix(retExpr(c, ret, 1), "nil") {
			return
		}
		v := ret.Results[0]
		if u, ok := v.(*ssa.UnOp); ok {
			if al, ok := u.X.(*ssa.Alloc); ok {
				for _, rf := range *al.Referrers() {
					if st, ok := rf.(*ssa.Store); ok && st.Addr == ssa.Value(al) && st.Block() == i.Block() {
						v = st.Val
					}
				}
			}
		}
		if mi, ok := v.(*ssa.MakeInterface); ok {
			set[typeName(mi.X.Type())] = true
		}
	})
	var out []string
	for k := range set {
		out = append(out, k)
	}
	sort.Strings(out)
	return out
}

func c13r1(r *R) {
	c := r.C
	tab := parserTable(r)
	o := r.Ob("C13.R1", "parser-table").At(c.Global("pkg/http2", "frameParsers").Pos())
	o.Check(len(tab) == 10, "frameParsers has %d entries, RFC 7540 defines 10 frame types", len(tab))
	produced := map[string]bool{"*http2.UnknownFrame": true, "*http2.MetaHeadersFrame": true}
	for k, want := range frameTypeOfParser {
		o.Check(tab[k] == want[0], "frame type %s is parsed by %q, want %s", k, tab[k], want[0])
		fn := c.Func("pkg/http2", want[0])
		if o.Check(fn != nil, "%s not found", want[0]) {
			ts := successTypes(c, fn)
			o.Check(len(ts) == 1 && ts[0] == want[1], "%s returns %v on success, want %s", want[0], ts, want[1])
			for _, t := range ts {
				produced[t] = true
			}
		}
	}
	tp := c.Func("pkg/http2", "typeFrameParser")
	if o.Check(tp != nil, "typeFrameParser not found") {
		eachInstr(tp, func(i ssa.Instruction) {
			if ret, ok := i.(*ssa.Return); ok {
				e := c.Expr(ret.Results[0])
				o.Check(e == "http2.frameParsers[p0]" || e == "func:http2.parseUnknownFrame", "typeFrameParser returns %s", e)
			}
		})
	}
	// dispatch in processFrame
	pf := c.Method("pkg/http2", "serverConn", "processFrame")
	r.need(pf != nil, "processFrame not found")
	o2 := r.Ob("C13.R1", "dispatch-exhaustive:"+funcName(pf)).At(pf.Pos())
	cases := map[string]bool{}
	eachInstr(pf, func(i ssa.Instruction) {
		if ta, ok := i.(*ssa.TypeAssert); ok && ta.CommaOk && c.Expr(ta.X) == "p1" {
			cases[typeName(ta.AssertedType)] = true
		}
	})
	absorbed := map[string]string{"*http2.HeadersFrame": "folded into MetaHeadersFrame by readMetaFrame", "*http2.ContinuationFrame": "folded into MetaHeadersFrame by readMetaFrame", "*http2.UnknownFrame": "default case: ignored (RFC 7540 4.1)"}
	for t := range produced {
		if cases[t] {
			continue
		}
		_, ok := absorbed[t]
		o2.Check(ok, "frames of type %s can be produced by the framer but processFrame has no case for them", t)
	}
	for _, t := range []string{"*http2.SettingsFrame", "*http2.MetaHeadersFrame", "*http2.WindowUpdateFrame", "*http2.PingFrame", "*http2.DataFrame", "*http2.RSTStreamFrame", "*http2.PriorityFrame", "*http2.GoAwayFrame", "*http2.PushPromiseFrame"} {
		o2.Check(cases[t], "processFrame lost its case for %s", t)
	}
	// each case calls its handler: table of (case -> process function)
	want := map[string]string{"SettingsFrame": "processSettings", "MetaHeadersFrame": "processHeaders", "WindowUpdateFrame": "processWindowUpdate", "PingFrame": "processPing", "DataFrame": "processData", "RSTStreamFrame": "processResetStream", "PriorityFrame": "processPriority", "GoAwayFrame": "processGoAway"}
	for ft, pn := range want {
		cs := callsIn(pf, "(*http2.serverConn)."+pn)
		if o2.Check(len(cs) == 1, "processFrame calls %s %d times", pn, len(cs)) {
			o2.Check(frameCase(c, cs[0].Block()) == ft, "%s is called in the case of %q", pn, frameCase(c, cs[0].Block()))
			o2.Check(c.Expr(callOf(cs[0]).Args[1]) == "assert[*http2."+ft+"](p1)#0", "%s gets %s", pn, c.Expr(callOf(cs[0]).Args[1]))
			// its result is what processFrame returns
			if v, ok := cs[0].(ssa.Value); ok {
				ret := flowsToReturn(v)
				o2.Check(ret, "the result of %s is not returned by processFrame (its error would be lost)", pn)
			}
		}
	}
	// the server's framer folds header blocks (so HEADERS/CONTINUATION never surface)
	ns := c.Method("pkg/http2", "Server", "serveConn")
	r.need(ns != nil, "Server.serveConn not found")
	o3 := r.Ob("C13.R1", "meta-headers-enabled").At(ns.Pos())
	fr := c.Named("pkg/http2", "Framer")
	n := 0
	for _, a := range fieldAccesses([]*ssa.Function{ns}, fr, "ReadMetaHeaders") {
		if a.Kind == "write" {
			n++
			o3.AtI(a.Instr).Check(strings.HasPrefix(c.Expr(a.Instr.(*ssa.Store).Val), "golang.org/x/net/http2/hpack.NewDecoder("), "ReadMetaHeaders is %s", c.Expr(a.Instr.(*ssa.Store).Val))
			o3.Check(len(guardsOf(a.Instr.Block())) == 0, "ReadMetaHeaders is set conditionally")
		}
	}
	o3.Check(n == 1, "the server's framer is created without ReadMetaHeaders (%d stores)", n)
}

func c13r2(r *R) {
	c := r.C
	// who may start a handler goroutine
	allowed := map[string]bool{"(*http2.serverConn).scheduleHandler": true, "(*http2.serverConn).handlerDone": true, "(*http2.serverConn).upgradeRequest": true, "(*http2.serverConn).startPush$1": true}
	o := r.Ob("C13.R2", "who-starts-handlers")
	n := 0
	for _, fn := range c.FuncsIn("pkg/http2") {
		eachInstr(fn, func(i ssa.Instruction) {
			if g, ok := i.(*ssa.Go); ok && calleeName(&g.Call) == "(*http2.serverConn).runHandler" {
				n++
				o.AtI(i).Check(allowed[funcName(fn)], "a request handler goroutine is started from %s", funcName(fn))
			}
		})
	}
	o.Check(n == 4, "expected 4 `go sc.runHandler` sites, found %d", n)
	// scheduleHandler is called only from processHeaders
	ph := c.Method("pkg/http2", "serverConn", "processHeaders")
	r.need(ph != nil, "processHeaders not found")
	for _, fn := range c.FuncsIn("pkg/http2") {
		for _, s := range callsIn(fn, "(*http2.serverConn).scheduleHandler") {
			o.AtI(s).Check(fn == ph, "scheduleHandler is called from %s", funcName(fn))
		}
	}
	o2 := r.Ob("C13.R2", "handler-only-after-validation:"+funcName(ph)).At(ph.Pos())
	sh := callsIn(ph, "(*http2.serverConn).scheduleHandler")
	if !o2.Check(len(sh) == 1, "expected one scheduleHandler call in processHeaders, found %d", len(sh)) {
		return
	}
	o2.AtI(sh[0])
	gs := c.guardStrs(sh[0].Block())
	id := "p1.HeadersFrame.FrameHeader.StreamID"
	for _, w := range []string{
		"-((" + id + " % 2) != 1)",
		"-(nil != p0.streams[" + id + "])",
		"-(" + id + " <= p0.maxClientStreamID)",
		"-(p0.advMaxStreams < (1 + p0.curClientStreams))",
	} {
		o2.Check(hasGuard(gs, w), "a handler can be scheduled without the check %s having passed; guards %v", w, gs)
	}
	o2.Check(guardOkOn(gs, "newWriterAndRequest("), "a handler can be scheduled although building the request failed; guards %v", gs)
	// arguments: the stream id of this frame, the writer/request just built, the selected handler
	a := callOf(sh[0]).Args
	if len(a) == 2 {
		// the four values bundled in one unstartedHandler literal
		if ld, ok := a[1].(*ssa.UnOp); ok {
			if al, ok := ld.X.(*ssa.Alloc); ok {
				f := complitFields(al)
				if f["streamID"] != nil && f["rw"] != nil && f["req"] != nil && f["handler"] != nil {
					a = []ssa.Value{a[0], f["streamID"], f["rw"], f["req"], f["handler"]}
				}
			}
		}
	}
	if !o2.Check(len(a) == 5, "scheduleHandler is called with %d arguments, want (stream id, writer, request, handler)", len(a)-1) {
		return
	}
	o2.Check(c.Expr(a[1]) == id, "scheduleHandler gets stream id %s", c.Expr(a[1]))
	o2.Check(strings.HasSuffix(c.Expr(a[2]), ")#0") && strings.HasSuffix(c.Expr(a[3]), ")#1") && strings.Contains(c.Expr(a[2]), "newWriterAndRequest("), "scheduleHandler gets (%s, %s)", c.Expr(a[2]), c.Expr(a[3]))
	// handler selection: phi of user handler / 431 / 400
	if phi, ok := a[4].(*ssa.Phi); o2.Check(ok, "the handler passed is %s, want a choice between the user handler and the internal 431/400 handlers", c.Expr(a[4])) {
		for k, e := range phi.Edges {
			pg := edgeGuards(c, phi.Block().Preds[k], phi.Block())
			es := c.Expr(e)
			switch {
			case es == "func:http2.handleHeaderListTooLong":
				o2.Check(hasGuard(pg, "+p1.Truncated"), "431 handler chosen under %v", pg)
			case strings.HasPrefix(es, "http2.new400Handler("):
				o2.Check(guardErrOn(pg, "http2.checkValidHTTP2RequestHeaders(") && hasGuard(pg, "-p1.Truncated"), "400 handler chosen under %v", pg)
			case es == "closure:(net/http.Handler).ServeHTTP" || strings.Contains(es, "ServeHTTP"):
				o2.Check(hasGuard(pg, "-p1.Truncated") && guardOkOn(pg, "http2.checkValidHTTP2RequestHeaders("), "the user's handler is chosen although the header list was truncated or invalid; edge guards %v", pg)
			default:
				o2.Fail("unexpected handler candidate %s", es)
			}
		}
	}
	// strictly increasing ids: the store of maxClientStreamID sits between the two checks (also pinned in C13.R7)
	sc := c.Named("pkg/http2", "serverConn")
	for _, acc := range fieldAccesses([]*ssa.Function{ph}, sc, "maxClientStreamID") {
		if acc.Kind == "write" {
			st := acc.Instr.(*ssa.Store)
			o2.AtI(st).Check(c.Expr(st.Val) == id, "maxClientStreamID is set to %s", c.Expr(st.Val))
			o2.Check(instrDominates(st, sh[0]), "maxClientStreamID is not advanced before the handler is scheduled")
			sg := c.guardStrs(st.Block())
			o2.Check(hasGuard(sg, "-("+id+" <= p0.maxClientStreamID)") && !hasGuardContaining(sg, "-", "advMaxStreams"), "maxClientStreamID is advanced under %v: it must be advanced for every new stream id, including ones then refused for exceeding the concurrency limit (otherwise a later lower id is accepted)", sg)
		}
	}
	// newWriterAndRequest runs checkPseudos-validated frames only: readMetaFrame marks invalid blocks, processHeaders sees them as errors (pinned in C13.R8/C19)
	// scheduleHandler itself: handler starts under curHandlers < advMaxStreams, otherwise queued (or ENHANCE_YOUR_CALM)
	shf := c.Method("pkg/http2", "serverConn", "scheduleHandler")
	r.need(shf != nil, "scheduleHandler not found")
	o3 := r.Ob("C13.R2", "handler-concurrency:"+funcName(shf)).At(shf.Pos())
	eachInstr(shf, func(i ssa.Instruction) {
		if g, ok := i.(*ssa.Go); ok {
			gs := c.guardStrs(i.Block())
			o3.AtI(i).Check(hasGuard(gs, "+(p0.curHandlers < p0.advMaxStreams)"), "handler goroutine started under %v", gs)
			o3.Check(c.Expr(g.Call.Args[1]) == "p2" && c.Expr(g.Call.Args[2]) == "p3" && c.Expr(g.Call.Args[3]) == "p4", "runHandler(%s, %s, %s)", c.Expr(g.Call.Args[1]), c.Expr(g.Call.Args[2]), c.Expr(g.Call.Args[3]))
		}
	})
}

func c13r3(r *R) {
	c := r.C
	pf := c.Method("pkg/http2", "serverConn", "processFrame")
	r.need(pf != nil, "processFrame not found")
	o := r.Ob("C13.R3", "first-settings-and-goaway-discard:"+funcName(pf)).At(pf.Pos())
	// every process* call is unreachable on the discard edge and on the first-frame-not-SETTINGS edge
	var discardIf, firstIf *ssa.If
	eachInstr(pf, func(i ssa.Instruction) {
		if iff, ok := i.(*ssa.If); ok {
			switch c.Expr(iff.Cond) {
			case "p0.inGoAway":
				discardIf = iff
			case "p0.sawFirstSettings":
				firstIf = iff
			}
		}
	})
	if !o.Check(discardIf != nil && firstIf != nil, "processFrame lacks the sawFirstSettings test (%v) or the inGoAway test (%v)", firstIf != nil, discardIf != nil) {
		return
	}
	o.AtI(firstIf, discardIf)
	o.Check(instrDominates(firstIf, discardIf), "the GOAWAY discard test precedes the first-frame test")
	var procs []ssa.Instruction
	eachInstr(pf, func(i ssa.Instruction) {
		if cc := callOf(i); cc != nil && strings.HasPrefix(calleeName(cc), "(*http2.serverConn).process") {
			procs = append(procs, i)
			o.Check(instrDominates(discardIf, i) && instrDominates(firstIf, i), "%s is reachable without passing the first-SETTINGS and GOAWAY-discard tests", calleeName(cc))
		}
	})
	o.Check(len(procs) >= 8, "only %d process* calls found", len(procs))
	// the discard condition: inGoAway && (goAwayCode != NO_ERROR || id > maxClientStreamID); on it nothing is processed
	var disc *ssa.BasicBlock
	for _, b := range pf.Blocks {
		rc := c.reachConds(b)
		for _, g := range rc {
			if strings.HasPrefix(g, "OR{") && strings.Contains(g, "+(0 != p0.goAwayCode)") && strings.Contains(g, "p0.maxClientStreamID < ") {
				disc = b
			}
		}
	}
	if o.Check(disc != nil, "the discard condition `goAwayCode != NO_ERROR || StreamID > maxClientStreamID` was not found") {
		o.Check(hasGuard(c.guardStrs(disc), "+p0.inGoAway"), "discard block is not under inGoAway")
		for _, p := range procs {
			o.Check(!reachesAfter(disc.Instrs[0], p), "a frame is still processed on the discard-after-GOAWAY edge")
		}
	}
}

func c13r4(r *R) {
	c := r.C
	fr := c.Method("pkg/http2", "serverConn", "processFrameFromReader")
	r.need(fr != nil, "processFrameFromReader not found")
	o := r.Ob("C13.R4", "error-routing:"+funcName(fr)).At(fr.Pos())
	errV := "phi((*http2.serverConn).processFrame(p0, p1.f)|p1.err)"
	se := "+assert[http2.StreamError](" + errV + ")#1"
	ce := "+assert[http2.ConnectionError](" + errV + ")#1"
	fe := "+assert[http2.goAwayFlowError](" + errV + ")#1"
	nReset, nGoAway := 0, 0
	eachInstr(fr, func(i ssa.Instruction) {
		gs := c.guardStrs(i.Block())
		switch {
		case isCall(i, "(*http2.serverConn).resetStream"):
			nReset++
			o.AtI(i).Check(hasGuard(gs, se), "resetStream is called under %v, want only for a StreamError", gs)
			o.Check(c.Expr(callOf(i).Args[1]) == "assert[http2.StreamError]("+errV+")#0", "resetStream gets %s", c.Expr(callOf(i).Args[1]))
		case isCall(i, "(*http2.serverConn).goAway"):
			nGoAway++
			code := c.Expr(callOf(i).Args[1])
			o.AtI(i)
			switch {
			case hasGuard(gs, ce):
				o.Check(code == "assert[http2.ConnectionError]("+errV+")#0", "a ConnectionError is answered with GOAWAY code %s, want the error's own code", code)
			case hasGuard(gs, fe):
				o.Check(code == "3", "goAwayFlowError is answered with GOAWAY code %s, want FLOW_CONTROL_ERROR", code)
			case hasGuardContaining(gs, "+", " == http2.ErrFrameTooLarge)") || hasGuardContaining(gs, "+", "(http2.ErrFrameTooLarge == "):
				o.Check(code == "6", "an oversized frame is answered with GOAWAY code %s, want FRAME_SIZE_ERROR", code)
			default:
				o.Fail("goAway(%s) under %v", code, gs)
			}
		}
	})
	o.Check(nReset == 1 && nGoAway == 3, "expected 1 resetStream and 3 goAway sites, found %d/%d", nReset, nGoAway)
	// stream errors keep the connection (return true); connection errors raise maxClientStreamID to the offending frame's id first
	eachInstr(fr, func(i ssa.Instruction) {
		if ret, ok := i.(*ssa.Return); ok {
			gs := c.guardStrs(i.Block())
			if hasGuard(gs, se) || hasGuard(gs, ce) || hasGuard(gs, fe) {
				o.Check(c.Expr(ret.Results[0]) == "true", "after a protocol error the frame loop result is %s (must keep running to send RST_STREAM/GOAWAY)", c.Expr(ret.Results[0]))
			}
		}
	})
	// GOAWAY frame carries maxClientStreamID and goAwayCode
	sw := c.Method("pkg/http2", "serverConn", "scheduleFrameWrite")
	r.need(sw != nil, "scheduleFrameWrite not found")
	o2 := r.Ob("C13.R4", "goaway-frame-fields:"+funcName(sw)).At(sw.Pos())
	found := false
	eachInstr(sw, func(i ssa.Instruction) {
		if al, ok := i.(*ssa.Alloc); ok && allocOfStruct(al, "http2.writeGoAway") {
			found = true
			f := complitFields(al)
			o2.AtI(i).Check(f["maxStreamID"] != nil && c.Expr(f["maxStreamID"]) == "p0.maxClientStreamID" && f["code"] != nil && c.Expr(f["code"]) == "p0.goAwayCode", "GOAWAY carries (last-stream-id %s, code %s), want (sc.maxClientStreamID, sc.goAwayCode)", exprOrNil(c, f["maxStreamID"]), exprOrNil(c, f["code"]))
		}
	})
	o2.Check(found, "no writeGoAway frame is built in scheduleFrameWrite")
	wg := c.Method("pkg/http2", "writeGoAway", "writeFrame")
	if o2.Check(wg != nil, "writeGoAway.writeFrame not found") {
		for _, s := range callsIn(wg, "(*http2.Framer).WriteGoAway") {
			a := callOf(s).Args
			o2.AtI(s).Check(c.Expr(a[1]) == "p0.maxStreamID" && c.Expr(a[2]) == "p0.code", "WriteGoAway(%s, %s)", c.Expr(a[1]), c.Expr(a[2]))
		}
	}
}

// R6: serve-loop ownership via the repository's own annotation.
func c13r6(r *R) {
	c := r.C
	var checkFns, notOnFns []*ssa.Function
	for _, fn := range c.FuncsIn("pkg/http2") {
		if !strings.Contains(funcName(fn), "serverConn") && !strings.Contains(funcName(fn), "http2.stream)") {
			continue
		}
		eachInstr(fn, func(i ssa.Instruction) {
			if isCall(i, "(http2.goroutineLock).check") && strings.HasSuffix(c.Expr(callOf(i).Args[0]), ".serveG") {
				checkFns = append(checkFns, fn)
			}
			if isCall(i, "(http2.goroutineLock).checkNotOn") && strings.HasSuffix(c.Expr(callOf(i).Args[0]), ".serveG") {
				notOnFns = append(notOnFns, fn)
			}
		})
	}
	r.Ob("C13.R6", "instances").Check(len(checkFns) >= 30 && len(notOnFns) >= 4, "expected >= 30 serveG.check() functions and >= 4 checkNotOn() functions, found %d/%d", len(checkFns), len(notOnFns))
	serve := c.Method("pkg/http2", "serverConn", "serve")
	r.need(serve != nil, "serve not found")
	roots := goroutineRoots(c, proxyFuncs(c))
	for _, g := range roots {
		// summarizeFrame (debug logging) hands a literal closure to SettingsFrame.ForeachSetting; VTA merges that call site with
		// processSettings' own ForeachSetting(sc.processSetting) and would report a path that does not exist, so the walk does not enter it
		reach := c.reachable([]*ssa.Function{g.Fn}, false, func(f *ssa.Function) bool { return funcName(f) == "http2.summarizeFrame" })
		_, isServe := reach[serve]
		o := r.Ob("C13.R6", "ownership:"+g.key()).AtI(g.Site)
		if isServe {
			for _, f := range notOnFns {
				if _, ok := reach[f]; ok {
					// reachable through handler-API types (VTA imprecision) only if a path avoids runHandler; report with path
					p := c.pathTo(reach, f)
					if !strings.Contains(p, "runHandler") && !strings.Contains(p, "ServeHTTP") && !strings.Contains(p, "responseWriter") && !strings.Contains(p, "requestBody") {
						o.Fail("%s asserts it is NOT on the serve goroutine but is reachable from it: %s", funcName(f), p)
					}
				}
			}
			continue
		}
		for _, f := range checkFns {
			if _, ok := reach[f]; ok {
				o.Fail("%s asserts it runs on the serve goroutine (serveG.check) but is reachable from goroutine %s: %s", funcName(f), g.key(), c.pathTo(reach, f))
			}
		}
	}
}

// edgeGuards: conditions that hold when control goes from pred to succ (pred's dominating guards plus its own branch literal).
func edgeGuards(c *Ctx, pred, succ *ssa.BasicBlock) []string {
	out := c.guardStrs(pred)
	if useDomGuards {
		if len(pred.Instrs) > 0 {
			if iff, ok := pred.Instrs[len(pred.Instrs)-1].(*ssa.If); ok && pred.Succs[0] != pred.Succs[1] {
				if pred.Succs[0] == succ {
					out = append(out, canonGuard(true, c.Expr(iff.Cond)))
				} else if pred.Succs[1] == succ {
					out = append(out, canonGuard(false, c.Expr(iff.Cond)))
				}
			}
		}
		return out
	}
	// what the edge itself adds (its branch literal; for a branch on a flag, the conditions the flag stands for) comes last
	have := map[string]bool{}
	for _, g := range out {
		have[g] = true
	}
	for _, g := range c.pathEdgeGuards(pred, succ) {
		if !have[g] {
			have[g] = true
			out = append(out, g)
		}
	}
	return out
}

func init() {
	p := registry["C13"]
	p.Rules = append(p.Rules, ruleDef{"C13.R9", func(r *R) {
		forkSiblingRule(r, "C13.R9", "server.go", "http2.go", "errors.go", "frame.go")
		forkTablesRule(r, "C13.R9")
	}})
	wantRefs("C13")
}

// flowsToReturn: the value is what some return of its function returns — directly, through phis (a result picked in a
// branch and returned at a common exit), or through a local result cell (`res = f(); …; return res`).
func flowsToReturn(v ssa.Value) bool {
	seen := map[ssa.Value]bool{}
	work := []ssa.Value{v}
	for len(work) > 0 {
		x := work[len(work)-1]
		work = work[:len(work)-1]
		if seen[x] || x.Referrers() == nil {
			continue
		}
		seen[x] = true
		for _, rf := range *x.Referrers() {
			switch y := rf.(type) {
			case *ssa.Return:
				return true
			case *ssa.Phi:
				work = append(work, y)
			case *ssa.ChangeInterface:
				work = append(work, y)
			case *ssa.MakeInterface:
				work = append(work, y)
			case *ssa.Extract:
				work = append(work, y)
			case *ssa.Store:
				if al, ok := y.Addr.(*ssa.Alloc); ok && y.Val == x && al.Referrers() != nil {
					for _, r2 := range *al.Referrers() {
						if ld, ok := r2.(*ssa.UnOp); ok && ld.Op == token.MUL {
							work = append(work, ld)
						}
					}
				}
			}
		}
	}
	return false
}
