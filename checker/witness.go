package main

// runWitnesses is filled in by witness_impl.go (thorough tier sensitivity witnesses).
var runWitnesses = func(res *runResult, prop, repo string) {}
