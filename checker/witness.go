package main

import (
	"fmt"
	"os"
	"os/exec"
	"path/filepath"
	"sort"
	"strings"
	"sync"
)

// Sensitivity witnesses (thorough tier): small edits to the real source files, applied in memory through the loader's
// overlay (nothing is written under /repo), each in its own subprocess. Each must make the named rule fire. They are
// evidence about the checker's sensitivity, reported in the evidence file; they never change a property's verdict.
// An edit whose anchor text no longer exists in the current tree is skipped and reported as skipped.
type witness struct {
	Prop, File, Old, New, Rule, What string
}

var witnesses = []witness{
	// C01
	{"C01", "pkg/ja3/ja3.go", "if !greaseValues[uint16(hello.CipherSuites[lastElem])] {", "if true {", "C01.R3", "last cipher not GREASE-filtered"},
	{"C01", "pkg/ja3/ja3.go", "for _, e := range hello.SupportedGroups[:lastElem] {", "for _, e := range hello.SupportedGroups[1:lastElem] {", "C01.R3", "first group skipped"},
	{"C01", "pkg/ja3/ja3.go", "0x8a8a: true, 0x9a9a: true,", "0x8a8a: true, 0x9a9b: true,", "C01.R4", "GREASE table entry wrong"},
	{"C01", "pkg/fingerprint/fingerprint.go", "hellobasic.Unmarshal(data.ClientHelloRecord)", "hellobasic.Unmarshal(data.ConnectionState.TLSUnique)", "C01.R", "JA3 computed from other connection data"},
	{"C01", "fingerproxy.go", `fp.NewFingerprintHeaderInjector("X-JA3-Fingerprint", fp.JA3Fingerprint)`, `fp.NewFingerprintHeaderInjector("X-JA3-Fingerprint", fp.JA4Fingerprint)`, "C01.R1", "JA3 header bound to the JA4 function"},
	// C02
	{"C02", "pkg/ja4/ja4.go", "j.unmarshalCipherSuites(chs, false)", "j.unmarshalCipherSuites(chs, true)", "C02.R1", "ciphers keep original order"},
	{"C02", "pkg/ja4/helper.go", `return fmt.Sprintf("%x", sha.Sum(nil))[:12]`, `return fmt.Sprintf("%x", sha.Sum(nil))[:16]`, "C02.R5", "hash truncated to 16"},
	{"C02", "pkg/ja4/helper.go", "return ((v >> 8) == v&0xff) && v&0xf == 0xa", "return v&0x0f0f == 0x0a0a", "C02.R6", "GREASE predicate loosened"},
	{"C02", "pkg/ja4/types.go", `func (x numberOfExtensions) String() string   { return fmt.Sprintf("%02d", min(x, 99)) }`, `func (x numberOfExtensions) String() string   { return fmt.Sprintf("%02d", x) }`, "C02.R5", "extension count not capped"},
	// C03
	{"C03", "pkg/metadata/http2.go", "int(p.Weight)+1", "int(p.Weight)", "C03.R4", "weight not +1"},
	{"C03", "pkg/metadata/http2.go", "uint(l) < maxPriorityFrames", "uint(l) > maxPriorityFrames", "C03.R4", "max instead of min (`<=` instead of `<` is the same min and is not flagged)"},
	{"C03", "pkg/http2/server.go", "if md.HTTP2Frames.WindowUpdateIncrement == 0 {", "if true {", "C03.R2", "window update captures the last frame"},
	{"C03", "pkg/http2/server.go", "StreamDep: f.PriorityParam.StreamDep,", "StreamDep: f.StreamID,", "C03.R3", "priority literal fields swapped"},
	{"C03", "pkg/fingerprint/fingerprint.go", `data.ConnectionState.NegotiatedProtocol == "h2"`, `data.ConnectionState.NegotiatedProtocol != ""`, "C03.R5", "h2 guard loosened"},
	// C04
	{"C04", "pkg/hack/hajack_clienthello_conn.go", "c.hijackClientHello(b[:n])", "c.hijackClientHello(b)", "C04.R2", "whole buffer teed"},
	{"C04", "pkg/hack/hajack_clienthello_conn.go", "c.buf.Truncate(int(c.expectedLen))", "_ = c.expectedLen", "C04.R3", "surplus bytes not truncated"},
	{"C04", "pkg/hack/hajack_clienthello_conn.go", "c.expectedLen = recordHeaderLen + handshakeLen", "c.expectedLen = handshakeLen", "C04.R4", "record header not counted"},
	{"C04", "pkg/hack/hajack_clienthello_conn.go", "if recType != recordTypeHandshake {", "if false {", "C04.R4", "record type unchecked"},
	// C05
	{"C05", "pkg/reverseproxy/handler.go", "r.Out.Header.Del(k)\n", "", "C05.R1", "client value not deleted"},
	{"C05", "pkg/reverseproxy/handler.go", "r.Out.Header.Set(k, v)", "r.Out.Header.Add(k, v)", "C05.R", "Add instead of Set"},
	{"C05", "pkg/reverseproxy/handler.go", "f.reverseProxy.Rewrite = f.rewriteFunc", "f.reverseProxy.Director = func(*http.Request) {}", "C05.R4", "Director mode"},
	// C06
	{"C06", "pkg/metadata/context.go", "func NewContext(ctx context.Context) (context.Context, *Metadata) {\n\tmd := &Metadata{}", "var sharedMD = &Metadata{}\n\nfunc NewContext(ctx context.Context) (context.Context, *Metadata) {\n\tmd := sharedMD", "C06.R", "one record shared by all connections"},
	{"C06", "pkg/proxyserver/proxyserver.go", "ctx, md := metadata.NewContext(server.ctx)\n\t\tmd.ClientHelloRecord = rec", "ctx, md := metadata.NewContext(server.ctx)\n\t\tserver.ctx = ctx\n\t\tmd.ClientHelloRecord = rec", "C06.R", "per-connection context stored on the shared server"},
	{"C06", "pkg/proxyserver/proxyserver.go", "md.ConnectionState = cs\n", "md.ConnectionState = tls.ConnectionState{NegotiatedProtocol: cs.NegotiatedProtocol}\n", "C06.R4", "record's ConnectionState not this connection's"},
	// C07
	{"C07", "pkg/metadata/http2.go", "f.RLock()\n\tdefer f.RUnlock()\n", "", "C07.R1", "Marshal without the read lock"},
	{"C07", "pkg/http2/server.go", "md.HTTP2Frames.Lock()\n\t\t\tmd.HTTP2Frames.Priorities = append(md.HTTP2Frames.Priorities, metadata.Priority{", "md.HTTP2Frames.RLock()\n\t\t\tmd.HTTP2Frames.Priorities = append(md.HTTP2Frames.Priorities, metadata.Priority{", "C07.R1", "store under a read lock"},
	// C08
	{"C08", "pkg/reverseproxy/handler.go", "if f.PreserveHost {", "if !f.PreserveHost {", "C08.R1", "PreserveHost inverted"},
	{"C08", "pkg/reverseproxy/handler.go", "r.SetURL(f.To)", "r.SetURL(f.To)\n\tr.Out.Header.Del(\"Accept-Encoding\")", "C08.R1", "strips a client header"},
	{"C08", "pkg/http2/server.go", "\terrChanPool.Put(ch)\n\tif frameWriteDone {", "\tif frameWriteDone {", "C08.R", "completion channel no longer recycled (deviation from upstream)"},
	// C09
	{"C09", "pkg/reverseproxy/handler.go", "r.Out.Header[\"X-Forwarded-For\"] = r.In.Header[\"X-Forwarded-For\"]\n\tr.SetXForwarded()", "r.SetXForwarded()\n\tr.Out.Header[\"X-Forwarded-For\"] = r.In.Header[\"X-Forwarded-For\"]", "C09.R1", "re-attach after SetXForwarded"},
	{"C09", "pkg/proxyserver/proxyserver.go", "if r.TLS == nil {", "if r.ProtoMajor < 2 && r.TLS == nil {", "C09.R3", "TLS compensator limited to HTTP/1"},
	// C10
	{"C10", "pkg/proxyserver/proxyserver.go", "\tdefer func() {\n\t\tif r := recover(); r != nil {\n\t\t\tserver.logf(\"panic serving %s: %v\", conn.RemoteAddr(), r)\n\t\t}\n\t}()\n", "\tdefer recover()\n", "C10.R1", "inert defer recover()"},
	{"C10", "pkg/proxyserver/proxyserver.go", "server.logf(\"tls handshake error (%s): %s\", conn.RemoteAddr(), err)", "log.Fatalf(\"tls handshake error (%s): %s\", conn.RemoteAddr(), err)", "C10.R3", "log.Fatalf on a connection path"},
	{"C10", "pkg/http2/frame.go", "if len(p)-int(padLength) < 0 {", "if false {", "C10.R7", "padding check removed"},
	// C11
	{"C11", "pkg/proxyserver/proxyserver.go", "\tdefer conn.Close()\n", "", "C11.R1", "connection not closed on exit"},
	{"C11", "pkg/hack/channel_listener.go", "\tselect {\n\tcase ln.channel <- conn:\n\tcase <-ln.context.Done():\n\t\t// the listener is closed, nobody is going to accept this\n\t\t// connection any more: close it instead of blocking forever\n\t\tconn.Close()\n\t}", "\tln.channel <- conn", "C11.R6", "bare send in the hand-off"},
	{"C11", "pkg/proxyserver/proxyserver.go", "server.HTTP2Server.IdleTimeout = server.HTTPServer.IdleTimeout", "_ = server.HTTPServer.IdleTimeout", "C11.R4", "h2 idle timeout not inherited"},
	// C12
	{"C12", "pkg/http2/server.go", "sc.sendWindowUpdate(nil, int(f.Length)) // conn-level", "_ = f.Length // conn-level", "C12.R", "discarded DATA not refunded"},
	{"C12", "pkg/http2/flow.go", "\tif n > uint32(f.avail) {\n\t\treturn false\n\t}\n\tf.avail -= int32(n)", "\tif n > uint32(f.avail)+1 {\n\t\treturn false\n\t}\n\tf.avail -= int32(n)", "C12.R", "take tolerates an overrun"},
	// C13
	{"C13", "pkg/http2/server.go", "if id <= sc.maxClientStreamID {", "if id < sc.maxClientStreamID {", "C13.R", "stream id reuse accepted"},
	{"C13", "pkg/http2/server.go", `return sc.countError("closed", streamError(id, ErrCodeStreamClosed))`, `return sc.countError("closed", streamError(id, ErrCodeProtocol))`, "C13.R5", "wrong error code"},
	// C14
	{"C14", "pkg/certwatcher/certwatcher.go", "\tcw.Lock()\n\tcw.currentCert = &cert\n\tcw.Unlock()", "\tcw.currentCert = &cert", "C14.R1", "swap without the lock"},
	{"C14", "pkg/certwatcher/certwatcher.go", "tls.LoadX509KeyPair(cw.certPath, cw.keyPath)", "tls.LoadX509KeyPair(cw.keyPath, cw.certPath)", "C14.R2", "cert/key paths swapped"},
	{"C14", "fingerproxy.go", "GetCertificate: cw.GetCertificate,", "GetCertificate: cw.GetCertificate,\n\t\tCertificates:   []tls.Certificate{},", "C14.R4", "static certificates set"},
	// C15
	{"C15", "pkg/reverseproxy/handler.go", `strings.HasPrefix(r.UserAgent(), "kube-probe/")`, `strings.Contains(r.UserAgent(), "kube-probe/")`, "C15.R2", "Contains instead of HasPrefix"},
	{"C15", "pkg/reverseproxy/handler.go", "w.Write([]byte(ProbeResponse))\n\t\treturn", "w.Write([]byte(ProbeResponse))", "C15.R1", "probe also forwarded"},
	// C16
	{"C16", "pkg/proxyserver/proxyserver.go", "server.logf(\"could not read client hello (%s): %s\", conn.RemoteAddr(), err)\n\t\tserver.metricsRequestsTotalInc(\"0\", \"\")", "server.logf(\"could not read client hello (%s): %s\", conn.RemoteAddr(), err)", "C16.R1", "capture failure not counted"},
	{"C16", "pkg/proxyserver/proxyserver.go", `server.metricsRequestsTotalInc("1", cs.NegotiatedProtocol)`, `server.metricsRequestsTotalInc("1", "h2")`, "C16.R2", "protocol label constant"},
	// C17
	{"C17", "pkg/proxyserver/proxyserver.go", "server.inShutdown.Store(true)\n\t\tserver.HTTPServer.Shutdown(context.Background())\n\t\tln.Close()", "ln.Close()\n\t\tserver.inShutdown.Store(true)\n\t\tserver.HTTPServer.Shutdown(context.Background())", "C17.R1", "listener closed before inShutdown"},
	{"C17", "pkg/proxyserver/proxyserver.go", "return tlsConn.HandshakeContext(server.ctx)", "return tlsConn.HandshakeContext(context.Background())", "C17.R3", "handshake ignores the server context"},
	// C18
	{"C18", "pkg/http2/hpack/hpack.go", "\tdt.size += f.Size()\n\tdt.evict()\n", "\tdt.size += f.Size()\n", "C18.R", "no eviction after add"},
	{"C18", "pkg/http2/hpack/static_table.go", `{name: ":status", value: "204"}:                   9,`, `{name: ":status", value: "205"}:                   9,`, "C18.R1", "static table entry changed"},
	// C19
	{"C19", "pkg/http2/frame.go", "if fh.Length > fr.maxReadSize {", "if fh.Length > fr.maxReadSize+1 {", "C19.R", "read limit off by one"},
	{"C19", "pkg/http2/frame.go", "if len(p) != 4 {\n\t\tcountError(\"frame_windowupdate_bad_len\")", "if len(p) < 4 {\n\t\tcountError(\"frame_windowupdate_bad_len\")", "C19.R3", "WINDOW_UPDATE length check loosened"},
	// C20
	{"C20", "pkg/http2/writesched_roundrobin.go", "if !ws.control.empty() {", "if false {", "C20.R", "control frames not first"},
	{"C20", "pkg/http2/writesched.go", "\tcase 2:\n\t\tq.s[0] = rest", "\tcase 2:\n\t\t_ = rest\n\t\tq.shift()", "C20.R1", "split frame's rest dropped"},
}

var runWitnesses = runWitnessesImpl

func runWitnessesImpl(res *runResult, prop, repo string) {
	var ws []witness
	for _, w := range witnesses {
		if w.Prop == prop {
			ws = append(ws, w)
		}
	}
	type outcome struct {
		W      witness
		Status string
		Hits   []string
	}
	outs := make([]outcome, len(ws))
	exe, _ := os.Executable()
	tmpdir, _ := os.MkdirTemp("", "fpwit.")
	defer os.RemoveAll(tmpdir)
	var wg sync.WaitGroup
	sem := make(chan struct{}, 8)
	for k, w := range ws {
		k, w := k, w
		wg.Add(1)
		go func() {
			defer wg.Done()
			sem <- struct{}{}
			defer func() { <-sem }()
			outs[k].W = w
			path := filepath.Join(repo, w.File)
			b, err := os.ReadFile(path)
			if err != nil || !strings.Contains(string(b), w.Old) {
				outs[k].Status = "skipped (anchor text not in the current tree)"
				return
			}
			mod := strings.Replace(string(b), w.Old, w.New, 1)
			tf := filepath.Join(tmpdir, fmt.Sprintf("w%d.go", k))
			os.WriteFile(tf, []byte(mod), 0o644)
			cmd := exec.Command(exe, "-property", prop, "-repo", repo, "-no-evidence", "-tier", "quick", "-overlay", path+"="+tf)
			cmd.Env = append(os.Environ(), "VERIF_TIER=quick")
			out, _ := cmd.CombinedOutput()
			killed := false
			for _, ln := range strings.Split(string(out), "\n") {
				if strings.HasPrefix(ln, "WITNESS-HIT ") {
					f := strings.Fields(ln)
					if len(f) >= 3 {
						outs[k].Hits = append(outs[k].Hits, f[2])
						if strings.HasPrefix(f[2], w.Rule) {
							killed = true
						}
					}
				}
				if strings.HasPrefix(ln, "WITNESS-FATAL") {
					outs[k].Status = "not applicable (edited tree does not type-check)"
				}
			}
			if outs[k].Status == "" {
				if killed {
					outs[k].Status = "killed"
				} else if len(outs[k].Hits) > 0 {
					outs[k].Status = "killed by other rules"
				} else {
					outs[k].Status = "SURVIVED"
				}
			}
			sort.Strings(outs[k].Hits)
			outs[k].Hits = uniq(outs[k].Hits)
		}()
	}
	wg.Wait()
	applied, killed, skipped := 0, 0, 0
	var list []map[string]any
	for _, o := range outs {
		switch {
		case strings.HasPrefix(o.Status, "skipped"), strings.HasPrefix(o.Status, "not applicable"):
			skipped++
		default:
			applied++
			if strings.HasPrefix(o.Status, "killed") {
				killed++
			}
		}
		list = append(list, map[string]any{"file": o.W.File, "edit": o.W.What, "expected_rule": o.W.Rule, "status": o.Status, "rules_fired": o.Hits})
		if o.Status == "SURVIVED" {
			fmt.Printf("WARNING: sensitivity witness survived: %s %s (%s)\n", prop, o.W.What, o.W.File)
		}
	}
	res.Extra["witnesses_applied"] = applied
	res.Extra["witnesses_killed"] = killed
	res.Extra["witnesses_skipped"] = skipped
	res.Extra["witnesses"] = list
}
