package main

import (
	"fmt"
	"go/ast"
	"go/token"
	"go/types"
	"os"
	"path/filepath"
	"sort"
	"strings"
)

// Lock wrappers. A new helper of the shape
//
//	func (r *T) withLock(f func()) { r.mu.Lock(); defer r.mu.Unlock(); f() }      (or Lock; f(); Unlock)
//
// called as `x.withLock(func() { BODY })` moves the guarded statements into a function literal of their own; the rules
// and the reviewed tables look for them in the function that holds the lock. The call is rewritten, through the
// loader's overlay, into what it does: `x.mu.Lock(); defer x.mu.Unlock(); BODY` when nothing but a return of plain
// operands follows the call (the deferred unlock then runs where the helper's did), `x.mu.Lock(); BODY; x.mu.Unlock()`
// otherwise. A `return` inside BODY leaves the literal, not the function: BODY is put into a labelled `switch` and the
// return becomes a `break` to its end. Only for literals without parameters and results, helpers that are new,
// unexported, and do nothing else.

type lockWrap struct {
	obj      *types.Func
	recvName string
	lock     string // text of the lock call with the receiver name as written in the helper
	unlock   string
	deferred bool
}

func restoreLockWrappers(c *Ctx, known map[string]bool) (out map[string][]byte, notes []string) {
	defer func() {
		if p := recover(); p != nil {
			out = nil
			notes = append(notes, fmt.Sprintf("expanding lock wrappers abandoned (internal error: %v)", p))
		}
	}()
	inMod := func(path string) bool {
		return (path == modPath || strings.HasPrefix(path, modPath+"/")) && !strings.Contains(path, "/zz_ref_")
	}
	type fileEdits struct {
		file  *ast.File
		edits []textEdit
	}
	perFile := map[string]*fileEdits{}
	seq := 0
	for _, p := range c.Pkgs {
		if !inMod(p.PkgPath) || p.TypesInfo == nil {
			continue
		}
		srcOf := func(f *ast.File) []byte {
			fname := c.Fset.Position(f.Pos()).Filename
			if b := c.Cfg.Overlay[fname]; b != nil {
				return b
			}
			b, _ := os.ReadFile(fname)
			return b
		}
		// the wrappers of this package
		wraps := map[*types.Func]*lockWrap{}
		for _, f := range p.Syntax {
			rel, err := filepath.Rel(c.Cfg.Dir, filepath.Dir(c.Fset.Position(f.Pos()).Filename))
			if err != nil || strings.HasPrefix(rel, "..") {
				continue
			}
			src := srcOf(f)
			tf := c.Fset.File(f.Pos())
			text := func(n ast.Node) string { return string(src[tf.Offset(n.Pos()):tf.Offset(n.End())]) }
			for _, d := range f.Decls {
				fd, ok := d.(*ast.FuncDecl)
				if !ok || fd.Body == nil || known[funcDeclKey(rel, fd)] || fd.Name.IsExported() || fd.Recv == nil || len(fd.Recv.List) != 1 || len(fd.Recv.List[0].Names) != 1 {
					continue
				}
				if fd.Type.Results != nil && len(fd.Type.Results.List) > 0 {
					continue
				}
				if fd.Type.Params == nil || len(fd.Type.Params.List) != 1 || len(fd.Type.Params.List[0].Names) != 1 {
					continue
				}
				ft, ok := fd.Type.Params.List[0].Type.(*ast.FuncType)
				if !ok || (ft.Params != nil && len(ft.Params.List) > 0) || (ft.Results != nil && len(ft.Results.List) > 0) {
					continue
				}
				fname := fd.Type.Params.List[0].Names[0].Name
				rn := fd.Recv.List[0].Names[0].Name
				if len(fd.Body.List) != 3 {
					continue
				}
				lockCall := func(s ast.Stmt, names ...string) (string, bool) {
					es, ok := s.(*ast.ExprStmt)
					if !ok {
						return "", false
					}
					call, ok := es.X.(*ast.CallExpr)
					if !ok || len(call.Args) != 0 {
						return "", false
					}
					sel, ok := call.Fun.(*ast.SelectorExpr)
					if !ok || !simpleOperand(sel.X) {
						return "", false
					}
					for _, n := range names {
						if sel.Sel.Name == n {
							return text(call), true
						}
					}
					return "", false
				}
				isF := func(s ast.Stmt) bool {
					es, ok := s.(*ast.ExprStmt)
					if !ok {
						return false
					}
					call, ok := es.X.(*ast.CallExpr)
					if !ok || len(call.Args) != 0 {
						return false
					}
					id, ok := call.Fun.(*ast.Ident)
					return ok && id.Name == fname
				}
				lk, ok1 := lockCall(fd.Body.List[0], "Lock", "RLock")
				if !ok1 {
					continue
				}
				w := &lockWrap{recvName: rn, lock: lk}
				if ds, isDefer := fd.Body.List[1].(*ast.DeferStmt); isDefer && isF(fd.Body.List[2]) {
					ul, ok := lockCall(&ast.ExprStmt{X: ds.Call}, "Unlock", "RUnlock")
					if !ok {
						continue
					}
					w.unlock, w.deferred = ul, true
				} else if isF(fd.Body.List[1]) {
					ul, ok := lockCall(fd.Body.List[2], "Unlock", "RUnlock")
					if !ok {
						continue
					}
					w.unlock = ul
				} else {
					continue
				}
				if strings.Contains(lk, "RLock") != strings.Contains(w.unlock, "RUnlock") {
					continue
				}
				if obj, _ := p.TypesInfo.Defs[fd.Name].(*types.Func); obj != nil {
					w.obj = obj
					wraps[obj] = w
				}
			}
		}
		if len(wraps) == 0 {
			continue
		}
		// every use must be a call with a function literal, standing as a statement of its own
		uses := map[*types.Func]int{}
		for _, o := range p.TypesInfo.Uses {
			if fo, ok := o.(*types.Func); ok && wraps[fo] != nil {
				uses[fo]++
			}
		}
		handled := map[*types.Func]int{}
		type site struct {
			f     *ast.File
			list  []ast.Stmt
			idx   int
			call  *ast.CallExpr
			w     *lockWrap
			fnEnd bool // statement list is the function's body
		}
		var sites []site
		for _, f := range p.Syntax {
			var walk func(n ast.Node, topBody *ast.BlockStmt)
			walk = func(n ast.Node, topBody *ast.BlockStmt) {
				ast.Inspect(n, func(m ast.Node) bool {
					var list []ast.Stmt
					switch x := m.(type) {
					case *ast.FuncDecl:
						if x.Body != nil && m != n {
							walk(x.Body, x.Body)
							return false
						}
						return true
					case *ast.BlockStmt:
						list = x.List
					case *ast.CaseClause:
						list = x.Body
					case *ast.CommClause:
						list = x.Body
					default:
						return true
					}
					for i, st := range list {
						es, ok := st.(*ast.ExprStmt)
						if !ok {
							continue
						}
						call, ok := es.X.(*ast.CallExpr)
						if !ok || len(call.Args) != 1 {
							continue
						}
						sel, ok := call.Fun.(*ast.SelectorExpr)
						if !ok || !simpleOperand(sel.X) {
							continue
						}
						fo, _ := p.TypesInfo.Uses[sel.Sel].(*types.Func)
						w := wraps[fo]
						if w == nil {
							continue
						}
						if _, isLit := call.Args[0].(*ast.FuncLit); !isLit {
							continue
						}
						bs, _ := m.(*ast.BlockStmt)
						sites = append(sites, site{f, list, i, call, w, bs != nil && bs == topBody})
						handled[fo]++
					}
					return true
				})
			}
			for _, d := range f.Decls {
				if fd, ok := d.(*ast.FuncDecl); ok && fd.Body != nil {
					walk(fd.Body, fd.Body)
				}
			}
		}
		for fo, n := range uses {
			if handled[fo] != n {
				delete(wraps, fo) // used in some other way: leave everything as it is
			}
		}
		for _, s := range sites {
			if wraps[s.w.obj] == nil {
				continue
			}
			src := srcOf(s.f)
			tf := c.Fset.File(s.f.Pos())
			text := func(n ast.Node) string { return string(src[tf.Offset(n.Pos()):tf.Offset(n.End())]) }
			lit := s.call.Args[0].(*ast.FuncLit)
			recv := text(s.call.Fun.(*ast.SelectorExpr).X)
			subst := func(callText string) string { return replaceIdent(callText, s.w.recvName, recv) }
			// returns of the literal (not of literals nested in it)
			var rets []*ast.ReturnStmt
			bad := false
			ast.Inspect(lit.Body, func(m ast.Node) bool {
				switch x := m.(type) {
				case *ast.FuncLit:
					return x == lit
				case *ast.ReturnStmt:
					rets = append(rets, x)
				case *ast.DeferStmt:
					bad = true // would run at the end of the literal
				case *ast.Ident:
					if strings.HasPrefix(x.Name, "__lw_") {
						bad = true
					}
				}
				return true
			})
			if bad {
				continue
			}
			seq++
			label := fmt.Sprintf("__lw_%d", seq)
			// body text with returns turned into breaks
			from, to := tf.Offset(lit.Body.Lbrace)+1, tf.Offset(lit.Body.Rbrace)
			var sb strings.Builder
			at := from
			sort.Slice(rets, func(i, j int) bool { return rets[i].Pos() < rets[j].Pos() })
			for _, r := range rets {
				sb.Write(src[at:tf.Offset(r.Pos())])
				sb.WriteString("break " + label)
				at = tf.Offset(r.End())
			}
			sb.Write(src[at:to])
			body := sb.String()
			if len(rets) > 0 {
				body = label + ":\nswitch {\ndefault:\n" + body + "\n}"
			} else {
				body = "{\n" + body + "\n}"
			}
			// is the call followed by nothing but a return of plain operands (in the function's own statement list)?
			tail := false
			if s.fnEnd {
				rest := s.list[s.idx+1:]
				switch {
				case len(rest) == 0:
					tail = true
				case len(rest) == 1:
					if r, ok := rest[0].(*ast.ReturnStmt); ok {
						tail = true
						for _, e := range r.Results {
							if !simpleOperand(e) {
								tail = false
							}
						}
					}
				}
			}
			var repl string
			if s.w.deferred && tail {
				repl = subst(s.w.lock) + "\ndefer " + subst(s.w.unlock) + "\n" + body
			} else {
				repl = subst(s.w.lock) + "\n" + body + "\n" + subst(s.w.unlock)
			}
			fe := perFile[tf.Name()]
			if fe == nil {
				fe = &fileEdits{file: s.f}
				perFile[tf.Name()] = fe
			}
			st := s.list[s.idx]
			fe.edits = append(fe.edits, textEdit{tf.Offset(st.Pos()), tf.Offset(st.End()), repl})
			notes = append(notes, fmt.Sprintf("call of the new lock wrapper %s at %s replaced by the lock, the statements of its function literal and the unlock", s.w.obj.Name(), c.Pos(st.Pos())))
		}
	}
	if len(perFile) == 0 {
		return nil, nil
	}
	out = map[string][]byte{}
	for fname, fe := range perFile {
		src := c.Cfg.Overlay[fname]
		if src == nil {
			b, err := os.ReadFile(fname)
			if err != nil {
				return nil, []string{"cannot read " + fname}
			}
			src = b
		}
		res, err := applyEdits(src, fe.edits, nil, fe.file, c.Fset)
		if err != nil {
			return nil, []string{fmt.Sprintf("expanding lock wrappers abandoned: %s: %v", fname, err)}
		}
		out[fname] = res
	}
	sort.Strings(notes)
	_ = token.NoPos
	return out, notes
}
