package main

import (
	"os"
	"go/token"
	"strings"

	"golang.org/x/tools/go/ssa"
)

func init() {
	register("C17", false,
		ruleDef{"C17.R1", c17r1},
		ruleDef{"C17.R2", c17r2},
		ruleDef{"C17.R3", c17r3},
		ruleDef{"C17.R4", c17r4},
		ruleDef{"C17.R5", c17r5},
		ruleDef{"C17.R6", c17r6},
	)
}

// shutdownWatcher: the closure started by Serve that waits for the server context.
func shutdownWatcher(r *R) (*ssa.Function, *ssa.Go) {
	c := r.C
	serve, _, _ := serveLoop(r)
	var w *ssa.Function
	var site *ssa.Go
	eachInstr(serve, func(i ssa.Instruction) {
		g, ok := i.(*ssa.Go)
		if !ok {
			return
		}
		f := staticCallee(&g.Call)
		if f == nil || f.Parent() != serve {
			return
		}
		eachInstr(f, func(j ssa.Instruction) {
			if u, ok := j.(*ssa.UnOp); ok && u.Op == token.ARROW && c.Expr(u) == "recv((context.Context).Done(outer(p0).ctx))" {
				w, site = f, g
			}
		})
	})
	r.need(w != nil, "Serve starts no goroutine waiting on server.ctx.Done()")
	return w, site
}

func c17r1(r *R) {
	c := r.C
	serve, goStmt, _ := serveLoop(r)
	w, site := shutdownWatcher(r)
	o := r.Ob("C17.R1", "watcher-order:"+funcName(w)).At(w.Pos())
	var recv, store, shut, lnClose ssa.Instruction
	eachInstr(w, func(i ssa.Instruction) {
		switch {
		case isCall(i, "(*sync/atomic.Bool).Store"):
			a := callOf(i).Args
			if c.Expr(a[0]) == "outer(p0).inShutdown" && c.Expr(a[1]) == "true" {
				store = i
			}
		case isCall(i, "sync/atomic.StoreUint32", "sync/atomic.StoreInt32"):
			// the flag kept as a plain word set through sync/atomic: non-zero is "shutting down"
			a := callOf(i).Args
			if k, isC := constInt(a[1]); c.Expr(a[0]) == "outer(p0).inShutdown" && isC && k != 0 {
				store = i
			}
		case isCall(i, "(*net/http.Server).Shutdown"):
			if c.Expr(callOf(i).Args[0]) == "outer(p0).HTTPServer" {
				shut = i
			}
		case isCall(i, "(*net/http.Server).Close"):
			o.AtI(i).Fail("the watcher calls HTTPServer.Close(), which drops in-flight HTTP/1.1 exchanges instead of draining them (Shutdown)")
		case isCall(i, "(net.Listener).Close"):
			if c.Expr(callOf(i).Value) == "outer(p1)" {
				lnClose = i
			}
		}
		if u, ok := i.(*ssa.UnOp); ok && u.Op == token.ARROW && c.Expr(u) == "recv((context.Context).Done(outer(p0).ctx))" {
			recv = i
		}
	})
	if o.Check(recv != nil && store != nil && shut != nil && lnClose != nil, "watcher lacks one of: wait for ctx.Done (%v), inShutdown.Store(true) (%v), HTTPServer.Shutdown (%v), ln.Close (%v)", recv != nil, store != nil, shut != nil, lnClose != nil) {
		o.AtI(recv, store, shut, lnClose)
		o.Check(instrDominates(recv, store), "inShutdown is set before the context is done")
		// the drain runs under a context that is still live: Shutdown gives up at its first look at a done context, and
		// this goroutine gets here only once server.ctx is done
		if a := callOf(shut).Args; len(a) >= 2 {
			ce := c.Expr(a[1])
			live := ce == "context.Background()" || ce == "context.TODO()" || strings.HasPrefix(ce, "context.WithoutCancel(") ||
				((strings.HasPrefix(ce, "context.WithTimeout(context.Background(), ") || strings.HasPrefix(ce, "context.WithDeadline(context.Background(), ")) && strings.HasSuffix(ce, "#0"))
			o.Check(live, "HTTPServer.Shutdown is given the context %s: it must not be done already (the server's own context is, at this point), or Shutdown returns at once and Serve reports 'closed' with HTTP/1.1 exchanges still in flight", ce)
		}
		o.Check(instrDominates(store, lnClose), "the listener is closed before inShutdown is set: the accept loop would return the raw accept error instead of ErrServerClosed")
		o.Check(instrDominates(store, shut), "the HTTP/1.1 server is shut down before inShutdown is set: serveHTTP1 would cancel the server context as if the HTTP server died")
		o.Check(instrDominates(shut, lnClose), "the listener is closed before the HTTP/1.1 server has drained: Serve would return while exchanges are still in flight")
		for _, x := range []ssa.Instruction{store, shut, lnClose} {
			o.Check(len(guardsOf(x.Block())) == 0, "watcher step at %s is conditional", c.Pos(instrPos(x)))
		}
		// all on every path to return
		for _, x := range []ssa.Instruction{store, shut, lnClose} {
			x := x
			p := c.escapePath(w, nil, func(i ssa.Instruction) bool { return i == x }, isReturn)
			o.Check(p == nil, "watcher can return without %s", shortInstr(x))
		}
	}
	// the watcher is started before the accept loop, unconditionally after setup
	o.Check(instrDominates(site, goStmt), "the shutdown watcher is not started before connections are accepted")
	_ = serve
	// HTTP/2 connections are not waited for: nothing in the watcher touches HTTP2Server (documented, not a violation)
}

func c17r2(r *R) {
	c := r.C
	serve, _, _ := serveLoop(r)
	o := r.Ob("C17.R2", "accept-error-mapping:"+funcName(serve)).At(serve.Pos())
	n := 0
	eachInstr(serve, func(i ssa.Instruction) {
		ret, ok := i.(*ssa.Return)
		if !ok {
			return
		}
		// one case per value the result can have here (a result chosen inside the loop and returned after it reads like
		// a return inside the loop)
		for _, vc := range c.valueCases(retValue(ret, 0), i.Block()) {
			gs := vc.Guards
			if !hasGuard(gs, "+((net.Listener).Accept(p1)#1 != nil)") {
				continue
			}
			n++
			o.AtI(i)
			e := vc.E
			if hasGuard(gs, "+(*proxyserver.Server).shuttingDown(p0)") {
				o.Check(e == "http.ErrServerClosed", "on the shutdown edge Serve returns %s, want http.ErrServerClosed", e)
			} else if hasGuard(gs, "-(*proxyserver.Server).shuttingDown(p0)") {
				o.Check(e == "(net.Listener).Accept(p1)#1", "outside shutdown Serve returns %s, want the accept error", e)
			} else {
				o.Fail("accept-error return is not decided by shuttingDown(); guards %v", gs)
			}
		}
	})
	o.Check(n == 2, "expected two returns on the accept-error edge (shutdown / not shutdown), found %d", n)
	// the loop has no other exit
	eachInstr(serve, func(i ssa.Instruction) {
		if ret, ok := i.(*ssa.Return); ok && inLoopRegion(serve, i) {
			gs := c.guardStrs(i.Block())
			if !hasGuard(gs, "+((net.Listener).Accept(p1)#1 != nil)") {
				o.AtI(ret).Fail("Serve returns from the accept loop on a non-error edge; guards %v", gs)
			}
		}
	})
	// 'server closed' is reported with the listening socket closed: every return of that value runs the deferred (or a
	// direct) ln.Close()
	var closers []ssa.Instruction
	eachInstr(serve, func(i ssa.Instruction) {
		if d, ok := i.(*ssa.Defer); ok && calleeName(&d.Call) == "(net.Listener).Close" && c.Expr(d.Call.Value) == "p1" {
			closers = append(closers, i)
		}
		// `defer func() { ln.Close() }()`: the deferred literal closes the listener on every path through it
		if d, ok := i.(*ssa.Defer); ok {
			if D := staticCallee(&d.Call); D != nil && D.Parent() == serve {
				isClose := func(j ssa.Instruction) bool {
					return isCall(j, "(net.Listener).Close") && c.Expr(callOf(j).Value) == "outer(p1)"
				}
				if len(D.Blocks) > 0 && c.escapePath(D, nil, isClose, isReturn) == nil {
					n := 0
					eachInstr(D, func(j ssa.Instruction) {
						if isClose(j) {
							n++
						}
					})
					if n > 0 {
						closers = append(closers, i)
					}
				}
			}
		}
		if isCall(i, "(net.Listener).Close") {
			if _, isDefer := i.(*ssa.Defer); !isDefer && c.Expr(callOf(i).Value) == "p1" {
				closers = append(closers, i)
			}
		}
	})
	o4 := r.Ob("C17.R2", "closed-means-listener-closed:"+funcName(serve)).At(serve.Pos())
	eachInstr(serve, func(i ssa.Instruction) {
		ret, ok := i.(*ssa.Return)
		if !ok {
			return
		}
		for _, vc := range c.valueCases(retValue(ret, 0), i.Block()) {
			if vc.E != "http.ErrServerClosed" {
				continue
			}
			dom := false
			for _, cl := range closers {
				if instrDominates(cl, i) {
					dom = true
				}
			}
			o4.AtI(i).Check(dom, "Serve returns http.ErrServerClosed on a path that has neither deferred nor called ln.Close(): the socket keeps accepting TCP connections nobody serves")
		}
	})
	sd := c.Method("pkg/proxyserver", "Server", "shuttingDown")
	r.need(sd != nil, "shuttingDown not found")
	o2 := r.Ob("C17.R2", "shuttingDown-reads-flag").At(sd.Pos())
	eachInstr(sd, func(i ssa.Instruction) {
		if ret, ok := i.(*ssa.Return); ok {
			e := c.Expr(ret.Results[0])
			o2.Check(e == "(*sync/atomic.Bool).Load(p0.inShutdown)" || e == "(0 != sync/atomic.LoadUint32(p0.inShutdown))" || e == "(0 != sync/atomic.LoadInt32(p0.inShutdown))", "shuttingDown returns %s", e)
		}
	})
	// inShutdown is only ever set to true, only by the watcher
	o3 := r.Ob("C17.R2", "inShutdown-writers")
	for _, fn := range c.FuncsIn("pkg/proxyserver") {
		for _, s := range callsIn(fn, "(*sync/atomic.Bool).Store", "(*sync/atomic.Bool).Swap", "(*sync/atomic.Bool).CompareAndSwap") {
			if strings.HasSuffix(c.Expr(callOf(s).Args[0]), ".inShutdown") {
				o3.AtI(s)
				o3.Check(c.Expr(callOf(s).Args[1]) == "true" && fn.Parent() != nil, "inShutdown is written with %s in %s", c.Expr(callOf(s).Args[1]), funcName(fn))
			}
		}
		for _, s := range callsIn(fn, "sync/atomic.StoreUint32", "sync/atomic.StoreInt32", "sync/atomic.SwapUint32", "sync/atomic.CompareAndSwapUint32", "sync/atomic.AddUint32") {
			if strings.HasSuffix(c.Expr(callOf(s).Args[0]), ".inShutdown") {
				o3.AtI(s)
				k, isC := constInt(callOf(s).Args[len(callOf(s).Args)-1])
				o3.Check(isC && k != 0 && fn.Parent() != nil && !isCall(s, "sync/atomic.AddUint32"), "inShutdown is written with %s in %s", c.Expr(callOf(s).Args[len(callOf(s).Args)-1]), funcName(fn))
			}
		}
	}
}

// retExpr renders result k of a return, resolving loads of a named-result cell to the value stored in the same block.
// retValue: the k-th result of ret, looking through the spill a function with deferred calls goes through
// (`*res = v; rundefers; return *res`) and refined to the one value it can have in the return block.
func retValue(ret *ssa.Return, k int) ssa.Value {
	v := ret.Results[k]
	if u, ok := v.(*ssa.UnOp); ok && u.Op == token.MUL {
		if al, ok := u.X.(*ssa.Alloc); ok {
			var last ssa.Value
			for _, i := range ret.Block().Instrs {
				if st, ok := i.(*ssa.Store); ok && st.Addr == ssa.Value(al) {
					last = st.Val
				}
			}
			if last != nil {
				v = last
			}
		}
	}
	return refineAt(v, ret.Block())
}

func retExpr(c *Ctx, ret *ssa.Return, k int) string { return c.Expr(retValue(ret, k)) }

func inLoopRegion(fn *ssa.Function, i ssa.Instruction) bool {
	// block reachable from a loop block
	for _, b := range fn.Blocks {
		if inLoop(b) && (b == i.Block() || reachesAfter(b.Instrs[len(b.Instrs)-1], i)) {
			return true
		}
	}
	return false
}

func c17r3(r *R) {
	// handshakes die with the server context: shared with C11.R3 (every HandshakeContext gets a context derived from server.ctx)
	c := r.C
	n := 0
	for _, fn := range c.FuncsIn(appPkgs...) {
		for _, s := range callsIn(fn, "(*crypto/tls.Conn).HandshakeContext") {
			for _, vc := range c.valueCases(callOf(s).Args[1], s.Block()) {
				n++
				e := vc.E
				o := r.Ob("C17.R3", "handshake-under-server-context:"+funcName(fn)+":"+e).AtI(s)
				o.Check(e == "p0.ctx" || strings.HasPrefix(e, "context.WithTimeout(p0.ctx, ") || strings.HasPrefix(e, "context.WithDeadline(p0.ctx, ") || strings.HasPrefix(e, "context.WithCancel(p0.ctx)"),
					"handshake context %s is not derived from the server context: a connection accepted around cancellation would still be served", e)
			}
		}
		for _, s := range callsIn(fn, "(*crypto/tls.Conn).Handshake") {
			r.Ob("C17.R3", "handshake-without-context:"+funcName(fn)).AtI(s).Fail("Handshake() ignores server shutdown")
		}
	}
	r.Ob("C17.R3", "instances").Check(n >= 2, "expected >= 2 HandshakeContext cases, found %d", n)
}

func c17r4(r *R) {
	c := r.C
	acc := c.Method("pkg/hack", "ChannelListener", "Accept")
	r.need(acc != nil, "ChannelListener.Accept not found")
	o := r.Ob("C17.R4", "channel-listener-accept:"+funcName(acc)).At(acc.Pos())
	ops := chanOpsIn(c, acc)
	if o.Check(len(ops) == 1 && ops[0].Kind == "select", "Accept is not a single select (found %d channel operations)", len(ops)) {
		o.AtI(ops[0].Instr)
		o.Check(strings.Contains(ops[0].Desc, "recv (context.Context).Done(p0.context)") && strings.Contains(ops[0].Desc, "recv p0.channel"), "Accept selects on %s, want the listener context and the hand-off channel", ops[0].Desc)
	}
	// the Done edge returns an error (so http.Server.Serve ends)
	eachInstr(acc, func(i ssa.Instruction) {
		if ret, ok := i.(*ssa.Return); ok {
			e0, e1 := c.Expr(ret.Results[0]), c.Expr(ret.Results[1])
			o.Check((e0 == "nil") != (e1 == "nil"), "Accept returns (%s, %s)", e0, e1)
			// a connection received from the hand-off channel is what Accept returns, with no error
			if gsr := c.guardStrs(i.Block()); hasGuard(gsr, "+select1#1") {
				o.AtI(i).Check(strings.HasPrefix(e0, "select1#") && e1 == "nil", "with a connection received from the hand-off channel Accept returns (%s, %s), want (the connection, nil): the HTTP/1.1 server would stop at the first connection", e0, e1)
			} else if e1 == "nil" && (hasGuard(gsr, "-select1#1") || hasGuard(gsr, "+(0 == select1#0)")) {
				o.AtI(i).Fail("Accept returns %s without an error although nothing was received (conditions %v)", e0, gsr)
			}
			if os.Getenv("FPCHECK_DEBUG_C17") != "" {
				println("C17 accept return:", e0, "|", e1, "|", strings.Join(c.guardStrs(i.Block()), " ; "))
			}
			// the error of the Done edge is what serveHTTP1 recognises as a regular end (errors.Is(err, context.Canceled)):
			// the context's own Err(), not its cause or a fresh error, otherwise serveHTTP1 panics on shutdown
			if gs := c.guardStrs(i.Block()); hasGuard(gs, "+(0 == select1#0)") {
				o.AtI(i).Check(e1 == "(context.Context).Err(p0.context)" || e1 == "context.Canceled", "on cancellation Accept returns the error %s; serveHTTP1 only treats context.Canceled (the listener context's Err()) and http.ErrServerClosed as a regular end and panics on anything else", e1)
			} else if e1 != "nil" {
				// the other error edge (hand-off channel closed) must be unreachable: nobody closes that channel
				for _, fn := range c.FuncsIn(appPkgs...) {
					eachInstr(fn, func(j ssa.Instruction) {
						if cc := callOf(j); cc != nil {
							if b, ok := cc.Value.(*ssa.Builtin); ok && b.Name() == "close" && strings.HasSuffix(c.Expr(cc.Args[0]), ".channel") {
								o.AtI(j).Fail("the hand-off channel is closed in %s: Accept then returns %s, which serveHTTP1 answers with a panic", funcName(fn), e1)
							}
						}
					})
				}
			}
		}
	})
	ncl := c.Func("pkg/hack", "NewChannelListener")
	r.need(ncl != nil, "NewChannelListener not found")
	o2 := r.Ob("C17.R4", "listener-context-derives-from-parameter:"+funcName(ncl)).At(ncl.Pos())
	cl := c.Named("pkg/hack", "ChannelListener")
	okCtx, okStop := false, false
	for _, a := range fieldAccesses(c.FuncsIn("pkg/hack"), cl, "context") {
		if a.Kind == "write" {
			e := c.Expr(a.Instr.(*ssa.Store).Val)
			o2.AtI(a.Instr)
			okCtx = o2.Check(e == "context.WithCancel(p0)#0" && a.Fn == ncl, "listener context is %s (in %s), want context.WithCancel(ctx)#0", e, funcName(a.Fn))
		}
	}
	for _, a := range fieldAccesses(c.FuncsIn("pkg/hack"), cl, "stop") {
		if a.Kind == "write" {
			e := c.Expr(a.Instr.(*ssa.Store).Val)
			okStop = o2.Check(e == "context.WithCancel(p0)#1", "listener stop func is %s", e)
		}
	}
	o2.Check(okCtx && okStop, "listener context/stop are not both initialised from context.WithCancel(ctx)")
	handoffUnbuffered(r, "C17.R4")
	// channel is unbuffered-or-not is irrelevant; setupServe passes server.ctx
	setup := c.Method("pkg/proxyserver", "Server", "setupServe")
	r.need(setup != nil, "setupServe not found")
	o3 := r.Ob("C17.R4", "listener-gets-server-context").At(setup.Pos())
	n := 0
	for _, s := range callsIn(setup, "hack.NewChannelListener") {
		n++
		o3.AtI(s).Check(c.Expr(callOf(s).Args[0]) == "p0.ctx", "NewChannelListener is given %s, want server.ctx", c.Expr(callOf(s).Args[0]))
	}
	o3.Check(n == 1, "expected one NewChannelListener call in setupServe, found %d", n)
	cls := c.Method("pkg/hack", "ChannelListener", "Close")
	r.need(cls != nil, "ChannelListener.Close not found")
	o4 := r.Ob("C17.R4", "listener-close-cancels").At(cls.Pos())
	p := c.escapePath(cls, nil, func(i ssa.Instruction) bool {
		cc := callOf(i)
		return cc != nil && calleeName(cc) == "" && c.Expr(cc.Value) == "p0.stop"
	}, isReturn)
	o4.Check(p == nil, "ChannelListener.Close does not cancel the listener context on every path")
	// hand-off has an exit on that context (D6)
	snd := c.Method("pkg/hack", "ChannelListener", "SendToChannel")
	r.need(snd != nil, "SendToChannel not found")
	o5 := r.Ob("C17.R4", "handoff-aborts-on-shutdown:"+funcName(snd)).At(snd.Pos())
	sops := chanOpsIn(c, snd)
	if o5.Check(len(sops) == 1, "SendToChannel has %d channel operations", len(sops)) {
		o5.AtI(sops[0].Instr)
		o5.Check(sops[0].Kind == "select" && strings.Contains(sops[0].Desc, "recv (context.Context).Done(p0.context)") && strings.Contains(sops[0].Desc, "send p0.channel"),
			"the hand-off to the HTTP/1.1 server is a bare %s on %s: after shutdown nobody receives and the per-connection goroutine is stranded with its connection open", sops[0].Kind, sops[0].Desc)
		// on the abort edge the connection is closed
		if sel, ok := sops[0].Instr.(*ssa.Select); ok {
			closed := false
			for _, s := range callsIn(snd, "(net.Conn).Close") {
				if c.Expr(callOf(s).Value) == "p1" {
					closed = true
					o5.AtI(s)
				}
			}
			_ = sel
			o5.Check(closed, "on the shutdown edge the handed-off connection is not closed (the waiting serveConn would never finish)")
		}
	}
}

func c17r5(r *R) {
	c := r.C
	h1 := c.Method("pkg/proxyserver", "Server", "serveHTTP1")
	r.need(h1 != nil, "serveHTTP1 not found")
	o := r.Ob("C17.R5", "serveHTTP1-exits:"+funcName(h1)).At(h1.Pos())
	serveCalls := callsIn(h1, "(*net/http.Server).Serve")
	if !o.Check(len(serveCalls) == 1, "expected one HTTPServer.Serve call") {
		return
	}
	errE := c.Expr(serveCalls[0].(ssa.Value))
	o.Check(errE == "(*net/http.Server).Serve(p0.HTTPServer, p0.http1ConnChannelListener)", "serveHTTP1 serves %s", errE)
	isCanceled := "errors.Is(" + errE + ", context.Canceled)"
	isClosed := "errors.Is(" + errE + ", http.ErrServerClosed)"
	np := 0
	eachInstr(h1, func(i ssa.Instruction) {
		gs := c.guardStrs(i.Block())
		switch x := i.(type) {
		case *ssa.Panic:
			np++
			o.AtI(i)
			o.Check(hasGuard(gs, "-"+isCanceled) && hasGuard(gs, "-"+isClosed), "panic is reachable although the Serve error is one of the two expected ones; guards %v", gs)
		case *ssa.Call:
			if calleeName(&x.Call) == "" && c.Expr(x.Call.Value) == "p0.ctxCancel" {
				o.AtI(i)
				o.Check(hasGuard(gs, "+"+isClosed) && hasGuard(gs, "-(*proxyserver.Server).shuttingDown(p0)"), "ctxCancel is called outside the (ErrServerClosed && !shuttingDown) edge; guards %v", gs)
			}
		case *ssa.Return:
			if len(gs) > 0 {
				o.Check(hasGuard(gs, "+"+isCanceled) || hasGuard(gs, "+"+isClosed), "serveHTTP1 returns silently on an unexpected error; guards %v", gs)
			}
		}
	})
	o.Check(np <= 1, "serveHTTP1 has %d panic sites", np)
}

func c17r6(r *R) {
	c := r.C
	ns := c.Func("pkg/proxyserver", "NewServer")
	r.need(ns != nil, "NewServer not found")
	o := r.Ob("C17.R6", "server-context-from-parameter:"+funcName(ns)).At(ns.Pos())
	srv := c.Named("pkg/proxyserver", "Server")
	okc, okx := false, false
	for _, a := range fieldAccesses([]*ssa.Function{ns}, srv, "ctx") {
		if a.Kind == "write" {
			o.AtI(a.Instr)
			okc = o.Check(c.Expr(a.Instr.(*ssa.Store).Val) == "context.WithCancel(p0)#0", "server.ctx is %s, want context.WithCancel(ctx)#0", c.Expr(a.Instr.(*ssa.Store).Val))
		}
	}
	for _, a := range fieldAccesses([]*ssa.Function{ns}, srv, "ctxCancel") {
		if a.Kind == "write" {
			okx = o.Check(c.Expr(a.Instr.(*ssa.Store).Val) == "context.WithCancel(p0)#1", "server.ctxCancel is %s", c.Expr(a.Instr.(*ssa.Store).Val))
		}
	}
	o.Check(okc && okx, "NewServer does not derive ctx/ctxCancel from its context parameter")
	// ctx is written nowhere else except the nil-default in setupServe
	for _, a := range fieldAccesses(c.FuncsIn("pkg/proxyserver"), srv, "ctx") {
		if a.Kind == "write" && a.Fn != ns {
			gs := c.guardStrs(a.Instr.Block())
			o.AtI(a.Instr).Check(hasGuard(gs, "+(nil == p0.ctx)"), "server.ctx is overwritten in %s; guards %v", funcName(a.Fn), gs)
		}
	}
	run := c.Func("", "Run")
	r.need(run != nil, "Run not found")
	o2 := r.Ob("C17.R6", "signals-cancel-context:"+funcName(run)).At(run.Pos())
	found := false
	for _, s := range callsIn(run, "os/signal.NotifyContext") {
		found = true
		o2.AtI(s)
		sigs := variadicElems(callOf(s).Args[1])
		var names []string
		for _, sg := range sigs {
			names = append(names, c.Expr(sg))
		}
		j := strings.Join(names, ",")
		o2.Check(strings.Contains(j, "2") && strings.Contains(j, "15"), "NotifyContext listens for signals %s, want SIGINT(2) and SIGTERM(15)", j)
		// the registration stays in force for the whole shutdown: its stop function is dropped or deferred to Run's
		// exit, never called or scheduled earlier (after the first signal a second one would otherwise kill the
		// process in the middle of the drain)
		if tup, ok := s.(ssa.Value); ok && tup.Referrers() != nil {
			for _, ref := range *tup.Referrers() {
				ex, isEx := ref.(*ssa.Extract)
				if !isEx || ex.Index != 1 || ex.Referrers() == nil {
					continue
				}
				for _, u := range *ex.Referrers() {
					switch x := u.(type) {
					case *ssa.Defer:
						o2.AtI(u).Check(x.Call.Value == ssa.Value(ex), "the signal registration's stop function is passed to a deferred call")
					case *ssa.DebugRef:
					default:
						o2.AtI(u).Fail("the signal registration's stop function is used before Run returns (%s): once it runs, SIGINT/SIGTERM regain their default action and a repeated signal terminates the process during the graceful shutdown", shortInstr(u))
					}
				}
			}
		}
	}
	o2.Check(found, "Run does not derive its context from signal.NotifyContext")
	for _, s := range callsIn(run, "fingerproxy.defaultProxyServer") {
		o2.AtI(s).Check(strings.HasPrefix(c.Expr(callOf(s).Args[0]), "os/signal.NotifyContext(context.Background(), [") && strings.HasSuffix(c.Expr(callOf(s).Args[0]), "])#0"), "the proxy server gets context %s", c.Expr(callOf(s).Args[0]))
	}
	dps := c.Func("", "defaultProxyServer")
	r.need(dps != nil, "defaultProxyServer not found")
	for _, s := range callsIn(dps, "proxyserver.NewServer") {
		o2.AtI(s).Check(c.Expr(callOf(s).Args[0]) == "p0", "NewServer gets context %s", c.Expr(callOf(s).Args[0]))
	}
}

// handoffUnbuffered: the channel between serveConn and the internal HTTP/1.1 server's Accept is unbuffered: a completed send then
// means the HTTP/1.1 server has the connection (and will close it); with a buffer a send can succeed after shutdown and the
// connection sits in the buffer forever (never closed, never counted).
func handoffUnbuffered(r *R, rule string) {
	c := r.C
	cl := c.Named("pkg/hack", "ChannelListener")
	r.need(cl != nil, "hack.ChannelListener not found")
	o := r.Ob(rule, "handoff-channel-unbuffered")
	nch := 0
	for _, a := range fieldAccesses(c.FuncsIn("pkg/hack"), cl, "channel") {
		if a.Kind == "write" {
			nch++
			e := c.Expr(a.Instr.(*ssa.Store).Val)
			o.AtI(a.Instr).Check(e == "make(chan net.Conn,0)", "the hand-off channel is %s, want an unbuffered channel (rendez-vous with the HTTP/1.1 server's Accept)", e)
		}
	}
	o.Check(nch == 1, "the hand-off channel is initialised at %d sites", nch)
}
