package main

import (
	"go/types"
	"sort"
	"strings"

	"golang.org/x/tools/go/ssa"
)

func init() {
	register("C06", false,
		ruleDef{"C06.R1", c06r1},
		ruleDef{"C06.R2", c06r2},
		ruleDef{"C06.R3", c06r3},
		ruleDef{"C06.R4", c06r4},
		ruleDef{"C06.R5", c06r5},
		ruleDef{"C06.R6", c06r6},
		ruleDef{"C06.R7", c06r7},
		// what is recorded for a connection depends on that connection's frames and nothing else (a process-wide budget or
		// cache in front of the capture makes one connection's fingerprint depend on another's traffic)
		ruleDef{"C03.R1", c03r1},
		// the value forwarded is computed from this request's record on each request (a cache keyed by anything but the connection would serve another connection's value)
		ruleDef{"C06.R8", func(r *R) { injectedValueProvenance(r, "C06.R8") }},
	)
}

// mdType: does type t contain (by value, pointer, slice, array, map, chan or struct field) the connection record?
func containsMetadata(t types.Type, depth int) bool {
	if depth > 6 || t == nil {
		return false
	}
	if n := namedOf(t); n != nil && n.Obj().Pkg() != nil && n.Obj().Pkg().Path() == modPath+"/pkg/metadata" {
		switch n.Obj().Name() {
		case "Metadata", "HTTP2FingerprintingFrames":
			return true
		}
	}
	switch u := t.Underlying().(type) {
	case *types.Pointer:
		return containsMetadata(u.Elem(), depth+1)
	case *types.Slice:
		return containsMetadata(u.Elem(), depth+1)
	case *types.Array:
		return containsMetadata(u.Elem(), depth+1)
	case *types.Map:
		return containsMetadata(u.Elem(), depth+1) || containsMetadata(u.Key(), depth+1)
	case *types.Chan:
		return containsMetadata(u.Elem(), depth+1)
	case *types.Struct:
		if n := namedOf(t); n != nil && n.Obj().Pkg() != nil && !strings.HasPrefix(n.Obj().Pkg().Path(), modPath) {
			return false
		}
		for i := 0; i < u.NumFields(); i++ {
			if containsMetadata(u.Field(i).Type(), depth+1) {
				return true
			}
		}
	}
	return false
}

func c06r1(r *R) {
	c := r.C
	nc := c.Func("pkg/metadata", "NewContext")
	r.need(nc != nil, "metadata.NewContext not found")
	o := r.Ob("C06.R1", "fresh-record:"+funcName(nc)).At(nc.Pos())
	eachInstr(nc, func(i ssa.Instruction) {
		ret, ok := i.(*ssa.Return)
		if !ok {
			return
		}
		o.AtI(i)
		md := ret.Results[1]
		al, isAlloc := md.(*ssa.Alloc)
		o.Check(isAlloc && al.Heap && typeName(al.Type()) == "*metadata.Metadata", "NewContext returns %s as the record, want a Metadata allocated in this call (not a global, a pooled or a cached object)", c.Expr(md))
		ce := c.Expr(ret.Results[0])
		o.Check(strings.HasPrefix(ce, "context.WithValue(p0, metadata.FingerproxyContextKey, &"), "NewContext returns context %s, want context.WithValue(ctx, FingerproxyContextKey, <the fresh record>)", ce)
		if call, ok := ret.Results[0].(*ssa.Call); ok && len(call.Call.Args) == 3 {
			o.Check(unwrapIface(call.Call.Args[2]) == md, "the record stored in the context is not the record returned")
		}
	})
	// the fresh record is not initialised from anything shared
	eachInstr(nc, func(i ssa.Instruction) {
		if st, ok := i.(*ssa.Store); ok {
			o.AtI(i).Fail("NewContext pre-populates the record from %s", c.Expr(st.Val))
		}
	})
	// no other allocation / copy source of Metadata in product code
	n := 0
	for _, fn := range c.Product() {
		eachInstr(fn, func(i ssa.Instruction) {
			if al, ok := i.(*ssa.Alloc); ok && namedOf(al.Type()) != nil && typeName(deref(al.Type())) == "metadata.Metadata" {
				n++
				r.Ob("C06.R1", "alloc-site:"+funcName(fn)).AtI(i).Check(fn == nc, "a connection record is allocated outside metadata.NewContext, in %s", funcName(fn))
			}
		})
	}
	r.Ob("C06.R1", "instances").Check(n == 1, "expected exactly one allocation site of metadata.Metadata in product code, found %d", n)
	// FromContext returns what the innermost WithValue stored
	fc := c.Func("pkg/metadata", "FromContext")
	r.need(fc != nil, "FromContext not found")
	o2 := r.Ob("C06.R1", "lookup:"+funcName(fc)).At(fc.Pos())
	stored := "(context.Context).Value(p0, metadata.FingerproxyContextKey)"
	nret := 0
	for _, ra := range c.returnAlts(fc, 0) {
		nret++
		o2.AtI(ra.Ret)
		switch {
		case ra.E == "assert[*metadata.Metadata]("+stored+")#0":
		case ra.E == "nil":
			// nothing (or something else) is stored under the key
			o2.Check(relHolds(ra.Lits, stored, "==", "nil") || hasGuard(ra.Lits, "-assert[*metadata.Metadata]("+stored+")#1"), "FromContext returns nil under %v although a record is stored in the context", ra.Lits)
		default:
			o2.Fail("FromContext returns %s", ra.E)
		}
	}
	o2.Check(nret > 0, "FromContext has no return")
	key := c.Global("pkg/metadata", "FingerproxyContextKey")
	if o2.Check(key != nil, "context key not found") {
		for _, w := range globalWriters(c.FuncsIn(), key) {
			o2.AtI(w.Instr).Check(isInitFn(w.Fn), "the context key is reassigned in %s", funcName(w.Fn))
		}
	}
	r.assume("S6: context.WithValue lookups return the innermost value for a key")
}

func c06r2(r *R) {
	c := r.C
	nStores, nIface := 0, 0
	for _, fn := range c.Product() {
		eachInstr(fn, func(i ssa.Instruction) {
			switch x := i.(type) {
			case *ssa.Store:
				if ve := c.Expr(x.Val); strings.Contains(ve, "metadata.NewContext(") || strings.Contains(ve, "metadata.FromContext(") {
					// the per-connection context / record reference, whatever its static type: may only go into objects created in this activation
					root := addrRoot(x.Addr)
					al, fresh := root.(*ssa.Alloc)
					if !(fresh && (al.Parent() == fn)) && !strings.HasPrefix(c.Expr(x.Addr), "metadata.NewContext(") && !strings.HasPrefix(c.Expr(x.Addr), "metadata.FromContext(") {
						nStores++
						r.Ob("C06.R2", "ctx-store:"+funcName(fn)+":"+c.Expr(x.Addr)).AtI(i).Fail(
							"the per-connection context/record %s is stored into %s, an object that is not created by this activation of %s: concurrent connections would overwrite each other's context and be served with another connection's fingerprints", ve, c.Expr(x.Addr), funcName(fn))
					}
				}
				if !containsMetadata(x.Val.Type(), 0) {
					return
				}
				// storing *into* the record's own fields is not sharing; we look at where a record reference is put
				if _, ptr := x.Val.Type().Underlying().(*types.Pointer); !ptr {
					if _, isStruct := x.Val.Type().Underlying().(*types.Struct); isStruct {
						return
					}
				}
				nStores++
				root := addrRoot(x.Addr)
				o := r.Ob("C06.R2", "store:"+funcName(fn)+":"+c.Expr(x.Addr)).AtI(i)
				if al, ok := root.(*ssa.Alloc); ok && !al.Heap {
					o.OK("local variable")
					return
				}
				if al, ok := root.(*ssa.Alloc); ok && al.Heap && isLocalCell(al) {
					o.OK("captured local variable")
					return
				}
				o.Fail("a reference to a connection record (%s) is stored into %s in %s: shared storage is how one connection's fingerprint data reaches another", typeName(x.Val.Type()), c.Expr(x.Addr), funcName(fn))
			case *ssa.MapUpdate:
				if strings.Contains(c.Expr(x.Value), "metadata.NewContext(") {
					r.Ob("C06.R2", "ctx-map:"+funcName(fn)+":"+c.Expr(x.Map)).AtI(i).Fail("a per-connection context (%s) is put into map %s", c.Expr(x.Value), c.Expr(x.Map))
				}
				if containsMetadata(x.Value.Type(), 0) || containsMetadata(x.Key.Type(), 0) {
					nStores++
					r.Ob("C06.R2", "map:"+funcName(fn)+":"+c.Expr(x.Map)).AtI(i).Fail("a connection record is put into map %s in %s", c.Expr(x.Map), funcName(fn))
				}
			case *ssa.Send:
				if containsMetadata(x.X.Type(), 0) {
					nStores++
					r.Ob("C06.R2", "send:"+funcName(fn)).AtI(i).Fail("a connection record is sent on channel %s in %s", c.Expr(x.Chan), funcName(fn))
				}
			case *ssa.MakeInterface:
				if !containsMetadata(x.X.Type(), 0) {
					return
				}
				nIface++
				o := r.Ob("C06.R2", "to-interface:"+funcName(fn)).AtI(i)
				// allowed sinks: context.WithValue(…, md) and log formatting varargs
				for _, ref := range *x.Referrers() {
					switch u := ref.(type) {
					case *ssa.Call:
						n := calleeName(&u.Call)
						o.Check(n == "context.WithValue", "a connection record is passed as interface value to %s", n)
					case *ssa.Store:
						if ia, ok := u.Addr.(*ssa.IndexAddr); ok {
							if al, ok := ia.X.(*ssa.Alloc); ok && al.Comment == "varargs" {
								continue
							}
						}
						o.Fail("a connection record converted to an interface is stored at %s", c.Expr(u.Addr))
					case *ssa.DebugRef:
					default:
						o.Fail("a connection record converted to an interface flows to %s", shortInstr(ref))
					}
				}
			}
		})
	}
	// globals and long-lived struct fields able to hold a record, by type
	for _, p := range c.Pkgs {
		if !strings.HasPrefix(p.PkgPath, modPath) || p.Types == nil {
			continue
		}
		isProduct := false
		for _, pp := range productPkgs {
			if p.PkgPath == modPath+"/"+pp || (pp == "" && p.PkgPath == modPath) {
				isProduct = true
			}
		}
		if !isProduct {
			continue
		}
		sc := p.Types.Scope()
		for _, nm := range sc.Names() {
			obj := sc.Lookup(nm)
			switch v := obj.(type) {
			case *types.Var:
				if containsMetadata(v.Type(), 0) {
					r.Ob("C06.R2", "global:"+p.Types.Name()+"."+nm).At(v.Pos()).Fail("package-level variable %s.%s of type %s can hold connection records across connections", p.Types.Name(), nm, typeName(v.Type()))
				}
			case *types.TypeName:
				if p.PkgPath == modPath+"/pkg/metadata" {
					continue
				}
				if st, ok := v.Type().Underlying().(*types.Struct); ok {
					for k := 0; k < st.NumFields(); k++ {
						if containsMetadata(st.Field(k).Type(), 0) {
							r.Ob("C06.R2", "field:"+p.Types.Name()+"."+nm+"."+st.Field(k).Name()).At(st.Field(k).Pos()).Fail("struct field %s.%s.%s of type %s can retain a connection record beyond its connection", p.Types.Name(), nm, st.Field(k).Name(), typeName(st.Field(k).Type()))
						}
					}
				}
			}
		}
	}
	r.Ob("C06.R2", "instances").Must(nIface >= 1, "expected the context.WithValue conversion site").OK("%d reference stores, %d interface conversions examined", nStores, nIface)
}

func addrRoot(v ssa.Value) ssa.Value {
	for d := 0; d < 20; d++ {
		switch x := v.(type) {
		case *ssa.FieldAddr:
			v = x.X
		case *ssa.IndexAddr:
			v = x.X
		case *ssa.UnOp:
			v = x.X
		default:
			return v
		}
	}
	return v
}

// isLocalCell: heap alloc that is a spilled local variable (only loads/stores/closure bindings refer to it).
func isLocalCell(al *ssa.Alloc) bool {
	for _, r := range *al.Referrers() {
		switch x := r.(type) {
		case *ssa.Store:
			if x.Addr != ssa.Value(al) {
				return false
			}
		case *ssa.UnOp, *ssa.MakeClosure, *ssa.DebugRef:
		default:
			return false
		}
	}
	return true
}

func c06r3(r *R) {
	c := r.C
	_, _, sc := serveLoop(r)
	hs := c.Named("net/http", "Server")
	var connCtx *ssa.Function
	for _, a := range fieldAccesses(c.FuncsIn("pkg/proxyserver"), hs, "ConnContext") {
		if a.Kind == "write" {
			connCtx = closureTarget(a.Instr.(*ssa.Store).Val)
		}
	}
	o := r.Ob("C06.R3", "newcontext-call-placement")
	o.Check(connCtx != nil, "http.Server.ConnContext is not set by proxyserver: HTTP/1.1 requests would carry no per-connection record")
	n := 0
	for _, fn := range c.Product() {
		for _, s := range callsIn(fn, "metadata.NewContext") {
			n++
			o.AtI(s)
			ok := fn == sc || fn == connCtx
			o.Check(ok, "metadata.NewContext is called from %s; it must be called once per connection, from the per-connection goroutine (h2) or the ConnContext hook (h1)", funcName(fn))
			o.Check(!inLoop(s.Block()), "NewContext call in %s is inside a loop", funcName(fn))
		}
	}
	o.Check(n == 2, "expected two NewContext call sites (h2 path, h1 ConnContext hook), found %d", n)
	// at most one record per activation
	for _, fn := range []*ssa.Function{sc, connCtx} {
		if fn == nil {
			continue
		}
		res := countOnPaths(fn, func(i ssa.Instruction) int {
			if isCall(i, "metadata.NewContext") {
				return 1
			}
			return 0
		})
		o.Check(res.Max <= 1, "%s can create %d records for one connection", funcName(fn), res.Max)
	}
	r.assume("S2: net/http calls Server.ConnContext once per accepted connection")
}

func c06r4(r *R) {
	c := r.C
	_, _, sc := serveLoop(r)
	o := r.Ob("C06.R4", "record-inputs-h2:"+funcName(sc)).At(sc.Pos())
	hijack := "hack.NewHijackClientHelloConn(p1)"
	tlsc := "crypto/tls.Server(" + hijack + ", p0.TLSConfig)"
	md := c.Named("pkg/metadata", "Metadata")
	nrec, ncs := 0, 0
	for _, a := range fieldAccesses([]*ssa.Function{sc}, md, "ClientHelloRecord") {
		if a.Kind == "write" {
			nrec++
			st := a.Instr.(*ssa.Store)
			o.AtI(st)
			o.Check(c.Expr(st.Val) == "(*hack.HijackClientHelloConn).GetClientHello("+hijack+")#0", "the record's ClientHello is %s, want the bytes captured on this connection's own wrapper", c.Expr(st.Val))
			o.Check(strings.HasPrefix(c.Expr(st.Addr), "metadata.NewContext(p0.ctx)#1."), "ClientHello stored into %s", c.Expr(st.Addr))
		}
	}
	for _, a := range fieldAccesses([]*ssa.Function{sc}, md, "ConnectionState") {
		if a.Kind == "write" {
			ncs++
			st := a.Instr.(*ssa.Store)
			o.AtI(st)
			o.Check(c.Expr(st.Val) == "(*crypto/tls.Conn).ConnectionState("+tlsc+")", "the record's ConnectionState is %s, want this connection's tls.Conn state", c.Expr(st.Val))
		}
	}
	o.Check(nrec == 1 && ncs == 1, "expected one store each of ClientHelloRecord/ConnectionState on the h2 path, found %d/%d", nrec, ncs)
	for _, s := range callsIn(sc, nServeConn) {
		a := callOf(s).Args
		o.AtI(s)
		o.Check(c.Expr(a[1]) == tlsc, "ServeConn serves %s, want this connection's tls.Conn", c.Expr(a[1]))
		if al, ok := a[2].(*ssa.Alloc); ok {
			cx := complitFields(al)["Context"]
			o.Check(cx != nil && c.Expr(cx) == "metadata.NewContext(p0.ctx)#0", "ServeConnOpts.Context is %s, want the context holding this connection's fresh record", exprOrNil(c, cx))
		}
	}
	// h1 hand-off carries this connection's data
	o2 := r.Ob("C06.R4", "record-inputs-h1-handoff:"+funcName(sc))
	found := false
	eachInstr(sc, func(i ssa.Instruction) {
		al, ok := i.(*ssa.Alloc)
		if !ok || !allocOfStruct(al, "hack.TLSClientHelloConn") {
			return
		}
		found = true
		o2.AtI(i)
		f := complitFields(al)
		o2.Check(f["Conn"] != nil && c.Expr(f["Conn"]) == tlsc, "wrapper Conn is %s", exprOrNil(c, f["Conn"]))
		o2.Check(f["ClientHelloRecord"] != nil && c.Expr(f["ClientHelloRecord"]) == "(*hack.HijackClientHelloConn).GetClientHello("+hijack+")#0", "wrapper ClientHelloRecord is %s", exprOrNil(c, f["ClientHelloRecord"]))
	})
	o2.Check(found, "no TLSClientHelloConn wrapper is built for the HTTP/1.1 hand-off")
	// the hijack wrapper is per activation
	nh := c.Func("pkg/hack", "NewHijackClientHelloConn")
	r.need(nh != nil, "NewHijackClientHelloConn not found")
	o3 := r.Ob("C06.R4", "fresh-capture-buffer:"+funcName(nh)).At(nh.Pos())
	eachInstr(nh, func(i ssa.Instruction) {
		if ret, ok := i.(*ssa.Return); ok {
			al, isA := ret.Results[0].(*ssa.Alloc)
			o3.Check(isA && al.Heap, "NewHijackClientHelloConn returns %s, want a fresh wrapper", c.Expr(ret.Results[0]))
			if isA {
				f := complitFields(al)
				o3.Check(f["tlsConn"] != nil && c.Expr(f["tlsConn"]) == "p0" && len(f) == 1, "fresh wrapper is initialised with %d fields (tlsConn=%s)", len(f), exprOrNil(c, f["tlsConn"]))
			}
		}
	})
	// h1: ConnContext hook reads from its own conn parameter
	uc := c.Func("pkg/proxyserver", "updateConnContext")
	r.need(uc != nil, "updateConnContext not found")
	o4 := r.Ob("C06.R4", "record-inputs-h1:"+funcName(uc)).At(uc.Pos())
	w := "assert[*hack.TLSClientHelloConn](p1)#0"
	n1, n2 := 0, 0
	for _, a := range fieldAccesses([]*ssa.Function{uc}, md, "ClientHelloRecord") {
		if a.Kind == "write" {
			n1++
			o4.AtI(a.Instr).Check(c.Expr(a.Instr.(*ssa.Store).Val) == w+".ClientHelloRecord", "h1 record ClientHello is %s", c.Expr(a.Instr.(*ssa.Store).Val))
		}
	}
	for _, a := range fieldAccesses([]*ssa.Function{uc}, md, "ConnectionState") {
		if a.Kind == "write" {
			n2++
			o4.AtI(a.Instr).Check(c.Expr(a.Instr.(*ssa.Store).Val) == "(*crypto/tls.Conn).ConnectionState("+w+".Conn)", "h1 record ConnectionState is %s", c.Expr(a.Instr.(*ssa.Store).Val))
		}
	}
	o4.Check(n1 == 1 && n2 == 1, "updateConnContext stores %d/%d of the two record fields", n1, n2)
	eachInstr(uc, func(i ssa.Instruction) {
		if ret, ok := i.(*ssa.Return); ok {
			o4.Check(c.Expr(ret.Results[0]) == "metadata.NewContext(p0)#0", "ConnContext hook returns %s, want the context holding the fresh record", c.Expr(ret.Results[0]))
		}
	})
	// no package-level mutable state in pkg/hack
	o5 := r.Ob("C06.R4", "hack-has-no-mutable-globals")
	if hp := c.Pkg("pkg/hack"); o5.Check(hp != nil, "pkg/hack not loaded") {
		for _, m := range hp.Members {
			if g, ok := m.(*ssa.Global); ok {
				for _, wri := range globalWriters(c.FuncsIn(), g) {
					if wri.Fn.Name() != "init" {
						o5.AtI(wri.Instr).Fail("pkg/hack global %s is written in %s", g.Name(), funcName(wri.Fn))
					}
				}
				if containsMetadata(g.Type(), 0) || strings.Contains(typeName(g.Type()), "[]byte") || strings.Contains(typeName(g.Type()), "bytes.Buffer") || strings.Contains(typeName(g.Type()), "sync.Pool") || strings.Contains(typeName(g.Type()), "map[") {
					o5.At(g.Pos()).Fail("pkg/hack has package-level state %s of type %s that capture buffers could share", g.Name(), typeName(g.Type()))
				}
			}
		}
	}
}

func c06r5(r *R) {
	c := r.C
	// the fork derives every request context from the per-connection context given in ServeConnOpts
	bc := c.Func("pkg/http2", "serverConnBaseContext")
	r.need(bc != nil, "serverConnBaseContext not found")
	o := r.Ob("C06.R5", "base-context:"+funcName(bc)).At(bc.Pos())
	eachInstr(bc, func(i ssa.Instruction) {
		if ret, ok := i.(*ssa.Return); ok {
			e := retExpr(c, ret, 0)
			o.AtI(i).Check(strings.Contains(e, "context.WithCancel((*http2.ServeConnOpts).context(p1))#0") && !strings.Contains(e, "context.Background()"), "connection base context is %s, want a chain of WithValue over WithCancel(opts.context())", e)
		}
	})
	oc := c.Method("pkg/http2", "ServeConnOpts", "context")
	r.need(oc != nil, "ServeConnOpts.context not found")
	o1 := r.Ob("C06.R5", "opts-context:"+funcName(oc)).At(oc.Pos())
	eachInstr(oc, func(i ssa.Instruction) {
		if ret, ok := i.(*ssa.Return); ok {
			e := c.Expr(ret.Results[0])
			gs := c.guardStrs(i.Block())
			if e == "p0.Context" {
				return
			}
			o1.AtI(i).Check(e == "context.Background()" && !(hasGuard(gs, "+(nil != p0)") && hasGuard(gs, "+(nil != p0.Context)")), "opts.context() returns %s under %v", e, gs)
		}
	})
	scT := c.Named("pkg/http2", "serverConn")
	stT := c.Named("pkg/http2", "stream")
	r.need(scT != nil && stT != nil, "serverConn/stream types not found")
	o2 := r.Ob("C06.R5", "serverConn.baseCtx-writers")
	nw := 0
	for _, a := range fieldAccesses(c.FuncsIn("pkg/http2"), scT, "baseCtx") {
		if a.Kind == "write" {
			nw++
			o2.AtI(a.Instr).Check(c.Expr(a.Instr.(*ssa.Store).Val) == "http2.serverConnBaseContext(p1, p2)#0", "serverConn.baseCtx is set from %s", c.Expr(a.Instr.(*ssa.Store).Val))
		}
	}
	o2.Check(nw == 1, "serverConn.baseCtx has %d writers, want 1", nw)
	o3 := r.Ob("C06.R5", "stream.ctx-writers")
	nw = 0
	for _, a := range fieldAccesses(c.FuncsIn("pkg/http2"), stT, "ctx") {
		if a.Kind == "write" {
			nw++
			o3.AtI(a.Instr).Check(c.Expr(a.Instr.(*ssa.Store).Val) == "context.WithCancel(p0.baseCtx)#0", "stream.ctx is set from %s, want context.WithCancel(sc.baseCtx)", c.Expr(a.Instr.(*ssa.Store).Val))
		}
	}
	o3.Check(nw == 1, "stream.ctx has %d writers, want 1", nw)
	// the request gets the stream's context
	nr := c.Method("pkg/http2", "serverConn", "newWriterAndRequestNoBody")
	r.need(nr != nil, "newWriterAndRequestNoBody not found")
	o4 := r.Ob("C06.R5", "request-context:"+funcName(nr)).At(nr.Pos())
	wc := callsIn(nr, "(*net/http.Request).WithContext")
	if o4.Check(len(wc) == 1, "expected one Request.WithContext call, found %d", len(wc)) {
		o4.AtI(wc[0]).Check(c.Expr(callOf(wc[0]).Args[1]) == "p1.ctx", "the request context is %s, want the stream's context", c.Expr(callOf(wc[0]).Args[1]))
		// and that request is the one returned
		eachInstr(nr, func(i ssa.Instruction) {
			if ret, ok := i.(*ssa.Return); ok && c.Expr(ret.Results[2]) == "nil" {
				o4.Check(strings.HasPrefix(c.Expr(ret.Results[1]), "(*net/http.Request).WithContext("), "the returned request is %s", c.Expr(ret.Results[1]))
			}
		})
	}
	// capture sites read the record of *this* serverConn
	pf := c.Method("pkg/http2", "serverConn", "processFrame")
	r.need(pf != nil, "processFrame not found")
	o5 := r.Ob("C06.R5", "capture-reads-own-context:"+funcName(pf)).At(pf.Pos())
	n := 0
	for _, fn := range c.FuncsIn("pkg/http2") {
		for _, s := range callsIn(fn, "metadata.FromContext") {
			n++
			o5.AtI(s).Check(c.Expr(callOf(s).Args[0]) == "p0.baseCtx", "capture site in %s reads the record from %s, want sc.baseCtx", funcName(fn), c.Expr(callOf(s).Args[0]))
		}
	}
	o5.Check(n >= 4, "expected >= 4 capture sites in the h2 server, found %d", n)
	// header injector reads the record of the request it is given
	gv := c.Method("pkg/fingerprint", "FingerprintHeaderInjector", "GetHeaderValue")
	r.need(gv != nil, "GetHeaderValue not found")
	o6 := r.Ob("C06.R5", "injector-reads-request-context:"+funcName(gv)).At(gv.Pos())
	fcs := callsIn(gv, "metadata.FromContext")
	if o6.Check(len(fcs) == 1, "expected one FromContext call") {
		o6.Check(c.Expr(callOf(fcs[0]).Args[0]) == "(*net/http.Request).Context(p1)", "injector reads the record from %s", c.Expr(callOf(fcs[0]).Args[0]))
	}
	// the Rewrite function passes the inbound request (whose context carries the record)
	rf := rewriteFn(r)
	for _, s := range callsIn(rf, nGetHeaderValue) {
		o6.AtI(s).Check(c.Expr(callArgs(callOf(s))[1]) == "p1.In", "GetHeaderValue is given %s, want the inbound request", c.Expr(callArgs(callOf(s))[1]))
	}
}

// reviewed writers of package-level variables outside init in the proxy's own packages
var reviewedGlobalWriters = map[string]string{
	"fingerprint.VerboseLogs|fingerproxy.initFingerprint":                      "start-up configuration from Run",
	"fingerprint.Logger|fingerproxy.initFingerprint":                           "start-up configuration from Run",
	"fingerprint.fingerprintDurationMetric|fingerprint.RegisterDurationMetric": "metric registration at start-up",
	"certwatcher.Logger|fingerproxy.initCertWatcher":                           "start-up configuration",
	"certwatcher.VerboseLogs|fingerproxy.initCertWatcher":                      "start-up configuration",
}

func c06r6(r *R) {
	c := r.C
	reqRoots := perConnRoots(r)
	reach := c.reachable(reqRoots, true, nil)
	n := 0
	for _, rel := range appPkgs {
		p := c.Pkg(rel)
		if p == nil {
			continue
		}
		var names []string
		for nm := range p.Members {
			names = append(names, nm)
		}
		sort.Strings(names)
		for _, nm := range names {
			g, ok := p.Members[nm].(*ssa.Global)
			if !ok {
				continue
			}
			for _, w := range globalWriters(c.FuncsIn(), g) {
				if isInitFn(w.Fn) {
					continue
				}
				if w.Fn.Name() == "main" && w.Fn.Parent() == nil && w.Fn.Pkg.Pkg.Name() == "main" {
					continue // example programs configuring the library before Run (documented extension point), not product code
				}
				n++
				key := p.Pkg.Name() + "." + nm + "|" + funcName(w.Fn)
				o := r.Ob("C06.R6", "global-writer:"+key).AtI(w.Instr)
				if strings.HasPrefix(nm, "flag") && funcName(w.Fn) == "fingerproxy.initFlags" {
					o.OK("CLI flag registration")
				} else if why, ok := reviewedGlobalWriters[key]; ok {
					o.OK("reviewed: %s", why)
				} else {
					o.Fail("package-level variable %s.%s is written in %s (not in the reviewed start-up list): mutable package state on the proxy's packages is how data leaks between connections", p.Pkg.Name(), nm, funcName(w.Fn))
				}
				if _, onPath := reach[w.Fn]; onPath {
					o.Fail("package-level variable %s.%s is written in %s, which is reachable from a per-connection/request path: %s", p.Pkg.Name(), nm, funcName(w.Fn), c.pathTo(reach, w.Fn))
				}
			}
		}
	}
	// package-level containers (pools, maps, slices, channels) in the proxy's own packages: none may be mutable shared state
	for _, rel := range appPkgs {
		p := c.Pkg(rel)
		if p == nil {
			continue
		}
		var names []string
		for nm := range p.Members {
			names = append(names, nm)
		}
		sort.Strings(names)
		for _, nm := range names {
			g, ok := p.Members[nm].(*ssa.Global)
			if !ok {
				continue
			}
			tn := typeName(deref(g.Type()))
			kind := ""
			switch {
			case strings.Contains(tn, "sync.Pool"), strings.Contains(tn, "sync.Map"):
				kind = "pool/concurrent map"
			case strings.HasPrefix(tn, "map["), strings.HasPrefix(tn, "chan "):
				kind = "map/channel"
			}
			if kind == "" {
				continue
			}
			o := r.Ob("C06.R6", "container-global:"+p.Pkg.Name()+"."+nm).At(g.Pos())
			if kind == "pool/concurrent map" {
				o.Fail("package-level %s %s.%s (%s): objects recycled through it carry state from one connection's request to another's unless every field is reset; fingerprints must be computed from this connection's data only", kind, p.Pkg.Name(), nm, tn)
				continue
			}
			// maps: allowed only when never written outside init (lookup tables)
			for _, w := range globalWriters(c.FuncsIn(), g) {
				if !isInitFn(w.Fn) {
					o.AtI(w.Instr).Fail("package-level %s %s.%s is modified in %s", kind, p.Pkg.Name(), nm, funcName(w.Fn))
				}
			}
			o.OK("read-only lookup table")
		}
	}
	r.Ob("C06.R6", "instances").Check(n >= 3, "expected >= 3 package-level writers outside init (start-up configuration), found %d", n)
}

func c06r7(r *R) {
	c := r.C
	roots := []*ssa.Function{handlerServeHTTP(r), rewriteFn(r)}
	for _, nm := range [][3]string{
		{"pkg/fingerprint", "FingerprintHeaderInjector", "GetHeaderValue"}, {"pkg/fingerprint", "FingerprintHeaderInjector", "GetHeaderName"},
		{"pkg/fingerprint", "HTTP2FingerprintParam", "HTTP2Fingerprint"},
	} {
		if f := c.Method(nm[0], nm[1], nm[2]); f != nil {
			roots = append(roots, f)
		}
	}
	for _, nm := range []string{"JA3Fingerprint", "JA4Fingerprint"} {
		if f := c.Func("pkg/fingerprint", nm); f != nil {
			roots = append(roots, f)
		}
	}
	reach := c.reachable(roots, true, nil)
	inReach := func(g *ssa.Function) bool { _, ok := reach[g]; return ok }
	longLived := map[string]bool{"reverseproxy.HTTPHandler": true, "fingerprint.FingerprintHeaderInjector": true, "fingerprint.HTTP2FingerprintParam": true, "proxyserver.Server": true}
	n := 0
	o := r.Ob("C06.R7", "request-path-does-not-write-shared-config")
	var fns []*ssa.Function
	for f := range reach {
		fns = append(fns, f)
	}
	sort.Slice(fns, func(i, j int) bool { return funcName(fns[i]) < funcName(fns[j]) })
	for _, f := range fns {
		if f.Blocks == nil || f.Pkg == nil || !strings.HasPrefix(f.Pkg.Pkg.Path(), modPath) {
			continue
		}
		n++
		eachInstr(f, func(i ssa.Instruction) {
			// updates of atomics / sync.Map / captured cells that outlive the request: a memo or cache shared by all
			// connections (only what this activation allocated, and the per-connection record, may be written)
			if cc := callOf(i); cc != nil {
				n := calleeName(cc)
				mut := false
				for _, suf := range []string{").Store", ").Swap", ").CompareAndSwap", ").Add", ").LoadOrStore", ").Delete", ").CompareAndDelete", ").And", ").Or"} {
					if (strings.HasPrefix(n, "(*sync/atomic.") || strings.HasPrefix(n, "(*sync.Map)")) && strings.HasSuffix(n, suf) {
						mut = true
					}
				}
				if mut && len(cc.Args) > 0 {
					root := addrRoot(cc.Args[0])
					_, fresh := root.(*ssa.Alloc)
					if al, isAl := root.(*ssa.Alloc); isAl && al.Parent() != f {
						fresh = false
					}
					perConn := strings.Contains(c.Expr(cc.Args[0]), "metadata.FromContext(") || strings.HasPrefix(typeName(deref(root.Type())), "metadata.")
					if !fresh && !perConn {
						o.AtI(i).Fail("%s, reachable from the request path, updates %s through %s: state that outlives the request and is shared by all connections (a memo or cache of per-connection values)", funcName(f), c.Expr(cc.Args[0]), n)
					}
				}
			}
			st, ok := i.(*ssa.Store)
			if !ok {
				return
			}
			// a captured variable of an enclosing function that has long returned (a closure-held memo)
			if fv, isFV := addrRoot(st.Addr).(*ssa.FreeVar); isFV && f.Parent() != nil && !inReach(f.Parent()) {
				o.AtI(i).Fail("%s, reachable from the request path, assigns the captured variable %s of %s: state shared by every call of the closure, hence by all connections", funcName(f), fv.Name(), funcName(f.Parent()))
				return
			}
			fa, ok := st.Addr.(*ssa.FieldAddr)
			if !ok {
				return
			}
			if nt := namedOf(fa.X.Type()); nt != nil {
				if _, fresh := addrRoot(fa.X).(*ssa.Alloc); fresh {
					return
				}
				tn := typeName(nt)
				if longLived[tn] {
					o.AtI(i).Fail("%s, reachable from the request path, writes %s.%s: these objects are shared by all connections", funcName(f), tn, fieldName(fa.X.Type(), fa.Field))
					return
				}
				// any other struct of the proxy's own packages written through a pointer that was not allocated by this
				// activation: only the per-connection record and per-request objects may be written on the request path
				pk := ""
				if nt.Obj().Pkg() != nil {
					pk = nt.Obj().Pkg().Path()
				}
				own := false
				for _, ap := range appPkgs {
					if pk == modPath+"/"+ap || (ap == "" && pk == modPath) {
						own = true
					}
				}
				if pk == modPath+"/pkg/metadata" {
					own = true // only the per-connection record types below may be written
				}
				if pk == modPath+"/pkg/ja3" || pk == modPath+"/pkg/ja4" {
					own = false // parse structs filled by their own methods, allocated per call by the fingerprint functions (C01.R1 / C02.R1)
				}
				perConn := map[string]bool{"metadata.Metadata": true, "metadata.HTTP2FingerprintingFrames": true}
				if own && !perConn[tn] {
					o.AtI(i).Fail("%s, reachable from the request path, writes %s.%s through a pointer it did not allocate: configuration objects are shared by all connections", funcName(f), tn, fieldName(fa.X.Type(), fa.Field))
				}
			}
		})
	}
	o.Must(n >= 8, "only %d module functions reachable from the request path", n).OK("%d functions scanned", n)
	// the per-connection functions of proxyserver never write through the shared *Server
	_, _, sc := serveLoop(r)
	per := []*ssa.Function{sc}
	if f := c.Func("pkg/proxyserver", "updateConnContext"); f != nil {
		per = append(per, f)
	}
	pr := c.reachable(per, false, nil)
	o2 := r.Ob("C06.R7", "per-connection-code-does-not-write-server")
	np := 0
	for f := range pr {
		if f.Blocks == nil || f.Pkg == nil || f.Pkg.Pkg.Path() != modPath+"/pkg/proxyserver" {
			continue
		}
		np++
		if len(f.Params) == 0 || typeName(f.Params[0].Type()) != "*proxyserver.Server" {
			continue
		}
		eachInstr(f, func(i ssa.Instruction) {
			var addr ssa.Value
			switch x := i.(type) {
			case *ssa.Store:
				addr = x.Addr
			case *ssa.MapUpdate:
				addr = x.Map
			}
			if addr != nil && strings.HasPrefix(c.Expr(addr), "p0.") {
				o2.AtI(i).Fail("%s, which runs once per connection, writes %s of the shared Server: concurrent connections race on it", funcName(f), c.Expr(addr))
			}
		})
	}
	o2.Must(np >= 3, "only %d proxyserver functions on the per-connection path", np).OK("%d functions scanned", np)
}
