package main

import (
	"encoding/json"
	"flag"
	"fmt"
	"os"
	"path/filepath"
	"sort"
	"strconv"
	"strings"
	"time"

	"golang.org/x/tools/go/ssa"
)

type propDef struct {
	ID    string
	Deep  bool // needs dependency bodies
	Refs  bool // wants the upstream reference packages
	Rules []ruleDef
}

type ruleDef struct {
	ID string
	F  func(r *R)
}

var registry = map[string]*propDef{}

// curTier is the tier of the running check (rules that only run in the thorough tier consult it).
var curTier = "quick"

func register(id string, deep bool, rules ...ruleDef) {
	registry[id] = &propDef{ID: id, Deep: deep, Rules: rules}
}

// wantRefs marks properties whose rules compare the vendored code with its upstream sibling.
func wantRefs(ids ...string) {
	for _, id := range ids {
		if p := registry[id]; p != nil {
			p.Refs = true
		}
	}
}

func configsFor(tier string, deep bool, repo string) []LoadCfg {
	cfgs := []LoadCfg{{Name: "K0 linux/amd64", Dir: repo, Deep: deep}}
	if tier == "thorough" {
		cfgs = append(cfgs,
			LoadCfg{Name: "K1 linux/amd64 -tags debug", Dir: repo, Deep: true, Tags: "debug"},
			LoadCfg{Name: "K2 windows/amd64", Dir: repo, Deep: true, GOOS: "windows", GOARCH: "amd64"},
			LoadCfg{Name: "K3 darwin/arm64", Dir: repo, Deep: true, GOOS: "darwin", GOARCH: "arm64"},
			LoadCfg{Name: "K4 linux/arm (32-bit)", Dir: repo, Deep: true, GOOS: "linux", GOARCH: "arm"},
		)
	}
	return cfgs
}

func runProperty(p *propDef, c *Ctx) *R {
	r := &R{C: c, Prop: p.ID}
	for _, rd := range p.Rules {
		r.run(rd.ID, func() { rd.F(r) })
	}
	return r
}

func main() {
	prop := flag.String("property", "", "property id (C01..C20) or 'all'")
	tier := flag.String("tier", "quick", "quick|thorough")
	repo := flag.String("repo", "/repo", "repository root")
	verif := flag.String("verif", "/verif", "verif dir (evidence, known findings)")
	dump := flag.String("dump", "", "debug: dump SSA of pkg:Func or pkg:Type.Method")
	deepFlag := flag.Bool("deep", false, "force deep mode")
	explain := flag.String("explain", "", "print a stored violation file")
	noEv := flag.Bool("no-evidence", false, "do not write evidence (used by witness subprocesses)")
	overlay := flag.String("overlay", "", "file=replacement pairs, comma separated (in-memory source overlay)")
	onlyRule := flag.String("rule", "", "only run rules with this id prefix")
	genKnown := flag.Bool("gen-known", false, "write spec/known_funcs.json (the reviewed function table) from the repository and exit")
	flag.Parse()
	verifDir = *verif
	if st, err := os.Stat(filepath.Join(*verif, "spec")); err == nil && st.IsDir() {
		specDir = filepath.Join(*verif, "spec")
	}
	if *genKnown {
		keys, err := genKnownFuncs(*repo)
		if err != nil || len(keys) < 100 {
			fmt.Println("gen-known:", err, len(keys))
			os.Exit(2)
		}
		b, _ := json.MarshalIndent(keys, "", " ")
		if err := os.WriteFile(knownFuncsPath(), append(b, '\n'), 0o644); err != nil {
			fmt.Println(err)
			os.Exit(2)
		}
		fmt.Printf("wrote %d function keys to %s\n", len(keys), knownFuncsPath())
		kf, err := genKnownFields(*repo)
		if err != nil || len(kf) < 20 {
			fmt.Println("gen-known fields:", err, len(kf))
			os.Exit(2)
		}
		b, _ = json.MarshalIndent(kf, "", " ")
		if err := os.WriteFile(knownFieldsPath(), append(b, '\n'), 0o644); err != nil {
			fmt.Println(err)
			os.Exit(2)
		}
		fmt.Printf("wrote %d struct types to %s\n", len(kf), knownFieldsPath())
		ki, err := genKnownIdents(*repo)
		if err != nil || len(ki) < 50 {
			fmt.Println("gen-known idents:", err, len(ki))
			os.Exit(2)
		}
		b, _ = json.MarshalIndent(ki, "", " ")
		if err := os.WriteFile(knownIdentsPath(), append(b, '\n'), 0o644); err != nil {
			fmt.Println(err)
			os.Exit(2)
		}
		fmt.Printf("wrote %d package-level identifiers to %s\n", len(ki), knownIdentsPath())
		return
	}

	if *explain != "" {
		b, err := os.ReadFile(*explain)
		if err != nil {
			fmt.Println(err)
			os.Exit(2)
		}
		fmt.Println(string(b))
		return
	}
	seed := 0
	if s := os.Getenv("VERIF_SEED"); s != "" {
		seed, _ = strconv.Atoi(s)
	}
	if t := os.Getenv("VERIF_TIER"); t != "" && !isFlagSet("tier") {
		*tier = t
	}
	ov := map[string][]byte{}
	if *overlay != "" {
		for _, kv := range strings.Split(*overlay, ",") {
			p := strings.SplitN(kv, "=", 2)
			if len(p) == 2 {
				b, err := os.ReadFile(p[1])
				if err != nil {
					fmt.Println(err)
					os.Exit(2)
				}
				ov[p[0]] = b
			}
		}
	}

	if *dump != "" {
		c, err := Load(LoadCfg{Name: "dump", Dir: *repo, Deep: *deepFlag, Overlay: ov, BuildExtra: stdSummaryPkgs})
		if err != nil {
			fmt.Println(err)
			os.Exit(2)
		}
		dumpFunc(c, *dump)
		return
	}

	var ids []string
	if *prop == "all" {
		for id := range registry {
			ids = append(ids, id)
		}
		sort.Strings(ids)
	} else {
		if registry[*prop] == nil {
			fmt.Fprintf(os.Stderr, "unknown property %q\n", *prop)
			os.Exit(2)
		}
		ids = []string{*prop}
	}
	deep := *deepFlag
	for _, id := range ids {
		if registry[id].Deep {
			deep = true
		}
	}
	defer func() {
		if p := recover(); p != nil {
			// an internal error outside a rule: the property is undecided, which counts as a violation report
			for _, id := range ids {
				fmt.Printf("VIOLATION property=%s replay=-\n  rule=internal construct=checker verdict=undecided\n  internal error: %v\n", id, p)
			}
			os.Exit(1)
		}
	}()
	start := time.Now()
	results := map[string]*runResult{}
	for _, id := range ids {
		results[id] = &runResult{Prop: id, Start: start, Extra: map[string]any{}}
	}
	wantRefs := false
	for _, id := range ids {
		if registry[id].Refs {
			wantRefs = true
		}
	}
	for _, cfg := range configsFor(*tier, deep, *repo) {
		cfg.Overlay = ov
		curTier = *tier
		if wantRefs {
			cfg.Refs = upstreamRefs()
		}
		c, err := Load(cfg)
		if err != nil {
			for _, id := range ids {
				results[id].Fatal += fmt.Sprintf("[%s] %v\n", cfg.Name, err)
			}
			continue
		}
		for _, id := range ids {
			p := registry[id]
			if *onlyRule != "" {
				q := &propDef{ID: p.ID, Deep: p.Deep}
				for _, rd := range p.Rules {
					if strings.HasPrefix(rd.ID, *onlyRule) {
						q.Rules = append(q.Rules, rd)
					}
				}
				p = q
			}
			r := runProperty(p, c)
			res := results[id]
			res.Obs = append(res.Obs, r.Obs...)
			for _, n := range r.Notes {
				res.Notes = append(res.Notes, "["+cfg.Name+"] "+n)
			}
			for _, n := range c.InlineNotes {
				res.Notes = append(res.Notes, "["+cfg.Name+"] normalisation: "+n)
			}
			for a := range r.Assume {
				dup := false
				for _, e := range res.Assume {
					if e == a {
						dup = true
					}
				}
				if !dup {
					res.Assume = append(res.Assume, a)
				}
			}
		}
		st := map[string]any{}
		for k, v := range c.Stats {
			st[k] = v
		}
		for _, id := range ids {
			results[id].Configs = append(results[id].Configs, st)
		}
	}
	exit := 0
	for _, id := range ids {
		res := results[id]
		sort.Strings(res.Assume)
		if *noEv {
			// witness mode: just report violated rule ids
			for _, o := range res.Obs {
				if o.Verdict != VOK {
					fmt.Printf("WITNESS-HIT %s %s %s :: %s\n", id, o.Rule, o.Construct, firstLines(o.Detail, 2))
					exit = 1
				}
			}
			if res.Fatal != "" {
				fmt.Printf("WITNESS-FATAL %s %s\n", id, firstLines(res.Fatal, 5))
				exit = 3
			}
			continue
		}
		if *tier == "thorough" || os.Getenv("FPCHECK_WITNESSES") != "" {
			runWitnesses(res, id, *repo)
		}
		if e := finish(res, *verif, *tier, seed); e > exit {
			exit = e
		}
	}
	os.Exit(exit)
}

func isFlagSet(name string) bool {
	set := false
	flag.Visit(func(f *flag.Flag) {
		if f.Name == name {
			set = true
		}
	})
	return set
}

func dumpFunc(c *Ctx, spec string) {
	parts := strings.SplitN(spec, ":", 2)
	if len(parts) != 2 {
		fmt.Println("usage: -dump pkg:Func | pkg:Type.Method")
		return
	}
	var fn *ssa.Function
	if strings.Contains(parts[1], ".") {
		tm := strings.SplitN(parts[1], ".", 2)
		fn = c.Method(parts[0], tm[0], tm[1])
	} else {
		fn = c.Func(parts[0], parts[1])
	}
	if fn == nil {
		fmt.Println("not found")
		return
	}
	for _, f := range withAnon(fn) {
		fmt.Printf("==== %s (%s)\n", f, funcName(f))
		for _, b := range f.Blocks {
			fmt.Printf("b%d [%s] preds=%v succs=%v guards=%v\n", b.Index, b.Comment, blockIdx(b.Preds), blockIdx(b.Succs), c.guardStrs(b))
			for _, i := range b.Instrs {
				s := ""
				if v, ok := i.(ssa.Value); ok {
					s = v.Name() + " = "
				}
				fmt.Printf("    %-6s %s%s", c.Pos(i.Pos()), s, i)
				if v, ok := i.(ssa.Value); ok {
					fmt.Printf("      ⟦%s⟧", c.Expr(v))
				}
				if iff, ok := i.(*ssa.If); ok {
					fmt.Printf("      ⟦%s⟧", c.Expr(iff.Cond))
				}
				fmt.Println()
			}
		}
	}
}

func blockIdx(bs []*ssa.BasicBlock) []int {
	var out []int
	for _, b := range bs {
		out = append(out, b.Index)
	}
	return out
}
