package main

import (
	"go/token"
	"strings"

	"golang.org/x/tools/go/ssa"
)

const (
	nRPServeHTTP = "(*net/http/httputil.ReverseProxy).ServeHTTP"
	nWriteHeader = "(net/http.ResponseWriter).WriteHeader"
	nRWWrite     = "(net/http.ResponseWriter).Write"
)

func init() {
	register("C15", false,
		ruleDef{"C15.R1", c15r1},
		ruleDef{"C15.R2", c15r2},
		ruleDef{"C15.R3", c15r3},
		ruleDef{"C15.R4", c15r4},
		// over HTTP/2 the predicate sees the headers the client sent: the request's header map is built as upstream builds it
		ruleDef{"C15.R5", func(r *R) { forkSiblingRule(r, "C15.R5", "server.go") }},
	)
	wantRefs("C15")
}

func handlerServeHTTP(r *R) *ssa.Function {
	fn := r.C.Method("pkg/reverseproxy", "HTTPHandler", "ServeHTTP")
	r.need(fn != nil, "reverseproxy.HTTPHandler.ServeHTTP not found")
	return fn
}

func c15r1(r *R) {
	c := r.C
	fn := handlerServeHTTP(r)
	o := r.Ob("C15.R1", "respond-xor-forward:"+funcName(fn)).At(fn.Pos())
	fw := countOnPaths(fn, func(i ssa.Instruction) int {
		if isCall(i, nRPServeHTTP) {
			return 1
		}
		return 0
	})
	wh := countOnPaths(fn, func(i ssa.Instruction) int {
		if isCall(i, nWriteHeader) {
			return 1
		}
		return 0
	})
	both := countOnPaths(fn, func(i ssa.Instruction) int {
		if isCall(i, nRPServeHTTP, nWriteHeader) {
			return 1
		}
		return 0
	})
	o.Check(both.Min == 1 && both.Max == 1 && !both.InLoop, "on some path the handler does not do exactly one of {answer locally, forward}: min=%d max=%d", both.Min, both.Max)
	o.Check(fw.Max == 1 && wh.Max == 1, "forward/answer can happen more than once: forward max=%d, answer max=%d", fw.Max, wh.Max)
	// any other write to w (Write, Header) must be on the probe path
	nForward, nAnswer := 0, 0
	eachInstr(fn, func(i ssa.Instruction) {
		gs := c.guardStrs(i.Block())
		probeTrue := hasGuardContaining(gs, "+", "dyn:p0.IsProbeRequest(p2)") && hasGuard(gs, "+(nil != p0.IsProbeRequest)")
		probeFalse := !probeTrue && !hasGuardContaining(gs, "+", "dyn:p0.IsProbeRequest(p2)")
		switch {
		case isCall(i, nRPServeHTTP):
			nForward++
			o.AtI(i)
			a := callOf(i).Args
			o.Check(c.Expr(a[0]) == "p0.reverseProxy" && c.Expr(a[1]) == "p1" && c.Expr(a[2]) == "p2", "forward call is %s, want reverseProxy.ServeHTTP(w, req) with the handler's own arguments", c.Expr(i.(ssa.Value)))
			o.Check(probeFalse, "the forward is on the probe path; guards %v", gs)
			// the forward is reached exactly by the two negations of the probe test, nothing else decides
			for _, p := range i.Block().Preds {
				eg := edgeGuards(c, p, i.Block())
				if len(eg) == 0 {
					continue
				}
				last := eg[len(eg)-1]
				okEdge := last == canonStr("-(nil != p0.IsProbeRequest)") || last == "-dyn:p0.IsProbeRequest(p2)"
				o.Check(okEdge, "a request is forwarded instead of being answered locally because of the extra condition %s: only `IsProbeRequest == nil` or `!IsProbeRequest(req)` may send a request to the backend", last)
				for _, g := range eg[:len(eg)-1] {
					o.Check(g == "+(nil != p0.IsProbeRequest)", "forward edge additionally depends on %s", g)
				}
			}
			o.Check(len(gs) == 0 || !hasGuardContaining(gs, "+", "IsProbeRequest"), "forward guarded by %v", gs)
		case isCall(i, nWriteHeader):
			nAnswer++
			o.AtI(i)
			a := callArgs(callOf(i))
			code, ok := constInt(a[1])
			o.Check(c.Expr(a[0]) == "p1" && ok && code == 200, "local answer status is %s, want 200 on the handler's ResponseWriter", c.Expr(a[1]))
			o.Check(probeTrue, "the local answer is not guarded by IsProbeRequest != nil && IsProbeRequest(req); guards %v", gs)
			o.Check(onlyGuards(c, i.Block(), "+dyn:p0.IsProbeRequest(p2)", "+(nil != p0.IsProbeRequest)") == "", "the local answer additionally depends on %s", onlyGuards(c, i.Block(), "+dyn:p0.IsProbeRequest(p2)", "+(nil != p0.IsProbeRequest)"))
		case isCall(i, nRWWrite):
			o.AtI(i)
			a := callArgs(callOf(i))
			o.Check(c.Expr(a[0]) == "p1" && c.Expr(a[1]) == `"OK"`, "local answer body is %s, want \"OK\"", c.Expr(a[1]))
			o.Check(probeTrue, "body write outside the probe path; guards %v", gs)
			// preceded by WriteHeader
			for _, h := range callsIn(fn, nWriteHeader) {
				o.Check(instrDominates(h, i), "body is written before the status")
			}
		default:
			if cc := callOf(i); cc != nil {
				n := calleeName(cc)
				if strings.HasPrefix(n, "(net/http.ResponseWriter).") || strings.HasPrefix(n, "(net/http.Header).") {
					o.AtI(i).Fail("handler touches the response itself via %s", n)
				}
			}
		}
	})
	o.Check(nForward == 1 && nAnswer == 1, "expected one forward site and one local-answer site, found %d/%d", nForward, nAnswer)
	// the body write must follow on the answer path: every path from WriteHeader to return passes Write("OK")
	for _, h := range callsIn(fn, nWriteHeader) {
		p := c.escapePath(fn, h, func(i ssa.Instruction) bool { return isCall(i, nRWWrite) }, isReturn)
		o.Check(p == nil, "a probe is answered without the body: %v", p)
	}
	// the request is not modified on the forward path (shared with C08.R2)
	eachInstr(fn, func(i ssa.Instruction) {
		if st, ok := i.(*ssa.Store); ok {
			if strings.HasPrefix(c.Expr(st.Addr), "p2") {
				o.AtI(i).Fail("handler writes to the inbound request: %s", c.Expr(st.Addr))
			}
		}
	})
}

func c15r2(r *R) {
	c := r.C
	fn := c.Func("pkg/reverseproxy", "IsKubernetesProbeRequest")
	r.need(fn != nil, "reverseproxy.IsKubernetesProbeRequest not found")
	o := r.Ob("C15.R2", "predicate:"+funcName(fn)).At(fn.Pos())
	n := 0
	eachInstr(fn, func(i ssa.Instruction) {
		ret, ok := i.(*ssa.Return)
		if !ok {
			return
		}
		n++
		e := c.Expr(ret.Results[0])
		o.AtI(i)
		// HasPrefix, or CutPrefix's `found` result, which is defined as HasPrefix
		o.Check(e == `strings.HasPrefix((*net/http.Request).UserAgent(p0), "kube-probe/")` || e == `strings.CutPrefix((*net/http.Request).UserAgent(p0), "kube-probe/")#1`, "predicate returns %s, want strings.HasPrefix(r.UserAgent(), \"kube-probe/\")", e)
	})
	o.Check(n == 1, "predicate has %d return sites, want 1", n)
}

func c15r3(r *R) {
	c := r.C
	h := c.Named("pkg/reverseproxy", "HTTPHandler")
	r.need(h != nil, "HTTPHandler type not found")
	acc := fieldAccesses(c.FuncsIn(productPkgs...), h, "IsProbeRequest")
	nw := 0
	for _, a := range acc {
		if a.Kind != "write" {
			continue
		}
		nw++
		st := a.Instr.(*ssa.Store)
		o := r.Ob("C15.R3", "install:"+funcName(a.Fn)).AtI(a.Instr)
		e := c.Expr(st.Val)
		o.Check(e == "func:reverseproxy.IsKubernetesProbeRequest", "IsProbeRequest is set to %s", e)
		gs := c.guardStrs(st.Block())
		o.Check(hasGuard(gs, "+fingerproxy.flagEnableKubernetesProbe"), "predicate is installed outside the true edge of *flagEnableKubernetesProbe; guards %v", gs)
	}
	r.Ob("C15.R3", "instances").Check(nw == 1, "IsProbeRequest has %d writers in product code, want 1", nw)
	// flag registration name
	initFlags := c.Func("", "initFlags")
	r.need(initFlags != nil, "initFlags not found")
	o := r.Ob("C15.R3", "flag-name").At(initFlags.Pos())
	o.Check(flagRegisteredAs(c, initFlags, "flagEnableKubernetesProbe") == "enable-kubernetes-probe", "flagEnableKubernetesProbe registered as %q", flagRegisteredAs(c, initFlags, "flagEnableKubernetesProbe"))
	// the flag variable is written only by initFlags
	g := c.Global("", "flagEnableKubernetesProbe")
	r.need(g != nil, "flag global not found")
	for _, w := range globalWriters(c.FuncsIn(), g) {
		o.Check(w.Fn == initFlags, "flagEnableKubernetesProbe is written in %s", funcName(w.Fn))
	}
}

// flagRegisteredAs returns the flag name passed to flag.X(...) whose result is stored in global `name`.
func flagRegisteredAs(c *Ctx, initFlags *ssa.Function, name string) string {
	out := ""
	eachInstr(initFlags, func(i ssa.Instruction) {
		st, ok := i.(*ssa.Store)
		if !ok {
			return
		}
		g, ok := st.Addr.(*ssa.Global)
		if !ok || g.Name() != c.nowName("", name) {
			return
		}
		if call, ok := st.Val.(*ssa.Call); ok && strings.HasPrefix(calleeName(&call.Call), "flag.") {
			out, _ = constString(call.Call.Args[0])
		}
	})
	if out != "" {
		return out
	}
	// table-driven registration: `for _, f := range []T{{&flagX, "name", …}, …} { *f.target = flag.String(f.name, …) }`
	// — the element of the literal that carries &flagX says under which name flagX is registered
	type elemKey struct {
		al  *ssa.Alloc
		idx int64
	}
	strs := map[elemKey]map[int]string{} // element -> field index -> constant string
	var mine *elemKey
	targetField := -1
	eachInstr(initFlags, func(i ssa.Instruction) {
		st, ok := i.(*ssa.Store)
		if !ok {
			return
		}
		fa, ok := st.Addr.(*ssa.FieldAddr)
		if !ok {
			return
		}
		ia, ok := fa.X.(*ssa.IndexAddr)
		if !ok {
			return
		}
		al, ok := ia.X.(*ssa.Alloc)
		k, isC := constInt(ia.Index)
		if !ok || !isC || al.Comment != "slicelit" {
			return
		}
		ek := elemKey{al, k}
		if g, isG := st.Val.(*ssa.Global); isG && g.Name() == c.nowName("", name) {
			mine = &ek
			targetField = fa.Field
		}
		if sv, isS := constString(st.Val); isS {
			if strs[ek] == nil {
				strs[ek] = map[int]string{}
			}
			strs[ek][fa.Field] = sv
		}
	})
	if mine == nil {
		return ""
	}
	// the registering store: *elem.target = flag.X(elem.<nameField>, …) in a loop over that literal
	eachInstr(initFlags, func(i ssa.Instruction) {
		st, ok := i.(*ssa.Store)
		if !ok {
			return
		}
		ld, ok := st.Addr.(*ssa.UnOp)
		if !ok || ld.Op != token.MUL {
			return
		}
		tfa, ok := ld.X.(*ssa.FieldAddr)
		if !ok || tfa.Field != targetField {
			return
		}
		call, ok := st.Val.(*ssa.Call)
		if !ok || !strings.HasPrefix(calleeName(&call.Call), "flag.") {
			return
		}
		nld, ok := call.Call.Args[0].(*ssa.UnOp)
		if !ok || nld.Op != token.MUL {
			return
		}
		nfa, ok := nld.X.(*ssa.FieldAddr)
		if !ok || nfa.X != tfa.X {
			return // name and target must come from the same element
		}
		out = strs[*mine][nfa.Field]
	})
	return out
}

// R4: the on/off switch reaches the flag from the environment/command line unchanged.
func c15r4(r *R) {
	c := r.C
	initFlags := c.Func("", "initFlags")
	r.need(initFlags != nil, "initFlags not found")
	o := r.Ob("C15.R4", "flag-default-from-env").At(initFlags.Pos())
	found := false
	eachInstr(initFlags, func(i ssa.Instruction) {
		st, ok := i.(*ssa.Store)
		if !ok {
			return
		}
		g, ok := st.Addr.(*ssa.Global)
		if !ok || g.Name() != c.nowName("", "flagEnableKubernetesProbe") {
			return
		}
		found = true
		o.AtI(i)
		e := c.Expr(st.Val)
		o.Check(strings.HasPrefix(e, `flag.Bool("enable-kubernetes-probe", fingerproxy.envWithDefaultBool("ENABLE_KUBERNETES_PROBE", true), `), "the probe switch is registered as %s", e)
	})
	o.Check(found, "flagEnableKubernetesProbe is not initialised in initFlags")
	ef := c.Func("", "envWithDefaultBool")
	r.need(ef != nil, "envWithDefaultBool not found")
	o2 := r.Ob("C15.R4", "env-bool-parsing:"+funcName(ef)).At(ef.Pos())
	// Every way of returning is justified by the conditions of its path: where the (lower-cased) value compared equal to
	// "true" only true is returned, where it compared equal to "false" only false; a literal result needs *some* test of
	// the value on its path (further accepted spellings are not this property's business); strconv.ParseBool's result
	// needs its error tested nil; with the variable unset the default is returned.
	hasLit := func(lits []string, pre string, mid string) bool {
		for _, l := range lits {
			if strings.HasPrefix(l, pre) && strings.Contains(l, mid) {
				return true
			}
		}
		return false
	}
	const val = "os.LookupEnv(p0)#0"
	seen := map[string]bool{}
	alts := c.returnAlts(ef, 0)
	for _, ra := range alts {
		o2.AtI(ra.Ret)
		isTrue, isFalse := hasLit(ra.Lits, `+("true" == `, val), hasLit(ra.Lits, `+("false" == `, val)
		parsed := strings.HasPrefix(ra.E, "strconv.ParseBool(") && strings.HasSuffix(ra.E, "#0") && strings.Contains(ra.E, val)
		if isTrue {
			seen["true"] = true
			o2.Check(ra.E == "true", "with the environment value \"true\" envWithDefaultBool returns %s (conditions %v)", ra.E, ra.Lits)
		}
		if isFalse {
			seen["false"] = true
			o2.Check(ra.E == "false", "with the environment value \"false\" envWithDefaultBool returns %s (conditions %v): an explicit ENABLE_KUBERNETES_PROBE=false would not disable probe answers", ra.E, ra.Lits)
		}
		switch {
		case isTrue || isFalse:
		case ra.E == "true" || ra.E == "false":
			tested := false
			for _, l := range ra.Lits {
				if strings.HasPrefix(l, `+("`) && strings.Contains(l, `" == `) && strings.Contains(l, val) {
					tested = true
				}
			}
			o2.Check(tested, "envWithDefaultBool returns %s on a path that does not compare the environment value with anything (conditions %v)", ra.E, ra.Lits)
		case parsed:
			seen["true"], seen["false"] = true, true
			call := strings.TrimSuffix(ra.E, "#0")
			o2.Check(hasLit(ra.Lits, "+(nil == "+call+"#1)", ""), "envWithDefaultBool returns the result of strconv.ParseBool without its error being nil (conditions %v)", ra.Lits)
		case ra.E == "p1":
			// the default: fine when unset or not recognised (the two recognised spellings were handled above); a value
			// that strconv.ParseBool accepted is recognised
			o2.Check(!hasLit(ra.Lits, "+(nil == strconv.ParseBool(", "#1)"), "envWithDefaultBool returns the default although strconv.ParseBool accepted the value (conditions %v): an explicit ENABLE_KUBERNETES_PROBE=false would not disable probe answers", ra.Lits)
		default:
			o2.Fail("envWithDefaultBool returns %s (conditions %v): neither a boolean decided by the value nor the default", ra.E, ra.Lits)
		}
		if hasLit(ra.Lits, "-os.LookupEnv(p0)#1", "") {
			o2.Check(ra.E == "p1", "with the variable unset envWithDefaultBool returns %s, want the default", ra.E)
		}
	}
	o2.Check(len(alts) > 0 && seen["true"] && seen["false"], "envWithDefaultBool does not recognise both \"true\" and \"false\" (neither comparisons nor strconv.ParseBool)")
}
