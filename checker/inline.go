package main

// Normalisation of newly extracted helpers.
//
// The rules are anchored on the functions that exist on the reviewed tree (spec/known_funcs.json). When a later
// change moves statements of such a function into a NEW unexported helper of the same package ("extract function"),
// the behaviour is unchanged but the shape the rules look at is gone. Before the rules run, every statically resolved
// call of a function that is not in the reviewed table is therefore expanded in place, at source level, through the
// go/packages overlay: parameters are bound to fresh variables, the body is copied into a labelled `switch { default: }`
// block, `return` becomes an assignment to fresh result variables plus `break`. The program analysed is equivalent to
// the one on disk (same statements in the same order, evaluated once), only without the call indirection. Calls that
// cannot be expanded safely (defer/recover in the callee, recursion, variadics, calls in the middle of an expression
// whose earlier operands have effects, embedded-receiver promotion) are left alone: the rules then see a call to an
// unknown function, exactly as before.

import (
	"bytes"
	"encoding/json"
	"fmt"
	"go/ast"
	"go/parser"
	"go/printer"
	"go/token"
	"go/types"
	"os"
	"path/filepath"
	"sort"
	"strconv"
	"strings"

	"golang.org/x/tools/go/packages"
)

var verifDir = "/verif"

const inlMarker = "ZZINLN"

func knownFuncsPath() string { return filepath.Join(specDir, "known_funcs.json") }

// knownFn: what the reviewed table records about a function, enough to recognise it after a rename.
type knownFn struct {
	File   string   `json:"file"`
	Sig    string   `json:"sig"`
	Params []string `json:"params,omitempty"` // parameter names in order ("" when unnamed)
	Calls  []string `json:"calls"`
	Writes []string `json:"writes,omitempty"` // receiver fields the body assigns directly (outfield.go)
	Lits   []knownLit `json:"lits,omitempty"`  // function literals in source order (litalias.go)
}

// declParamNames: the parameter names of a declaration, flattened, in order.
func declParamNames(fd *ast.FuncDecl) []string {
	var out []string
	if fd.Type.Params == nil {
		return nil
	}
	for _, f := range fd.Type.Params.List {
		if len(f.Names) == 0 {
			out = append(out, "")
			continue
		}
		for _, n := range f.Names {
			out = append(out, n.Name)
		}
	}
	return out
}

var knownInfo map[string]knownFn

func loadKnownFuncs() map[string]bool {
	b, err := os.ReadFile(knownFuncsPath())
	if err != nil {
		return nil
	}
	var l map[string]knownFn
	if json.Unmarshal(b, &l) != nil {
		return nil
	}
	knownInfo = l
	m := map[string]bool{}
	for k := range l {
		m[k] = true
	}
	return m
}

// declSig: the parameter and result types of a declaration as written (names dropped).
func declSig(fset *token.FileSet, fd *ast.FuncDecl) string {
	part := func(fl *ast.FieldList) string {
		if fl == nil {
			return ""
		}
		var ts []string
		for _, f := range fl.List {
			var buf bytes.Buffer
			printer.Fprint(&buf, fset, f.Type)
			n := len(f.Names)
			if n == 0 {
				n = 1
			}
			for i := 0; i < n; i++ {
				ts = append(ts, buf.String())
			}
		}
		return strings.Join(ts, ",")
	}
	return "(" + part(fd.Type.Params) + ")(" + part(fd.Type.Results) + ")"
}

// declCalls: names called and string literals used in the body (a cheap fingerprint of what the function does).
func declCalls(fd *ast.FuncDecl) []string {
	set := map[string]bool{}
	if fd.Body != nil {
		ast.Inspect(fd.Body, func(n ast.Node) bool {
			switch x := n.(type) {
			case *ast.CallExpr:
				switch f := ast.Unparen(x.Fun).(type) {
				case *ast.Ident:
					set[f.Name] = true
				case *ast.SelectorExpr:
					set[f.Sel.Name] = true
				}
			case *ast.BasicLit:
				if x.Kind == token.STRING && len(x.Value) < 60 {
					set[x.Value] = true
				}
			}
			return true
		})
	}
	var out []string
	for k := range set {
		out = append(out, k)
	}
	sort.Strings(out)
	return out
}

func recvTypeName(fd *ast.FuncDecl) string {
	if fd.Recv == nil || len(fd.Recv.List) == 0 {
		return ""
	}
	t := fd.Recv.List[0].Type
	for {
		switch x := t.(type) {
		case *ast.StarExpr:
			t = x.X
			continue
		case *ast.ParenExpr:
			t = x.X
			continue
		case *ast.IndexExpr:
			t = x.X
			continue
		case *ast.IndexListExpr:
			t = x.X
			continue
		case *ast.Ident:
			return x.Name
		}
		return "?"
	}
}

// recvAlias: current receiver type name -> reviewed name, per package dir ("rel|Type").
var recvAlias = map[string]string{}

func funcDeclKey(relDir string, fd *ast.FuncDecl) string {
	rt := recvTypeName(fd)
	if a, ok := recvAlias[relDir+"|"+rt]; ok {
		rt = a
	}
	return relDir + "|" + rt + "." + fd.Name.Name
}

// genKnownFuncs lists every function declaration of the module's non-test files (all build configurations).
func genKnownFuncs(repo string) (map[string]knownFn, error) {
	keys := map[string]knownFn{}
	fset := token.NewFileSet()
	err := filepath.Walk(repo, func(p string, fi os.FileInfo, err error) error {
		if err != nil {
			return nil
		}
		if fi.IsDir() {
			if n := fi.Name(); p != repo && (strings.HasPrefix(n, ".") || n == "testdata" || n == "vendor") {
				return filepath.SkipDir
			}
			return nil
		}
		if !strings.HasSuffix(p, ".go") || strings.HasSuffix(p, "_test.go") {
			return nil
		}
		f, perr := parseFile(fset, p)
		if perr != nil {
			return nil
		}
		rel, _ := filepath.Rel(repo, filepath.Dir(p))
		for _, d := range f.Decls {
			if fd, ok := d.(*ast.FuncDecl); ok {
				keys[funcDeclKey(rel, fd)] = knownFn{File: filepath.Base(p), Sig: declSig(fset, fd), Params: declParamNames(fd), Calls: declCalls(fd), Writes: declWrites(fd), Lits: declLits(fset, fd.Body)}
			}
		}
		return nil
	})
	return keys, err
}

// ---- struct fields: a field that keeps its position and type but changes its name keeps its reviewed name in renderings

type knownField struct {
	Name string `json:"name"`
	Type string `json:"type"`
}

func knownFieldsPath() string { return filepath.Join(specDir, "known_fields.json") }

func structFieldsOf(fset *token.FileSet, st *ast.StructType) []knownField {
	var out []knownField
	for _, f := range st.Fields.List {
		var buf bytes.Buffer
		printer.Fprint(&buf, fset, f.Type)
		if len(f.Names) == 0 {
			out = append(out, knownField{"", buf.String()})
			continue
		}
		for _, n := range f.Names {
			out = append(out, knownField{n.Name, buf.String()})
		}
	}
	return out
}

func genKnownFields(repo string) (map[string][]knownField, error) {
	out := map[string][]knownField{}
	fset := token.NewFileSet()
	err := filepath.Walk(repo, func(p string, fi os.FileInfo, err error) error {
		if err != nil {
			return nil
		}
		if fi.IsDir() {
			if n := fi.Name(); p != repo && (strings.HasPrefix(n, ".") || n == "testdata" || n == "vendor") {
				return filepath.SkipDir
			}
			return nil
		}
		if !strings.HasSuffix(p, ".go") || strings.HasSuffix(p, "_test.go") {
			return nil
		}
		f, perr := parseFile(fset, p)
		if perr != nil {
			return nil
		}
		rel, _ := filepath.Rel(repo, filepath.Dir(p))
		for _, d := range f.Decls {
			gd, ok := d.(*ast.GenDecl)
			if !ok || gd.Tok != token.TYPE {
				continue
			}
			for _, sp := range gd.Specs {
				ts := sp.(*ast.TypeSpec)
				if st, ok := ts.Type.(*ast.StructType); ok {
					out[rel+"|"+ts.Name.Name] = structFieldsOf(fset, st)
				}
			}
		}
		return nil
	})
	return out, err
}

// fieldAlias: field object -> reviewed name (consulted by fieldName).
var fieldAlias = map[*types.Var]string{}

// fieldTransparent: fields that only group reviewed fields of their struct into a new nested struct type.
// fieldOwner: a field of such a nested struct -> the reviewed struct type it belongs to.
var fieldTransparent = map[*types.Var]bool{}
var fieldOwner = map[*types.Var]*types.TypeName{}

func detectFieldRenames(c *Ctx) []string {
	fieldAlias = map[*types.Var]string{}
	fieldTransparent = map[*types.Var]bool{}
	fieldOwner = map[*types.Var]*types.TypeName{}
	b, err := os.ReadFile(knownFieldsPath())
	if err != nil {
		return nil
	}
	var known map[string][]knownField
	if json.Unmarshal(b, &known) != nil {
		return nil
	}
	var notes []string
	for _, p := range c.Pkgs {
		if !(p.PkgPath == modPath || strings.HasPrefix(p.PkgPath, modPath+"/")) || strings.Contains(p.PkgPath, "/zz_ref_") || p.TypesInfo == nil {
			continue
		}
		for _, f := range p.Syntax {
			rel, err := filepath.Rel(c.Cfg.Dir, filepath.Dir(c.Fset.Position(f.Pos()).Filename))
			if err != nil {
				continue
			}
			for _, d := range f.Decls {
				gd, ok := d.(*ast.GenDecl)
				if !ok || gd.Tok != token.TYPE {
					continue
				}
				for _, sp := range gd.Specs {
					ts := sp.(*ast.TypeSpec)
					st, ok := ts.Type.(*ast.StructType)
					old, has := known[rel+"|"+ts.Name.Name]
					if !ok || !has {
						continue
					}
					cur := structFieldsOf(c.Fset, st)
					same := len(cur) == len(old)
					for i := 0; same && i < len(cur); i++ {
						if cur[i].Type != old[i].Type {
							same = false
						}
					}
					if !same {
						notes = append(notes, detectFieldGrouping(c, p, rel, ts, old, known)...)
						continue
					}
					tn, _ := p.TypesInfo.Defs[ts.Name].(*types.TypeName)
					if tn == nil {
						continue
					}
					tst, _ := tn.Type().Underlying().(*types.Struct)
					if tst == nil || tst.NumFields() != len(cur) {
						continue
					}
					curNames := map[string]bool{}
					for _, x := range cur {
						curNames[x.Name] = true
					}
					for i := range cur {
						if cur[i].Name != old[i].Name && old[i].Name != "" && cur[i].Name != "" && !curNames[old[i].Name] {
							fieldAlias[tst.Field(i)] = old[i].Name
							notes = append(notes, fmt.Sprintf("field %s.%s is the reviewed field %s under a new name", ts.Name.Name, cur[i].Name, old[i].Name))
						}
					}
				}
			}
		}
	}
	sort.Strings(notes)
	return notes
}

// detectFieldGrouping: the reviewed fields of a struct are all still there, some of them moved (possibly renamed) into
// fields of new unexported struct types that exist only to group them. The grouping fields become transparent and the
// moved fields keep their reviewed owner and name. Nothing is set unless every reviewed field is accounted for and no
// field is left over.
func detectFieldGrouping(c *Ctx, p *packages.Package, rel string, ts *ast.TypeSpec, old []knownField, known map[string][]knownField) []string {
	tn, _ := p.TypesInfo.Defs[ts.Name].(*types.TypeName)
	if tn == nil {
		return nil
	}
	tst, _ := tn.Type().Underlying().(*types.Struct)
	if tst == nil {
		return nil
	}
	type flat struct {
		v         *types.Var
		container *types.Var
		typ       string
	}
	typeText := func(t types.Type) string {
		return types.TypeString(t, func(q *types.Package) string {
			if q == p.Types {
				return ""
			}
			return q.Name()
		})
	}
	var cur []flat
	for i := 0; i < tst.NumFields(); i++ {
		f := tst.Field(i)
		if nt, ok := f.Type().(*types.Named); ok && nt.Obj().Pkg() == p.Types {
			if inner, ok := nt.Underlying().(*types.Struct); ok {
				if _, reviewed := known[rel+"|"+nt.Obj().Name()]; !reviewed && typeUsedOnlyBy(p, nt.Obj(), f) {
					for j := 0; j < inner.NumFields(); j++ {
						cur = append(cur, flat{inner.Field(j), f, typeText(inner.Field(j).Type())})
					}
					continue
				}
			}
		}
		cur = append(cur, flat{f, nil, typeText(f.Type())})
	}
	if len(cur) != len(old) {
		return nil
	}
	norm := func(s string) string { return strings.Join(strings.Fields(s), "") }
	used := make([]bool, len(cur))
	match := make([]int, len(old))
	for i := range match {
		match[i] = -1
	}
	// same name and type first
	for i, o := range old {
		for j, x := range cur {
			if !used[j] && x.v.Name() == o.Name && norm(x.typ) == norm(o.Type) {
				used[j], match[i] = true, j
				break
			}
		}
	}
	// then the leftovers of each type, in declaration order (there must be as many old as new ones of that type)
	for i, o := range old {
		if match[i] >= 0 {
			continue
		}
		nOld, nNew := 0, 0
		for i2, o2 := range old {
			if match[i2] < 0 && norm(o2.Type) == norm(o.Type) {
				nOld++
			}
		}
		cand := -1
		for j, x := range cur {
			if !used[j] && norm(x.typ) == norm(o.Type) {
				nNew++
				if cand < 0 {
					cand = j
				}
			}
		}
		if cand < 0 || nOld != nNew {
			return nil
		}
		used[cand], match[i] = true, cand
	}
	var notes []string
	grouped := false
	for i, o := range old {
		x := cur[match[i]]
		if x.container != nil {
			grouped = true
			fieldTransparent[x.container] = true
			fieldOwner[x.v] = tn
			notes = append(notes, fmt.Sprintf("field %s.%s.%s is the reviewed field %s.%s moved into a grouping struct", ts.Name.Name, x.container.Name(), x.v.Name(), ts.Name.Name, o.Name))
		}
		if x.v.Name() != o.Name && o.Name != "" {
			fieldAlias[x.v] = o.Name
			if x.container == nil {
				notes = append(notes, fmt.Sprintf("field %s.%s is the reviewed field %s under a new name", ts.Name.Name, x.v.Name(), o.Name))
			}
		}
	}
	if !grouped && len(notes) == 0 {
		return nil
	}
	return notes
}

// typeUsedOnlyBy: no other struct field and no package-level variable of the package has the named type (by value or by
// pointer): every value of the type that lives beyond a function call is the field f of its owner.
func typeUsedOnlyBy(p *packages.Package, tn *types.TypeName, f *types.Var) bool {
	is := func(t types.Type) bool {
		if pt, ok := t.(*types.Pointer); ok {
			t = pt.Elem()
		}
		n, ok := t.(*types.Named)
		return ok && n.Obj() == tn
	}
	sc := p.Types.Scope()
	for _, name := range sc.Names() {
		switch o := sc.Lookup(name).(type) {
		case *types.Var:
			if is(o.Type()) {
				return false
			}
		case *types.TypeName:
			if st, ok := o.Type().Underlying().(*types.Struct); ok {
				for i := 0; i < st.NumFields(); i++ {
					if st.Field(i) != f && is(st.Field(i).Type()) {
						return false
					}
				}
			}
		}
	}
	return true
}

// ---- package-level identifiers (variables, constants, types): same declaration text under a new name

type knownIdent struct {
	File string `json:"file"`
	Kind string `json:"kind"`
	Text string `json:"text"`
}

func knownIdentsPath() string { return filepath.Join(specDir, "known_idents.json") }

// declaredIdents lists the package-level vars/consts/types of a file with the text of their declaration (name left out).
func declaredIdents(fset *token.FileSet, f *ast.File) map[string]knownIdent {
	out := map[string]knownIdent{}
	txt := func(n ast.Node) string {
		if n == nil || isNilNode(n) {
			return ""
		}
		// comments attached to struct fields are not part of the declaration's identity
		type saved struct {
			f    *ast.Field
			d, c *ast.CommentGroup
		}
		var sv []saved
		ast.Inspect(n, func(m ast.Node) bool {
			if fl, ok := m.(*ast.Field); ok && (fl.Doc != nil || fl.Comment != nil) {
				sv = append(sv, saved{fl, fl.Doc, fl.Comment})
				fl.Doc, fl.Comment = nil, nil
			}
			return true
		})
		var buf bytes.Buffer
		printer.Fprint(&buf, fset, n)
		for _, x := range sv {
			x.f.Doc, x.f.Comment = x.d, x.c
		}
		return strings.Join(strings.Fields(buf.String()), " ")
	}
	file := filepath.Base(fset.Position(f.Pos()).Filename)
	for _, d := range f.Decls {
		gd, ok := d.(*ast.GenDecl)
		if !ok {
			continue
		}
		for _, sp := range gd.Specs {
			switch x := sp.(type) {
			case *ast.TypeSpec:
				out[x.Name.Name] = knownIdent{file, "type", txt(x.Type)}
			case *ast.ValueSpec:
				kind := "var"
				if gd.Tok == token.CONST {
					kind = "const"
				}
				for i, n := range x.Names {
					if n.Name == "_" {
						continue
					}
					v := ""
					if i < len(x.Values) {
						v = txt(x.Values[i])
					} else if len(x.Values) == 1 {
						v = txt(x.Values[0]) + "#" + strconv.Itoa(i)
					}
					var t string
					if x.Type != nil {
						t = txt(x.Type)
					}
					out[n.Name] = knownIdent{file, kind, t + "=" + v}
				}
			}
		}
	}
	return out
}

func genKnownIdents(repo string) (map[string]knownIdent, error) {
	out := map[string]knownIdent{}
	fset := token.NewFileSet()
	err := filepath.Walk(repo, func(p string, fi os.FileInfo, err error) error {
		if err != nil {
			return nil
		}
		if fi.IsDir() {
			if n := fi.Name(); p != repo && (strings.HasPrefix(n, ".") || n == "testdata" || n == "vendor") {
				return filepath.SkipDir
			}
			return nil
		}
		if !strings.HasSuffix(p, ".go") || strings.HasSuffix(p, "_test.go") {
			return nil
		}
		f, perr := parser.ParseFile(fset, p, nil, parser.SkipObjectResolution)
		if perr != nil {
			return nil
		}
		rel, _ := filepath.Rel(repo, filepath.Dir(p))
		for n, ki := range declaredIdents(fset, f) {
			out[rel+"|"+n] = ki
		}
		return nil
	})
	return out, err
}

// identSubst: rendered `pkgname.New` -> `pkgname.Old` for renamed package-level identifiers (applied by shorten and typeName).
var identSubst [][2]string

// detectIdentRenames fills c.IdentNow (reviewed name -> current name per package dir) and identSubst.
func detectIdentRenames(c *Ctx) []string {
	identSubst = nil
	c.IdentNow = map[string]string{}
	b, err := os.ReadFile(knownIdentsPath())
	if err != nil {
		return nil
	}
	var known map[string]knownIdent
	if json.Unmarshal(b, &known) != nil {
		return nil
	}
	var notes []string
	for _, p := range c.Pkgs {
		if !(p.PkgPath == modPath || strings.HasPrefix(p.PkgPath, modPath+"/")) || strings.Contains(p.PkgPath, "/zz_ref_") || len(p.Syntax) == 0 {
			continue
		}
		cur := map[string]knownIdent{}
		loaded := map[string]bool{}
		rel := ""
		for _, f := range p.Syntax {
			fn := c.Fset.Position(f.Pos()).Filename
			r, err := filepath.Rel(c.Cfg.Dir, filepath.Dir(fn))
			if err != nil {
				continue
			}
			rel = r
			loaded[filepath.Base(fn)] = true
			for n, ki := range declaredIdents(c.Fset, f) {
				cur[n] = ki
			}
		}
		var fresh, missing []string
		for n := range cur {
			if _, ok := known[rel+"|"+n]; !ok {
				fresh = append(fresh, n)
			}
		}
		for k, ki := range known {
			if !strings.HasPrefix(k, rel+"|") {
				continue
			}
			n := k[len(rel)+1:]
			if _, ok := cur[n]; ok {
				continue
			}
			if _, err := os.Stat(filepath.Join(c.Cfg.Dir, rel, ki.File)); err == nil && !loaded[ki.File] {
				continue
			}
			missing = append(missing, n)
		}
		if len(fresh) == 0 || len(missing) == 0 {
			continue
		}
		sort.Strings(fresh)
		sort.Strings(missing)
		// a renamed type changes the text of declarations that mention it: compare modulo the candidate pair itself
		norm := func(text, name string) string {
			return replaceIdent(text, name, "\x00")
		}
		fw := map[string][]string{}
		bw := map[string][]string{}
		for _, nf := range fresh {
			for _, om := range missing {
				a, bk := cur[nf], known[rel+"|"+om]
				if a.Kind == bk.Kind && norm(a.Text, nf) == norm(bk.Text, om) {
					fw[nf] = append(fw[nf], om)
					bw[om] = append(bw[om], nf)
				}
			}
		}
		for nf, oms := range fw {
			if len(oms) == 1 && len(bw[oms[0]]) == 1 {
				c.IdentNow[rel+"|"+oms[0]] = nf
				q := p.Name
				identSubst = append(identSubst, [2]string{q + "." + nf, q + "." + oms[0]})
				notes = append(notes, fmt.Sprintf("%s %s.%s is the reviewed %s under a new name", cur[nf].Kind, q, nf, oms[0]))
			}
		}
	}
	sort.Strings(notes)
	return notes
}

// replaceIdent replaces whole-identifier occurrences of name in text.
func replaceIdent(text, name, with string) string {
	var b strings.Builder
	isID := func(ch byte) bool {
		return ch == '_' || ch >= '0' && ch <= '9' || ch >= 'a' && ch <= 'z' || ch >= 'A' && ch <= 'Z'
	}
	for i := 0; i < len(text); {
		if strings.HasPrefix(text[i:], name) && (i == 0 || !isID(text[i-1])) && (i+len(name) >= len(text) || !isID(text[i+len(name)])) {
			b.WriteString(with)
			i += len(name)
			continue
		}
		b.WriteByte(text[i])
		i++
	}
	return b.String()
}

// nowName: the current name of a reviewed package-level identifier.
func (c *Ctx) nowName(rel, name string) string {
	if rel == "" {
		rel = "."
	}
	if n, ok := c.IdentNow[rel+"|"+name]; ok {
		return n
	}
	return name
}

func applySubst(s string, table [][2]string) string {
	for _, r := range table {
		s = replaceQualified(s, r[0], r[1])
	}
	return s
}

func replaceQualified(s, from, to string) string {
	isID := func(ch byte) bool {
		return ch == '_' || ch >= '0' && ch <= '9' || ch >= 'a' && ch <= 'z' || ch >= 'A' && ch <= 'Z'
	}
	for at := 0; ; {
		i := strings.Index(s[at:], from)
		if i < 0 {
			return s
		}
		i += at
		end := i + len(from)
		if (end < len(s) && isID(s[end])) || (i > 0 && (isID(s[i-1]) || s[i-1] == '/')) {
			at = end
			continue
		}
		s = s[:i] + to + s[end:]
		at = i + len(to)
	}
}

// detectRenames pairs functions that are not in the reviewed table with reviewed functions that have disappeared
// from the same package: same receiver type, same signature as written, similar body fingerprint, and no other
// candidate. A pair is a rename: the function keeps its reviewed identity (it is not expanded, anchors and rendered
// names use the reviewed name).
func detectRenames(c *Ctx, known map[string]bool) (map[string]string, []string) {
	out := map[string]string{}
	var notes []string
	type decl struct {
		key string
		fd  *ast.FuncDecl
	}
	byDir := map[string][]decl{}
	present := map[string]bool{}
	loadedFiles := map[string]bool{}
	for _, p := range c.Pkgs {
		if !(p.PkgPath == modPath || strings.HasPrefix(p.PkgPath, modPath+"/")) || strings.Contains(p.PkgPath, "/zz_ref_") {
			continue
		}
		for _, f := range p.Syntax {
			fn := c.Fset.Position(f.Pos()).Filename
			rel, err := filepath.Rel(c.Cfg.Dir, filepath.Dir(fn))
			if err != nil || strings.HasPrefix(rel, "..") {
				continue
			}
			loadedFiles[rel+"/"+filepath.Base(fn)] = true
			for _, d := range f.Decls {
				if fd, ok := d.(*ast.FuncDecl); ok {
					k := funcDeclKey(rel, fd)
					present[k] = true
					if !known[k] {
						byDir[rel] = append(byDir[rel], decl{k, fd})
					}
				}
			}
		}
	}
	if len(byDir) == 0 {
		return out, nil
	}
	jaccard := func(a, b []string) float64 {
		if len(a) == 0 && len(b) == 0 {
			return 1
		}
		set := map[string]bool{}
		for _, x := range a {
			set[x] = true
		}
		inter := 0
		for _, x := range b {
			if set[x] {
				inter++
			}
		}
		return float64(inter) / float64(len(a)+len(b)-inter)
	}
	for rel, fresh := range byDir {
		var missing []string
		for k, info := range knownInfo {
			if !strings.HasPrefix(k, rel+"|") || present[k] {
				continue
			}
			// a reviewed function whose file still exists but is not part of this build configuration is not missing
			if _, err := os.Stat(filepath.Join(c.Cfg.Dir, rel, info.File)); err == nil && !loadedFiles[rel+"/"+info.File] {
				continue
			}
			missing = append(missing, k)
		}
		sort.Strings(missing)
		recvOf := func(k string) string { s := k[strings.Index(k, "|")+1:]; return s[:strings.LastIndex(s, ".")] }
		cand := map[string][]string{} // fresh key -> matching missing keys
		back := map[string][]string{}
		for _, d := range fresh {
			sig := declSig(c.Fset, d.fd)
			for k, old := range recvAlias {
				if strings.HasPrefix(k, rel+"|") {
					sig = replaceIdent(sig, k[len(rel)+1:], old)
				}
			}
			calls := declCalls(d.fd)
			for _, m := range missing {
				info := knownInfo[m]
				if recvOf(m) == recvOf(d.key) && info.Sig == sig && jaccard(info.Calls, calls) >= 0.5 {
					cand[d.key] = append(cand[d.key], m)
					back[m] = append(back[m], d.key)
				}
			}
		}
		for nk, ms := range cand {
			if len(ms) == 1 && len(back[ms[0]]) == 1 {
				out[nk] = ms[0]
				notes = append(notes, fmt.Sprintf("%s is the reviewed function %s under a new name", nk, ms[0]))
			}
		}
	}
	sort.Strings(notes)
	return out, notes
}

func parseFile(fset *token.FileSet, path string) (*ast.File, error) {
	return parser.ParseFile(fset, path, nil, parser.SkipObjectResolution)
}

type textEdit struct {
	pos, end int // byte offsets in the file
	text     string
}

type inlCallee struct {
	fd       *ast.FuncDecl
	obj      *types.Func
	file     *ast.File
	bodyText string // body statements with renamed params/results/labels and rewritten returns (marker in names)
	params   []inlVar
	results  []inlVar
	recv     *inlVar
	imports  map[string]string // local name -> path used by body or signature
	free     map[string]types.Object // package-level, file-level and universe names the body uses
	tparams  []string                // placeholders of the type parameters, in order
}

func isPkgName(o types.Object) bool { _, ok := o.(*types.PkgName); return ok }

type inlVar struct {
	name string // fresh name (with marker)
	typ  string // type expression text as written in the callee's file
}

// inlineNewHelpers returns overlay contents for files in which calls of unknown helpers were expanded, plus notes.
func inlineNewHelpers(c *Ctx, known map[string]bool, seq *int) (out map[string][]byte, notes []string) {
	defer func() {
		if p := recover(); p != nil {
			out = nil
			notes = append(notes, fmt.Sprintf("expansion of new helpers abandoned (internal error: %v); analysing the tree as it is", p))
		}
	}()
	out = map[string][]byte{}
	for _, p := range c.Pkgs {
		if !(p.PkgPath == modPath || strings.HasPrefix(p.PkgPath, modPath+"/")) || strings.Contains(p.PkgPath, "/zz_ref_") || p.TypesInfo == nil || len(p.Syntax) == 0 {
			continue
		}
		callees := map[*types.Func]*inlCallee{}
		for _, f := range p.Syntax {
			fn := c.Fset.Position(f.Pos()).Filename
			rel, err := filepath.Rel(c.Cfg.Dir, filepath.Dir(fn))
			if err != nil || strings.HasPrefix(rel, "..") {
				continue
			}
			for _, d := range f.Decls {
				fd, ok := d.(*ast.FuncDecl)
				if !ok || fd.Body == nil || known[funcDeclKey(rel, fd)] {
					continue
				}
				obj, _ := p.TypesInfo.Defs[fd.Name].(*types.Func)
				if obj == nil {
					continue
				}
				if why := inlEligible(p, fd); why != "" {
					notes = append(notes, fmt.Sprintf("new function %s is not expanded at its call sites: %s", funcDeclKey(rel, fd), why))
					continue
				}
				callees[obj] = &inlCallee{fd: fd, obj: obj, file: f}
			}
		}
		if os.Getenv("FPCHECK_DEBUG_NOTES") != "" {
			fmt.Fprintln(os.Stderr, "INLINE:", p.PkgPath, "callees:", len(callees))
		}
		if len(callees) == 0 {
			continue
		}
		for _, f := range p.Syntax {
			fname := c.Fset.Position(f.Pos()).Filename
			src := c.Cfg.Overlay[fname]
			if src == nil {
				b, err := os.ReadFile(fname)
				if err != nil {
					continue
				}
				src = b
			}
			in := &inliner{c: c, p: p, file: f, src: src, callees: callees, seq: seq, base: c.Fset.File(f.Pos()).Base()}
			// first, calls of one-expression helpers are replaced by that expression wherever they stand (also under
			// && and ||, where a statement-level expansion cannot go); statement-level expansion follows in the next round
			for _, d := range f.Decls {
				if fd, ok := d.(*ast.FuncDecl); ok && fd.Body != nil {
					in.cur = fd
					in.exprInline(fd.Body)
				}
			}
			if len(in.edits) > 0 {
				res, err := applyEdits(src, in.edits, in.addImports, f, c.Fset)
				if err != nil {
					notes = append(notes, fmt.Sprintf("%s: %v", fname, err))
					continue
				}
				out[fname] = res
				notes = append(notes, in.notes...)
				continue
			}
			for _, d := range f.Decls {
				if fd, ok := d.(*ast.FuncDecl); ok && fd.Body != nil {
					// a helper whose body was already prepared for expansion in this round has had its identifiers
					// renamed in place: its own calls are expanded in the next round (in the copies and, if it
					// survives, in the declaration)
					if o, _ := p.TypesInfo.Defs[fd.Name].(*types.Func); o != nil {
						if ce := callees[o]; ce != nil && ce.bodyText != "" {
							continue
						}
					}
					in.cur = fd
					in.block(fd.Body.List, nil)
				}
			}
			if len(in.edits) == 0 {
				continue
			}
			res, err := applyEdits(src, in.edits, in.addImports, f, c.Fset)
			if err != nil {
				notes = append(notes, fmt.Sprintf("%s: %v", fname, err))
				continue
			}
			out[fname] = res
			notes = append(notes, in.notes...)
		}
	}
	return out, notes
}

// inlEligible: "" when calls of fd may be expanded.
func inlEligible(p *packages.Package, fd *ast.FuncDecl) string {
	if fd.Recv != nil && len(fd.Recv.List) == 1 {
		if _, ok := fd.Recv.List[0].Type.(*ast.IndexExpr); ok {
			return "method of a generic type"
		}
	}
	if n := len(fd.Type.Params.List); n > 0 {
		if _, ok := fd.Type.Params.List[n-1].Type.(*ast.Ellipsis); ok {
			return "variadic"
		}
	}
	self, _ := p.TypesInfo.Defs[fd.Name].(*types.Func)
	why := ""
	ast.Inspect(fd.Body, func(n ast.Node) bool {
		switch x := n.(type) {
		case *ast.DeferStmt:
			why = "uses defer"
		case *ast.BranchStmt:
			if x.Tok == token.GOTO {
				why = "uses goto"
			}
		case *ast.CallExpr:
			if id, ok := x.Fun.(*ast.Ident); ok && id.Name == "recover" {
				if _, isB := p.TypesInfo.Uses[id].(*types.Builtin); isB {
					why = "calls recover"
				}
			}
			if calleeObj(p, x) == self && self != nil {
				why = "recursive"
			}
		}
		return why == ""
	})
	return why
}

func calleeObj(p *packages.Package, call *ast.CallExpr) *types.Func {
	switch f := ast.Unparen(call.Fun).(type) {
	case *ast.Ident:
		o, _ := p.TypesInfo.Uses[f].(*types.Func)
		return o
	case *ast.SelectorExpr:
		o, _ := p.TypesInfo.Uses[f.Sel].(*types.Func)
		return o
	}
	return nil
}

type inliner struct {
	c          *Ctx
	p          *packages.Package
	file       *ast.File
	src        []byte
	base       int
	callees    map[*types.Func]*inlCallee
	cur        *ast.FuncDecl
	edits      []textEdit
	addImports map[string]string
	notes      []string
	seq        *int
}

func (in *inliner) off(p token.Pos) int { return int(p) - in.base }

func (in *inliner) text(n ast.Node) string { return string(in.src[in.off(n.Pos()):in.off(n.End())]) }

// block walks a statement list; labeled is the set of statements that are direct children of a label.
func (in *inliner) block(list []ast.Stmt, _ map[ast.Stmt]bool) {
	for _, s := range list {
		in.stmt(s, false)
	}
}

func (in *inliner) stmt(s ast.Stmt, labelled bool) {
	switch x := s.(type) {
	case *ast.BlockStmt:
		in.block(x.List, nil)
	case *ast.LabeledStmt:
		in.stmt(x.Stmt, true)
	case *ast.IfStmt:
		if !labelled {
			in.header(s, x.Init, x.Cond)
		}
		in.funcLits(x.Init, x.Cond)
		in.block(x.Body.List, nil)
		if x.Else != nil {
			in.stmt(x.Else, true) // an else-if cannot be wrapped in a block of its own textually; leave its header alone
		}
	case *ast.ForStmt:
		if x.Cond != nil && in.mentionsCallee(x.Cond) {
			// `for c() { … }` becomes `for { if !(c()) { break }; … }`: the call is then in an if header, where the next
			// round expands it (the condition is still evaluated before every iteration, after the post statement)
			// a conjunction is tested conjunct by conjunct, which keeps the short-circuit order
			var conj []ast.Expr
			var split func(e ast.Expr)
			split = func(e ast.Expr) {
				if be, ok := ast.Unparen(e).(*ast.BinaryExpr); ok && be.Op == token.LAND {
					split(be.X)
					split(be.Y)
					return
				}
				conj = append(conj, e)
			}
			split(x.Cond)
			tests := ""
			for _, e := range conj {
				tests += "\nif !(" + in.text(e) + ") {\nbreak\n}"
			}
			in.edits = append(in.edits, textEdit{in.off(x.Cond.Pos()), in.off(x.Cond.End()), ""})
			in.edits = append(in.edits, textEdit{in.off(x.Body.Lbrace) + 1, in.off(x.Body.Lbrace) + 1, tests + "\n"})
			return
		}
		if !labelled && x.Init != nil {
			in.header(s, x.Init, nil)
		}
		in.funcLits(x.Init, x.Cond, x.Post)
		in.block(x.Body.List, nil)
	case *ast.RangeStmt:
		if !labelled {
			in.header(s, nil, x.X)
		}
		in.funcLits(x.X)
		in.block(x.Body.List, nil)
	case *ast.SwitchStmt:
		if !labelled {
			in.header(s, x.Init, x.Tag)
		}
		in.funcLits(x.Init, x.Tag)
		for _, cc := range x.Body.List {
			in.block(cc.(*ast.CaseClause).Body, nil)
		}
	case *ast.TypeSwitchStmt:
		in.funcLits(x.Init, x.Assign)
		for _, cc := range x.Body.List {
			in.block(cc.(*ast.CaseClause).Body, nil)
		}
	case *ast.SelectStmt:
		for _, cc := range x.Body.List {
			in.block(cc.(*ast.CommClause).Body, nil)
		}
	case *ast.GoStmt:
		if !in.goStmt(x) {
			in.funcLits(x.Call)
		}
	case *ast.DeferStmt:
		in.funcLits(x.Call)
	case *ast.ExprStmt, *ast.AssignStmt, *ast.ReturnStmt, *ast.DeclStmt, *ast.SendStmt:
		if !in.simple(s) {
			in.funcLits(s)
		}
	}
}

// funcLits expands calls inside the bodies of function literals that occur in the given nodes.
func (in *inliner) funcLits(nodes ...ast.Node) {
	for _, nd := range nodes {
		if nd == nil || isNilNode(nd) {
			continue
		}
		ast.Inspect(nd, func(n ast.Node) bool {
			if fl, ok := n.(*ast.FuncLit); ok {
				// a literal that only forwards its parameters to one function stays as it is: it reads as that function
				// (forwardTarget), whose parameters are then in the frame the rules know
				if !isForwardingLit(fl) {
					in.block(fl.Body.List, nil)
				}
				return false
			}
			return true
		})
	}
}

func isNilNode(n ast.Node) bool {
	switch x := n.(type) {
	case ast.Stmt:
		return x == nil
	case ast.Expr:
		return x == nil
	}
	return false
}

// findCall returns the first expandable call in e (evaluation order) such that everything evaluated before it is simple.
func (in *inliner) findCall(e ast.Expr) *ast.CallExpr {
	var found *ast.CallExpr
	blocked := false
	var walk func(e ast.Expr)
	simple := func(e ast.Expr) bool {
		if e == nil {
			return true
		}
		ok := true
		ast.Inspect(e, func(n ast.Node) bool {
			switch x := n.(type) {
			case *ast.CallExpr:
				// a conversion, len/cap, or a standard-library function that only computes a value: evaluating it before or
				// after an expanded call makes no difference
				if tv, has := in.p.TypesInfo.Types[x.Fun]; has && tv.IsType() {
					return true
				}
				if id, isID := x.Fun.(*ast.Ident); isID {
					if _, isB := in.p.TypesInfo.Uses[id].(*types.Builtin); isB && (id.Name == "len" || id.Name == "cap") {
						return true
					}
				}
				if se, isSel := ast.Unparen(x.Fun).(*ast.SelectorExpr); isSel {
					if fo, isFn := in.p.TypesInfo.Uses[se.Sel].(*types.Func); isFn && fo.Pkg() != nil && isPureStdValueCall(fo.FullName()) {
						return true
					}
				}
				ok = false
			case *ast.FuncLit, *ast.IndexExpr, *ast.SliceExpr, *ast.TypeAssertExpr:
				ok = false
			case *ast.UnaryExpr:
				if x.Op == token.ARROW {
					ok = false
				}
			case *ast.StarExpr:
				ok = false
			case *ast.BinaryExpr:
				if x.Op == token.QUO || x.Op == token.REM {
					ok = false
				}
			}
			return ok
		})
		return ok
	}
	walkList := func(es []ast.Expr) {
		for _, a := range es {
			if found != nil || blocked {
				return
			}
			if a == nil {
				continue
			}
			walk(a)
			if found == nil && !simple(a) {
				blocked = true
			}
		}
	}
	walk = func(e ast.Expr) {
		if e == nil || found != nil || blocked {
			return
		}
		switch x := e.(type) {
		case *ast.ParenExpr:
			walk(x.X)
		case *ast.CallExpr:
			if in.callees[calleeObj(in.p, x)] != nil {
				// the function operand (receiver expression) and the arguments must themselves be free of earlier expandable calls
				// an expandable call nested in the receiver or the arguments is expanded first when that is possible;
				// otherwise this call is expanded as it stands (its operands are evaluated in order by the bindings)
				var pre []ast.Expr
				if se, ok := ast.Unparen(x.Fun).(*ast.SelectorExpr); ok {
					pre = append(pre, se.X)
				}
				pre = append(pre, x.Args...)
				walkList(pre)
				if found == nil {
					blocked = false
					found = x
				}
				return
			}
			if se, ok := ast.Unparen(x.Fun).(*ast.SelectorExpr); ok {
				walk(se.X)
				if found == nil && !simple(se.X) {
					blocked = true
				}
			} else if _, ok := ast.Unparen(x.Fun).(*ast.Ident); !ok {
				walk(x.Fun)
				if found == nil {
					blocked = true
				}
			}
			walkList(x.Args)
		case *ast.UnaryExpr:
			walk(x.X)
		case *ast.StarExpr:
			walk(x.X)
		case *ast.BinaryExpr:
			walk(x.X)
			if x.Op == token.LAND || x.Op == token.LOR {
				if found == nil {
					blocked = true // the right operand is evaluated conditionally
				}
				return
			}
			if found == nil && !simple(x.X) {
				blocked = true
			}
			walk(x.Y)
		case *ast.SelectorExpr:
			walk(x.X)
		case *ast.IndexExpr:
			walkList([]ast.Expr{x.X, x.Index})
		case *ast.SliceExpr:
			walkList([]ast.Expr{x.X, x.Low, x.High, x.Max})
		case *ast.TypeAssertExpr:
			walk(x.X)
		case *ast.CompositeLit:
			for _, el := range x.Elts {
				if kv, ok := el.(*ast.KeyValueExpr); ok {
					walkList([]ast.Expr{kv.Value})
				} else {
					walkList([]ast.Expr{el})
				}
			}
		case *ast.KeyValueExpr:
			walk(x.Value)
		}
	}
	walk(e)
	return found
}

func (in *inliner) exprsOf(s ast.Stmt) []ast.Expr {
	switch x := s.(type) {
	case *ast.ExprStmt:
		return []ast.Expr{x.X}
	case *ast.AssignStmt:
		if x.Tok == token.DEFINE || x.Tok == token.ASSIGN {
			// left-hand operands of a plain assignment (index/deref) are evaluated first; require identifiers/selectors
			for _, l := range x.Lhs {
				switch ast.Unparen(l).(type) {
				case *ast.Ident, *ast.SelectorExpr:
				default:
					return nil
				}
			}
			return x.Rhs
		}
		return nil
	case *ast.ReturnStmt:
		return x.Results
	case *ast.SendStmt:
		return []ast.Expr{x.Chan, x.Value}
	case *ast.DeclStmt:
		gd, ok := x.Decl.(*ast.GenDecl)
		if !ok || gd.Tok != token.VAR || len(gd.Specs) != 1 {
			return nil
		}
		return gd.Specs[0].(*ast.ValueSpec).Values
	}
	return nil
}

func (in *inliner) firstCall(es []ast.Expr) *ast.CallExpr {
	for k, e := range es {
		if e == nil {
			continue
		}
		if call := in.findCall(e); call != nil {
			return call
		}
		// later operands are evaluated after this one: it must be simple
		hasEffect := false
		ast.Inspect(e, func(n ast.Node) bool {
			switch n.(type) {
			case *ast.CallExpr, *ast.FuncLit:
				hasEffect = true
			}
			return !hasEffect
		})
		if hasEffect && k < len(es)-1 {
			return nil
		}
	}
	return nil
}

// simple statement: hoist the expansion in front of it.
func (in *inliner) simple(s ast.Stmt) bool {
	call := in.firstCall(in.exprsOf(s))
	if call == nil {
		return false
	}
	pre, repl, ok := in.expand(call)
	if !ok {
		return false
	}
	// a call that is the whole expression statement: drop the statement itself
	if es, isES := s.(*ast.ExprStmt); isES && ast.Unparen(es.X) == ast.Expr(call) {
		in.edits = append(in.edits, textEdit{in.off(s.Pos()), in.off(s.End()), pre})
		return true
	}
	in.edits = append(in.edits, textEdit{in.off(s.Pos()), in.off(s.Pos()), pre + "\n"})
	in.edits = append(in.edits, textEdit{in.off(call.Pos()), in.off(call.End()), repl})
	return true
}

// statement with a header (if/for/switch/range): `{ expansion; stmt' }`.
func (in *inliner) header(s ast.Stmt, init ast.Stmt, cond ast.Expr) {
	var call *ast.CallExpr
	if init != nil {
		call = in.firstCall(in.exprsOf(init))
		if call == nil {
			// the init statement runs before the condition: it must be simple for the condition's call to be hoisted
			hasEffect := false
			ast.Inspect(init, func(n ast.Node) bool {
				if _, ok := n.(*ast.CallExpr); ok {
					hasEffect = true
				}
				return !hasEffect
			})
			if hasEffect {
				return
			}
		}
	}
	if call == nil && cond != nil {
		call = in.findCall(cond)
	}
	if call == nil {
		return
	}
	pre, repl, ok := in.expand(call)
	if !ok {
		return
	}
	in.edits = append(in.edits, textEdit{in.off(s.Pos()), in.off(s.Pos()), "{\n" + pre + "\n"})
	in.edits = append(in.edits, textEdit{in.off(call.Pos()), in.off(call.End()), repl})
	in.edits = append(in.edits, textEdit{in.off(s.End()), in.off(s.End()), "\n}"})
}

// go f(args) -> go func() { expansion }()   (arguments are bound inside the new goroutine; see DESIGN.md)
func (in *inliner) goStmt(g *ast.GoStmt) bool {
	if in.callees[calleeObj(in.p, g.Call)] == nil {
		return false
	}
	for _, a := range g.Call.Args {
		if in.findCall(a) != nil {
			return false
		}
	}
	pre, _, ok := in.expand(g.Call)
	if !ok {
		return false
	}
	in.edits = append(in.edits, textEdit{in.off(g.Pos()), in.off(g.End()), "go func() {\n" + pre + "\n}()"})
	return true
}

// expand renders the expansion of one call: the text to place before the statement and the replacement of the call expression.
func (in *inliner) expand(call *ast.CallExpr) (pre string, repl string, ok bool) {
	obj := calleeObj(in.p, call)
	ce := in.callees[obj]
	if ce == nil {
		return "", "", false
	}
	if ce.bodyText == "" {
		if err := in.prepare(ce); err != nil {
			in.notes = append(in.notes, fmt.Sprintf("calls of %s are not expanded: %v", obj.FullName(), err))
			delete(in.callees, obj)
			return "", "", false
		}
	}
	sig := obj.Type().(*types.Signature)
	if len(call.Args) != sig.Params().Len() || call.Ellipsis.IsValid() {
		return "", "", false
	}
	// names the body takes from the package, file or universe scope must not be shadowed where the call stands
	if sc := in.p.Types.Scope().Innermost(call.Pos()); sc != nil {
		for name, want := range ce.free {
			_, got := sc.LookupParent(name, call.Pos())
			if got == nil {
				continue
			}
			if pn, ok := want.(*types.PkgName); ok {
				if gpn, ok2 := got.(*types.PkgName); ok2 && gpn.Imported() == pn.Imported() {
					continue
				}
			}
			if got != want {
				in.notes = append(in.notes, fmt.Sprintf("call of new function %s in %s (%s) is not expanded: the name %s means something else there", obj.FullName(), in.cur.Name.Name, in.c.Pos(call.Pos()), name))
				return "", "", false
			}
		}
	}
	// imports needed by the expansion must be available in this file under the same name
	for name, path := range ce.imports {
		have := ""
		for _, im := range in.file.Imports {
			ip, _ := strconv.Unquote(im.Path.Value)
			local := ""
			if im.Name != nil {
				local = im.Name.Name
			} else if pk := in.p.Imports[ip]; pk != nil {
				local = pk.Name
			} else {
				local = filepath.Base(ip)
			}
			if local == name {
				have = ip
			}
		}
		if have == path {
			continue
		}
		if have != "" || in.file.Scope.Lookup(name) != nil || in.p.Types.Scope().Lookup(name) != nil {
			return "", "", false
		}
		if in.addImports == nil {
			in.addImports = map[string]string{}
		}
		in.addImports[name] = path
	}
	*in.seq++
	n := strconv.Itoa(*in.seq)
	var b strings.Builder
	var resNames []string
	for _, r := range ce.results {
		nm := strings.ReplaceAll(r.name, inlMarker, n)
		resNames = append(resNames, nm)
		fmt.Fprintf(&b, "var %s %s\n_ = %s\n", nm, r.typ, nm)
	}
	b.WriteString("{\n")
	if ce.recv != nil {
		se, isSel := ast.Unparen(call.Fun).(*ast.SelectorExpr)
		if !isSel {
			return "", "", false
		}
		sel := in.p.TypesInfo.Selections[se]
		if sel == nil || sel.Kind() != types.MethodVal || len(sel.Index()) < 1 {
			return "", "", false
		}
		rx := in.text(se.X)
		_, wantPtr := sig.Recv().Type().(*types.Pointer)
		curT := in.p.TypesInfo.TypeOf(se.X)
		// a method promoted through embedded fields: spell the path out
		for _, fi := range sel.Index()[:len(sel.Index())-1] {
			t := curT
			if pt, ok := t.Underlying().(*types.Pointer); ok {
				t = pt.Elem()
			}
			st, ok := t.Underlying().(*types.Struct)
			if !ok || fi >= st.NumFields() {
				return "", "", false
			}
			rx += "." + st.Field(fi).Name()
			curT = st.Field(fi).Type()
		}
		_, havePtr := curT.Underlying().(*types.Pointer)
		switch {
		case wantPtr && !havePtr:
			rx = "&(" + rx + ")"
		case !wantPtr && havePtr:
			rx = "*(" + rx + ")"
		}
		nm := strings.ReplaceAll(ce.recv.name, inlMarker, n)
		fmt.Fprintf(&b, "var %s %s = %s\n_ = %s\n", nm, ce.recv.typ, rx, nm)
	}
	for k, pv := range ce.params {
		nm := strings.ReplaceAll(pv.name, inlMarker, n)
		fmt.Fprintf(&b, "var %s %s = %s\n_ = %s\n", nm, pv.typ, in.text(call.Args[k]), nm)
	}
	body := strings.ReplaceAll(ce.bodyText, inlMarker, n)
	if strings.Contains(body, "break __L_"+n) {
		fmt.Fprintf(&b, "__L_%s:\n", n)
	}
	fmt.Fprintf(&b, "switch {\ndefault:\n%s\n}\n", body)
	b.WriteString("}")
	in.notes = append(in.notes, fmt.Sprintf("call of new function %s in %s (%s) expanded in place", obj.FullName(), in.cur.Name.Name, in.c.Pos(call.Pos())))
	repl = strings.Join(resNames, ", ")
	if len(resNames) == 0 {
		repl = "struct{}{}" // only reachable for a call used as a statement, which is dropped
	}
	pre = b.String()
	if len(ce.tparams) > 0 {
		// the instance's type arguments, spelled as this file can spell them
		var id *ast.Ident
		switch f := ast.Unparen(call.Fun).(type) {
		case *ast.Ident:
			id = f
		case *ast.SelectorExpr:
			id = f.Sel
		}
		inst, ok := in.p.TypesInfo.Instances[id]
		if id == nil || !ok || inst.TypeArgs == nil || inst.TypeArgs.Len() != len(ce.tparams) {
			return "", "", false
		}
		pre = strings.ReplaceAll(pre, inlMarker, n)
		bad := false
		for k, ph := range ce.tparams {
			txt := types.TypeString(inst.TypeArgs.At(k), func(pkg *types.Package) string {
				if pkg == in.p.Types {
					return ""
				}
				// the package must be importable under its own name in this file
				for _, im := range in.file.Imports {
					ip, _ := strconv.Unquote(im.Path.Value)
					if ip == pkg.Path() {
						if im.Name != nil {
							return im.Name.Name
						}
						return pkg.Name()
					}
				}
				bad = true
				return pkg.Name()
			})
			pre = strings.ReplaceAll(pre, strings.ReplaceAll(ph, inlMarker, n), txt)
		}
		if bad {
			return "", "", false
		}
	}
	return pre, repl, true
}

// prepare renames the callee's parameters, results, receiver and labels, rewrites its returns and prints the body.
// It mutates the callee's syntax tree, which is discarded after this round.
func (in *inliner) prepare(ce *inlCallee) error {
	info := in.p.TypesInfo
	fd := ce.fd
	rename := map[types.Object]string{}
	ce.imports = map[string]string{}
	noteImports := func(n ast.Node) {
		ast.Inspect(n, func(m ast.Node) bool {
			if id, ok := m.(*ast.Ident); ok {
				if pn, ok := info.Uses[id].(*types.PkgName); ok {
					ce.imports[pn.Name()] = pn.Imported().Path()
				}
			}
			return true
		})
	}
	typeText := func(e ast.Expr) string {
		var buf bytes.Buffer
		printer.Fprint(&buf, in.c.Fset, e)
		noteImports(e)
		return buf.String()
	}
	k := 0
	field := func(fl *ast.FieldList, prefix string) []inlVar {
		var out []inlVar
		if fl == nil {
			return nil
		}
		for _, f := range fl.List {
			t := typeText(f.Type)
			if len(f.Names) == 0 {
				k++
				out = append(out, inlVar{fmt.Sprintf("__%s%d_%s", prefix, k, inlMarker), t})
				continue
			}
			for _, nm := range f.Names {
				k++
				v := inlVar{fmt.Sprintf("__%s%d_%s", prefix, k, inlMarker), t}
				if o := info.Defs[nm]; o != nil && nm.Name != "_" {
					rename[o] = v.name
				}
				out = append(out, v)
			}
		}
		return out
	}
	if fd.Recv != nil && len(fd.Recv.List) == 1 {
		r := field(fd.Recv, "recv")
		ce.recv = &r[0]
	}
	// type parameters: renamed to placeholders (in the signature before its types are printed, in the body with
	// everything else); each call substitutes the instance's type arguments
	ce.tparams = nil
	if fd.Type.TypeParams != nil {
		for _, f := range fd.Type.TypeParams.List {
			for _, nm := range f.Names {
				if o := info.Defs[nm]; o != nil {
					ph := fmt.Sprintf("__TP%d_%s", len(ce.tparams)+1, inlMarker)
					rename[o] = ph
					ce.tparams = append(ce.tparams, ph)
				}
			}
		}
		for _, fl := range []*ast.FieldList{fd.Type.Params, fd.Type.Results} {
			if fl == nil {
				continue
			}
			ast.Inspect(fl, func(n ast.Node) bool {
				if id, ok := n.(*ast.Ident); ok {
					if o := info.Uses[id]; o != nil {
						if nn, ok := rename[o]; ok {
							id.Name = nn
						}
					}
				}
				return true
			})
		}
	}
	ce.params = field(fd.Type.Params, "p")
	ce.results = field(fd.Type.Results, "r")
	// labels
	labels := map[string]string{}
	ast.Inspect(fd.Body, func(n ast.Node) bool {
		if ls, ok := n.(*ast.LabeledStmt); ok {
			labels[ls.Label.Name] = ls.Label.Name + "_" + inlMarker
		}
		return true
	})
	ast.Inspect(fd.Body, func(n ast.Node) bool {
		switch x := n.(type) {
		case *ast.Ident:
			if o := info.Uses[x]; o != nil {
				if nn, ok := rename[o]; ok {
					x.Name = nn
				} else if o.Parent() == in.p.Types.Scope() || o.Parent() == types.Universe || isPkgName(o) {
					// a name of the package, file or universe scope: at the call site it must mean the same thing
					if ce.free == nil {
						ce.free = map[string]types.Object{}
					}
					ce.free[x.Name] = o
				}
			}
			if o := info.Defs[x]; o != nil {
				if nn, ok := rename[o]; ok {
					x.Name = nn
				}
			}
		case *ast.LabeledStmt:
			x.Label.Name = labels[x.Label.Name]
		case *ast.BranchStmt:
			if x.Label != nil {
				if nn, ok := labels[x.Label.Name]; ok {
					x.Label.Name = nn
				}
			}
		}
		return true
	})
	noteImports(fd.Body)
	// `a, err := f()` at the top level of a function that has a parameter or named result `err` assigns to that
	// variable (same scope). In the expansion the body sits in a nested block, where the same statement would declare a
	// new variable and leave the result untouched. Such a statement becomes `a, tmp := f(); err = tmp`.
	{
		var list []ast.Stmt
		nt := 0
		for _, st := range fd.Body.List {
			list = append(list, st)
			as, ok := st.(*ast.AssignStmt)
			if !ok || as.Tok != token.DEFINE {
				continue
			}
			for k, lhs := range as.Lhs {
				id, ok := lhs.(*ast.Ident)
				if !ok || id.Name == "_" || info.Defs[id] != nil {
					continue
				}
				if o := info.Uses[id]; o == nil || rename[o] == "" {
					continue
				}
				nt++
				tmp := ast.NewIdent(fmt.Sprintf("__t%d_%s", nt, inlMarker))
				as.Lhs[k] = tmp
				list = append(list, &ast.AssignStmt{Lhs: []ast.Expr{id}, Tok: token.ASSIGN, Rhs: []ast.Expr{ast.NewIdent(tmp.Name)}})
			}
		}
		fd.Body.List = list
	}
	// returns (not inside function literals)
	brk := func() ast.Stmt {
		return &ast.BranchStmt{Tok: token.BREAK, Label: ast.NewIdent("__L_" + inlMarker)}
	}
	var resIdents = func() []ast.Expr {
		var out []ast.Expr
		for _, r := range ce.results {
			out = append(out, ast.NewIdent(r.name))
		}
		return out
	}
	var rewriteList func(list []ast.Stmt, last bool) []ast.Stmt
	var rewriteStmt func(s ast.Stmt)
	rewriteList = func(list []ast.Stmt, last bool) []ast.Stmt {
		var out []ast.Stmt
		for i, s := range list {
			if rs, ok := s.(*ast.ReturnStmt); ok {
				if len(rs.Results) > 0 {
					out = append(out, &ast.AssignStmt{Lhs: resIdents(), Tok: token.ASSIGN, Rhs: rs.Results})
				}
				if !(last && i == len(list)-1) {
					out = append(out, brk())
				}
				continue
			}
			rewriteStmt(s)
			out = append(out, s)
		}
		return out
	}
	rewriteStmt = func(s ast.Stmt) {
		switch x := s.(type) {
		case *ast.BlockStmt:
			x.List = rewriteList(x.List, false)
		case *ast.LabeledStmt:
			if _, isRet := x.Stmt.(*ast.ReturnStmt); isRet {
				x.Stmt = &ast.BlockStmt{List: rewriteList([]ast.Stmt{x.Stmt}, false)}
			} else {
				rewriteStmt(x.Stmt)
			}
		case *ast.IfStmt:
			x.Body.List = rewriteList(x.Body.List, false)
			if x.Else != nil {
				if _, isRet := x.Else.(*ast.ReturnStmt); isRet {
					x.Else = &ast.BlockStmt{List: rewriteList([]ast.Stmt{x.Else}, false)}
				} else {
					rewriteStmt(x.Else)
				}
			}
		case *ast.ForStmt:
			x.Body.List = rewriteList(x.Body.List, false)
		case *ast.RangeStmt:
			x.Body.List = rewriteList(x.Body.List, false)
		case *ast.SwitchStmt:
			for _, cc := range x.Body.List {
				c := cc.(*ast.CaseClause)
				c.Body = rewriteList(c.Body, false)
			}
		case *ast.TypeSwitchStmt:
			for _, cc := range x.Body.List {
				c := cc.(*ast.CaseClause)
				c.Body = rewriteList(c.Body, false)
			}
		case *ast.SelectStmt:
			for _, cc := range x.Body.List {
				c := cc.(*ast.CommClause)
				c.Body = rewriteList(c.Body, false)
			}
		}
	}
	body := rewriteList(fd.Body.List, true)
	var buf bytes.Buffer
	for _, s := range body {
		if err := printer.Fprint(&buf, in.c.Fset, s); err != nil {
			return err
		}
		buf.WriteString("\n")
	}
	ce.bodyText = buf.String()
	if strings.TrimSpace(ce.bodyText) == "" {
		ce.bodyText = "// empty\n"
	}
	return nil
}

func applyEdits(src []byte, edits []textEdit, addImports map[string]string, f *ast.File, fset *token.FileSet) ([]byte, error) {
	sort.SliceStable(edits, func(i, j int) bool {
		if edits[i].pos != edits[j].pos {
			return edits[i].pos < edits[j].pos
		}
		return edits[i].end < edits[j].end
	})
	for i := 1; i < len(edits); i++ {
		if edits[i].pos < edits[i-1].end {
			return nil, fmt.Errorf("overlapping expansions at offset %d", edits[i].pos)
		}
	}
	var b bytes.Buffer
	at := 0
	for _, e := range edits {
		if e.pos < at || e.end > len(src) {
			return nil, fmt.Errorf("edit out of range")
		}
		b.Write(src[at:e.pos])
		b.WriteString(e.text)
		at = e.end
	}
	b.Write(src[at:])
	out := b.Bytes()
	if len(addImports) > 0 {
		base := fset.File(f.Pos()).Base()
		// positions before the first edit are unchanged: the package clause precedes every declaration
		ins := int(f.Name.End()) - base
		var names []string
		for n := range addImports {
			names = append(names, n)
		}
		sort.Strings(names)
		var ib strings.Builder
		for _, n := range names {
			fmt.Fprintf(&ib, "\nimport %s %q", n, addImports[n])
		}
		out = append(append(append([]byte{}, out[:ins]...), []byte(ib.String())...), out[ins:]...)
	}
	return out, nil
}


// isForwardingLit: the literal's body is one call (as a statement or returned) whose trailing arguments are exactly the
// literal's parameters, in order.
func isForwardingLit(fl *ast.FuncLit) bool {
	if fl.Body == nil || len(fl.Body.List) != 1 {
		return false
	}
	var call *ast.CallExpr
	switch st := fl.Body.List[0].(type) {
	case *ast.ExprStmt:
		call, _ = st.X.(*ast.CallExpr)
	case *ast.ReturnStmt:
		if len(st.Results) == 1 {
			call, _ = st.Results[0].(*ast.CallExpr)
		}
	}
	if call == nil {
		return false
	}
	var params []string
	if fl.Type.Params != nil {
		for _, f := range fl.Type.Params.List {
			for _, n := range f.Names {
				params = append(params, n.Name)
			}
		}
	}
	if len(call.Args) < len(params) {
		return false
	}
	for k, pn := range params {
		id, ok := call.Args[len(call.Args)-len(params)+k].(*ast.Ident)
		if !ok || id.Name != pn {
			return false
		}
	}
	return true
}


// ---- expression-level expansion of one-expression helpers

// simpleOperand: an expression that can be written several times, or not at all, without changing behaviour:
// identifiers, selector chains, literals, and & - ! * of those.
func simpleOperand(e ast.Expr) bool {
	switch x := e.(type) {
	case *ast.Ident, *ast.BasicLit:
		return true
	case *ast.SelectorExpr:
		return simpleOperand(x.X)
	case *ast.ParenExpr:
		return simpleOperand(x.X)
	case *ast.UnaryExpr:
		return (x.Op == token.AND || x.Op == token.SUB || x.Op == token.NOT) && simpleOperand(x.X)
	case *ast.StarExpr:
		return simpleOperand(x.X)
	}
	return false
}

// exprBodyOf: the single returned expression of a helper whose body is `return <expr>` with nothing in it that has an
// effect or could panic differently when duplicated (no calls except conversions and len/cap, no literals of functions,
// no receives, no index or slice expressions, no division).
func (in *inliner) exprBodyOf(ce *inlCallee) ast.Expr {
	fd := ce.fd
	if fd.Body == nil || len(fd.Body.List) != 1 || fd.Type.Results == nil || len(fd.Type.Results.List) != 1 || len(fd.Type.Results.List[0].Names) > 1 {
		return nil
	}
	if fd.Type.Params != nil {
		for _, f := range fd.Type.Params.List {
			if _, variadic := f.Type.(*ast.Ellipsis); variadic {
				return nil
			}
		}
	}
	ret, ok := fd.Body.List[0].(*ast.ReturnStmt)
	if !ok || len(ret.Results) != 1 {
		return nil
	}
	pure := true
	ast.Inspect(ret.Results[0], func(n ast.Node) bool {
		switch x := n.(type) {
		case *ast.CallExpr:
			// conversions and len/cap only
			if tv, ok := in.p.TypesInfo.Types[x.Fun]; ok && tv.IsType() {
				return true
			}
			if id, ok := x.Fun.(*ast.Ident); ok {
				if _, isB := in.p.TypesInfo.Uses[id].(*types.Builtin); isB && (id.Name == "len" || id.Name == "cap") {
					return true
				}
			}
			// a standard-library function that only computes a value from its arguments (strconv.FormatUint, strings.ToLower, …)
			if se, isSel := ast.Unparen(x.Fun).(*ast.SelectorExpr); isSel {
				if fo, isFn := in.p.TypesInfo.Uses[se.Sel].(*types.Func); isFn && fo.Pkg() != nil && isPureStdValueCall(fo.FullName()) {
					return true
				}
			}
			pure = false
		case *ast.FuncLit, *ast.IndexExpr, *ast.SliceExpr, *ast.TypeAssertExpr, *ast.CompositeLit:
			pure = false
		case *ast.UnaryExpr:
			if x.Op == token.ARROW {
				pure = false
			}
		case *ast.BinaryExpr:
			if x.Op == token.QUO || x.Op == token.REM {
				pure = false
			}
		case *ast.StarExpr:
			pure = false
		}
		return pure
	})
	if !pure {
		return nil
	}
	return ret.Results[0]
}

func (in *inliner) exprInline(root ast.Node) {
	info := in.p.TypesInfo
	ast.Inspect(root, func(n ast.Node) bool {
		call, ok := n.(*ast.CallExpr)
		if !ok {
			return true
		}
		ce := in.callees[calleeObj(in.p, call)]
		if ce == nil || call.Ellipsis.IsValid() {
			return true
		}
		body := in.exprBodyOf(ce)
		if body == nil {
			return true
		}
		// parameter objects in order, receiver first
		var params []types.Object
		var args []ast.Expr
		if ce.fd.Recv != nil && len(ce.fd.Recv.List) == 1 {
			sel, ok := ast.Unparen(call.Fun).(*ast.SelectorExpr)
			if !ok {
				return true
			}
			if len(ce.fd.Recv.List[0].Names) == 1 {
				params = append(params, info.Defs[ce.fd.Recv.List[0].Names[0]])
			} else {
				params = append(params, nil)
			}
			args = append(args, sel.X)
		}
		if ce.fd.Type.Params != nil {
			for _, f := range ce.fd.Type.Params.List {
				if len(f.Names) == 0 {
					params = append(params, nil)
				}
				for _, nm := range f.Names {
					params = append(params, info.Defs[nm])
				}
			}
		}
		args = append(args, call.Args...)
		if len(args) != len(params) {
			return true
		}
		for _, a := range args {
			ok := simpleOperand(a)
			if cv, isCall := ast.Unparen(a).(*ast.CallExpr); !ok && isCall && len(cv.Args) == 1 {
				// a conversion of a simple operand (`uint32(s.Id)`) can be repeated as freely as the operand itself
				if tv, has := info.Types[cv.Fun]; has && tv.IsType() && simpleOperand(cv.Args[0]) {
					ok = true
				}
			}
			if !ok {
				return true
			}
		}
		// the receiver of a method expression helper: pointer/value adjustment is not attempted
		if ce.fd.Recv != nil {
			if tv, ok := info.Types[args[0]]; ok {
				if recvT := info.TypeOf(ce.fd.Recv.List[0].Type); recvT != nil && !types.Identical(tv.Type, recvT) {
					return true
				}
			}
		}
		// callee source text
		cfile := in.c.Fset.File(ce.fd.Pos())
		if cfile == nil {
			return true
		}
		csrc := in.c.Cfg.Overlay[cfile.Name()]
		if csrc == nil {
			b, err := os.ReadFile(cfile.Name())
			if err != nil {
				return true
			}
			csrc = b
		}
		type sub struct {
			from, to int
			text     string
		}
		var subs []sub
		okAll := true
		callScope := in.p.Types.Scope().Innermost(call.Pos())
		ast.Inspect(body, func(m ast.Node) bool {
			id, ok := m.(*ast.Ident)
			if !ok {
				return true
			}
			o := info.Uses[id]
			if o == nil {
				return true
			}
			// a package-level, file-level or universe name must mean the same thing where the call stands
			if callScope != nil && (o.Parent() == in.p.Types.Scope() || o.Parent() == types.Universe || isPkgName(o)) {
				if _, got := callScope.LookupParent(id.Name, call.Pos()); got != nil && got != o {
					same := false
					if pn, ok := o.(*types.PkgName); ok {
						if gpn, ok2 := got.(*types.PkgName); ok2 && gpn.Imported() == pn.Imported() {
							same = true
						}
					}
					if !same {
						okAll = false
					}
				}
			}
			for k, po := range params {
				if po != nil && po == o {
					at := in.text(args[k])
					// a literal argument keeps the parameter's type
					if _, isLit := args[k].(*ast.BasicLit); isLit {
						if b, isBasic := po.Type().Underlying().(*types.Basic); isBasic && po.Type() == types.Type(b) {
							at = b.Name() + "(" + at + ")"
						} else {
							okAll = false
						}
					}
					subs = append(subs, sub{cfile.Offset(id.Pos()), cfile.Offset(id.End()), "(" + at + ")"})
				}
			}
			return true
		})
		if !okAll {
			return true
		}
		from, to := cfile.Offset(body.Pos()), cfile.Offset(body.End())
		if from < 0 || to > len(csrc) {
			return true
		}
		sort.Slice(subs, func(i, j int) bool { return subs[i].from < subs[j].from })
		var sb strings.Builder
		at := from
		for _, su := range subs {
			sb.Write(csrc[at:su.from])
			sb.WriteString(su.text)
			at = su.to
		}
		sb.Write(csrc[at:to])
		in.edits = append(in.edits, textEdit{in.off(call.Pos()), in.off(call.End()), "(" + sb.String() + ")"})
		in.notes = append(in.notes, fmt.Sprintf("call of new one-expression function %s in %s (%s) replaced by its expression", ce.obj.FullName(), in.cur.Name.Name, in.c.Pos(call.Pos())))
		return false
	})
}


// mentionsCallee: some call in e (outside function literals) is a call of a helper that is to be expanded.
func (in *inliner) mentionsCallee(e ast.Expr) bool {
	found := false
	ast.Inspect(e, func(n ast.Node) bool {
		if _, ok := n.(*ast.FuncLit); ok {
			return false
		}
		if call, ok := n.(*ast.CallExpr); ok && in.callees[calleeObj(in.p, call)] != nil {
			found = true
		}
		return !found
	})
	return found
}
