package main

import (
	"go/token"
	"go/types"
	"strconv"
	"strings"

	"golang.org/x/tools/go/ssa"
)

func init() {
	register("C09", false,
		ruleDef{"C09.R1", c09r1},
		ruleDef{"C09.R2", c09r2},
		ruleDef{"C09.R3", c09r3},
		ruleDef{"C09.R4", c09r4},
		// the standard library strips client-supplied Forwarded / X-Forwarded-* by canonical key: HTTP/2 request headers must be stored under canonical keys
		ruleDef{"C05.R5", c05r5},
		// Request.Host (hence X-Forwarded-Host) and the header map of HTTP/2 requests are built as upstream builds them
		ruleDef{"C09.R5", func(r *R) { forkSiblingRule(r, "C09.R5", "server.go") }},
	)
	wantRefs("C09")
}

const nSetXForwarded = "(*net/http/httputil.ProxyRequest).SetXForwarded"

var forwardedKeys = map[string]bool{"forwarded": true, "x-forwarded-for": true, "x-forwarded-host": true, "x-forwarded-proto": true}

// rewriteFn: the function installed as ReverseProxy.Rewrite.
func rewriteFn(r *R) *ssa.Function {
	c := r.C
	rp := c.Named("net/http/httputil", "ReverseProxy")
	r.need(rp != nil, "httputil.ReverseProxy not loaded")
	var out *ssa.Function
	for _, a := range fieldAccesses(c.FuncsIn(appPkgs...), rp, "Rewrite") {
		if a.Kind == "write" {
			if tf := closureTarget(a.Instr.(*ssa.Store).Val); tf != nil {
				for _, g := range resolveBound(tf) {
					if g.Synthetic == "" {
						out = g
					}
				}
			}
		}
	}
	r.need(out != nil, "no function is installed as ReverseProxy.Rewrite")
	return out
}

func c09r1(r *R) {
	c := r.C
	fn := rewriteFn(r)
	o := r.Ob("C09.R1", "xff-reattach-before-SetXForwarded:"+funcName(fn)).At(fn.Pos())
	sx := callsIn(fn, nSetXForwarded)
	if !o.Check(len(sx) == 1, "expected exactly one SetXForwarded call in the Rewrite function, found %d", len(sx)) {
		return
	}
	o.AtI(sx[0])
	o.Check(c.Expr(callOf(sx[0]).Args[0]) == "p1", "SetXForwarded is called on %s, not on the ProxyRequest being rewritten", c.Expr(callOf(sx[0]).Args[0]))
	// on every path to return
	p := c.escapePath(fn, nil, func(i ssa.Instruction) bool { return i == sx[0] }, isReturn)
	o.Check(p == nil, "a path through the Rewrite function skips SetXForwarded: %v", p)
	// the re-attach
	var reattach *ssa.MapUpdate
	eachInstr(fn, func(i ssa.Instruction) {
		if mu, ok := i.(*ssa.MapUpdate); ok && isOutHeader(c, mu.Map) {
			if k, _ := constString(mu.Key); k == "X-Forwarded-For" {
				reattach = mu
			}
		}
	})
	if o.Check(reattach != nil, "the client's X-Forwarded-For list is not re-attached to the outbound request (Out.Header[\"X-Forwarded-For\"] = In.Header[\"X-Forwarded-For\"]); the proxy would start a fresh list") {
		o.AtI(reattach)
		o.Check(c.Expr(reattach.Value) == `p1.In.Header["X-Forwarded-For"]`, "re-attached value is %s, want In.Header[\"X-Forwarded-For\"]", c.Expr(reattach.Value))
		o.Check(instrDominates(reattach, sx[0]), "the re-attach does not dominate SetXForwarded, so the peer address would not be the last element")
		o.Check(len(guardsOf(reattach.Block())) == 0, "the re-attach is conditional: %v", c.guardStrs(reattach.Block()))
	}
	// nothing touches forwarding headers after SetXForwarded
	eachInstr(fn, func(i ssa.Instruction) {
		if !reachesAfter(sx[0], i) {
			return
		}
		var key ssa.Value
		if mu, ok := i.(*ssa.MapUpdate); ok && isOutHeader(c, mu.Map) {
			key = mu.Key
		}
		if isCall(i, nHeaderSet, nHeaderDel, nHeaderAdd) && isOutHeader(c, callOf(i).Args[0]) {
			key = callOf(i).Args[1]
		}
		if key != nil {
			if k, ok := constString(key); ok && forwardedKeys[strings.ToLower(k)] {
				o.AtI(i).Fail("outbound %s is modified after SetXForwarded", k)
			}
		}
	})
	r.assume("S3: ProxyRequest.SetXForwarded appends the peer IP to Out X-Forwarded-For, sets X-Forwarded-Host from In.Host and X-Forwarded-Proto to https iff In.TLS != nil")
}

func c09r2(r *R) {
	c := r.C
	n := 0
	o := r.Ob("C09.R2", "no-client-forwarded-passthrough")
	for _, fn := range c.FuncsIn("pkg/reverseproxy", "", "pkg/proxyserver", "pkg/fingerprint") {
		eachInstr(fn, func(i ssa.Instruction) {
			var key ssa.Value
			var m ssa.Value
			switch x := i.(type) {
			case *ssa.Lookup:
				if typeName(x.X.Type()) == "http.Header" {
					key, m = x.Index, x.X
				}
			case *ssa.Call:
				n2 := calleeName(&x.Call)
				if n2 == "(net/http.Header).Get" || n2 == "(net/http.Header).Values" {
					key, m = x.Call.Args[1], x.Call.Args[0]
				}
			}
			if key == nil {
				return
			}
			n++
			k, ok := constString(key)
			if ok && strings.HasSuffix(c.Expr(m), ".In.Header") {
				kl := strings.ToLower(k)
				if kl == "forwarded" || kl == "x-forwarded-host" || kl == "x-forwarded-proto" {
					o.AtI(i).Fail("client-supplied %s is read from the inbound request in %s (it must never be passed on)", k, funcName(fn))
				}
			}
		})
	}
	o.OK("%d inbound-header reads scanned", n)
}

// R3: Request.TLS is non-nil for every request source.
func c09r3(r *R) {
	c := r.C
	_, _, sc := serveLoop(r)
	// (a) what kind of conn reaches net/http on the HTTP/1.1 path
	var sent []string
	for _, s := range callsIn(sc, "(*hack.ChannelListener).SendToChannel") {
		a := callOf(s).Args[1]
		if mi, ok := a.(*ssa.MakeInterface); ok {
			sent = append(sent, typeName(mi.X.Type()))
		} else {
			sent = append(sent, typeName(a.Type()))
		}
	}
	needComp := false
	for _, t := range sent {
		if t != "*tls.Conn" {
			needComp = true
		}
	}
	o := r.Ob("C09.R3", "request-tls-populated")
	o.Check(len(sent) >= 1, "no hand-off to the HTTP/1.1 server found")
	// h2 path: :scheme decides TLS in the fork, so a compensator is needed there as well unless TLS is set unconditionally
	setup := c.Method("pkg/proxyserver", "Server", "setupServe")
	r.need(setup != nil, "setupServe not found")
	hs := c.Named("net/http", "Server")
	var comp *ssa.Function
	var compStore *ssa.Store
	for _, a := range fieldAccesses(c.FuncsIn("pkg/proxyserver"), hs, "Handler") {
		if a.Kind != "write" {
			continue
		}
		st := a.Instr.(*ssa.Store)
		if call, ok := st.Val.(*ssa.Call); ok {
			if f := staticCallee(&call.Call); f != nil {
				comp, compStore = f, st
			}
		}
	}
	if !needComp {
		o.OK("the HTTP/1.1 server receives *tls.Conn values; net/http fills Request.TLS itself (S1)")
	}
	if comp == nil {
		if needComp {
			o.AtI(callsIn(sc, "(*hack.ChannelListener).SendToChannel")...).Fail(
				"the HTTP/1.1 server is handed %v, not *tls.Conn: by S1 net/http leaves Request.TLS nil and SetXForwarded reports X-Forwarded-Proto: http; no handler wrapper populates Request.TLS", sent)
		}
		return
	}
	o.AtI(compStore)
	// installed before the h1 server goroutine starts and before any connection is served
	var goH1 ssa.Instruction
	eachInstr(compStore.Parent(), func(i ssa.Instruction) {
		if g, ok := i.(*ssa.Go); ok {
			if f := staticCallee(&g.Call); f != nil && len(callsIn(f, "(*net/http.Server).Serve")) > 0 {
				goH1 = i
			}
		}
	})
	if o.Check(goH1 != nil, "cannot find the `go` statement starting the HTTP/1.1 server next to the handler wrapper") {
		o.Check(instrDominates(compStore, goH1), "the Request.TLS wrapper is installed after the HTTP/1.1 server goroutine is started")
		// the HTTP/1.1 server is started when there is none yet (first Serve), on nothing else
		for _, alt := range c.pathAlts(goH1.Block()) {
			for _, l := range alt {
				o.AtI(goH1).Check(relHolds([]string{l}, "p0.http1ConnChannelListener", "==", "nil"), "the HTTP/1.1 server goroutine is started only under %s (conditions %v): want `no hand-off listener exists yet`", l, alt)
			}
		}
	}
	o.Check(c.Expr(compStore.Val) == funcName(comp)+"(p0.HTTPServer.Handler)", "wrapper wraps %s, want the server's own handler", c.Expr(compStore.Val))
	// the wrapper: returns a handler func that sets r.TLS when nil and always delegates
	var inner *ssa.Function
	eachInstr(comp, func(i ssa.Instruction) {
		if ret, ok := i.(*ssa.Return); ok && len(ret.Results) == 1 {
			if f := closureTarget(unwrapIface(ret.Results[0])); f != nil {
				inner = f
			}
		}
	})
	if !o.Check(inner != nil, "wrapper %s does not return a handler function literal", funcName(comp)) {
		return
	}
	o.At(inner.Pos())
	// delegation on all paths
	deleg := func(i ssa.Instruction) bool {
		if !isCall(i, "(net/http.Handler).ServeHTTP") {
			return false
		}
		a := callArgs(callOf(i))
		return c.Expr(a[1]) == "p0" && c.Expr(a[2]) == "p1"
	}
	p := c.escapePath(inner, nil, deleg, isReturn)
	o.Check(p == nil, "the wrapper does not delegate to the wrapped handler with (w, r) on every path: %v", p)
	// … and the handler delegated to is the wrapped one (the default mux only stands in for a nil handler)
	eachInstr(inner, func(i ssa.Instruction) {
		if !deleg(i) {
			return
		}
		recv := unwrapIface(callArgs(callOf(i))[0])
		if u, ok := recv.(*ssa.UnOp); ok && u.Op == token.MUL {
			recv = u.X
		}
		fv, isFV := recv.(*ssa.FreeVar)
		if !o.AtI(i).Check(isFV, "the wrapper delegates to %s, want the handler it wraps", c.Expr(recv)) {
			return
		}
		var bound ssa.Value
		eachInstr(comp, func(j ssa.Instruction) {
			if mc, ok := j.(*ssa.MakeClosure); ok && mc.Fn == ssa.Value(inner) {
				for k, v := range inner.FreeVars {
					if v == fv && k < len(mc.Bindings) {
						bound = mc.Bindings[k]
					}
				}
			}
		})
		if !o.Check(bound != nil, "cannot find what the wrapper's handler variable is bound to") {
			return
		}
		type hc struct {
			e  string
			gs []string
		}
		var cases []hc
		cellName := ""
		if cell, ok := bound.(*ssa.Alloc); ok {
			cellName = c.Expr(cell)
			eachInstr(comp, func(j ssa.Instruction) {
				if st, ok := j.(*ssa.Store); ok && st.Addr == ssa.Value(cell) {
					cases = append(cases, hc{c.Expr(unwrapIface(st.Val)), c.guardStrs(st.Block())})
				}
			})
		} else {
			var blk *ssa.BasicBlock
			if bi, ok := bound.(ssa.Instruction); ok {
				blk = bi.Block()
			}
			for _, vc := range c.valueCases(bound, blk) {
				cases = append(cases, hc{vc.E, vc.Guards})
			}
		}
		o.Check(len(cases) > 0, "the wrapper's handler variable is never set")
		for _, vc := range cases {
			switch {
			case vc.e == "p0":
			case strings.Contains(vc.e, "DefaultServeMux"):
				// the variable is a captured cell: a nil test of the cell is a test of p0 when p0 was stored first, unconditionally
				cellNil := cellName != "" && len(cases) > 0 && cases[0].e == "p0" && len(cases[0].gs) == 0 && relHolds(vc.gs, "*"+cellName, "==", "nil")
				o.Check(hasGuard(vc.gs, "+(nil == p0)") || cellNil, "the wrapper replaces the configured handler by the default mux under %v (want only when no handler is configured): HTTP/1.1 requests would not reach the reverse proxy", vc.gs)
			default:
				o.Fail("the wrapper delegates to %s", vc.e)
			}
		}
	})
	// TLS store
	var tlsStore *ssa.Store
	eachInstr(inner, func(i ssa.Instruction) {
		if st, ok := i.(*ssa.Store); ok && c.Expr(st.Addr) == "p1.TLS" {
			tlsStore = st
		}
	})
	if o.Check(tlsStore != nil, "the wrapper never stores to Request.TLS") {
		o.AtI(tlsStore)
		gs := c.guardStrs(tlsStore.Block())
		o.Check(hasGuard(gs, "+(nil == p1.TLS)"), "Request.TLS is overwritten even when net/http/h2 already set it; guards %v", gs)
		v := c.Expr(tlsStore.Val)
		o.Check(strings.Contains(v, "metadata.FromContext((*net/http.Request).Context(p1))#0.ConnectionState") || strings.HasPrefix(v, "&"), "Request.TLS is set from %s, want the ConnectionState captured for this request's connection", v)
		if k, isC := tlsStore.Val.(*ssa.Const); isC && k.Value == nil {
			o.Fail("Request.TLS is set to nil")
		}
		// the only way to skip the store while TLS is nil: no metadata in the context
		pp := c.escapePath(inner, nil, func(i ssa.Instruction) bool { return i == ssa.Instruction(tlsStore) }, func(i ssa.Instruction) bool {
			if !deleg(i) {
				return false
			}
			// reaching delegation without the store: allowed only on the TLS != nil edge or the no-metadata edge
			return false
		})
		_ = pp
		for _, g := range gs {
			ok := g == "+(nil == p1.TLS)" || (strings.HasPrefix(g, "+metadata.FromContext(") && strings.HasSuffix(g, "#1"))
			o.Check(ok, "Request.TLS is only populated under the extra condition %s", g)
		}
	}
	// h2: the fork's request handler is the same wrapped handler
	for _, s := range callsIn(sc, nServeConn) {
		a := callOf(s).Args[2]
		if al, ok := a.(*ssa.Alloc); ok {
			h := complitFields(al)["Handler"]
			o.AtI(s)
			o.Check(h != nil && c.Expr(h) == "p0.HTTPServer.Handler", "HTTP/2 connections are served with handler %s, not the server's (wrapped) handler", exprOrNil(c, h))
		}
	}
	r.assume("S1: net/http sets Request.TLS only when the accepted net.Conn is a *tls.Conn")
}

func exprOrNil(c *Ctx, v ssa.Value) string {
	if v == nil {
		return "<unset>"
	}
	return c.Expr(v)
}

func unwrapIface(v ssa.Value) ssa.Value {
	for {
		switch x := v.(type) {
		case *ssa.MakeInterface:
			v = x.X
		case *ssa.ChangeType:
			v = x.X
		case *ssa.ChangeInterface:
			v = x.X
		default:
			return v
		}
	}
}

// isDelegation: method body is `return recv.<field>.<method>(params...)` (plus permitted extra calls).
// Returns "" if it is, else a description.
func delegationDefect(c *Ctx, fn *ssa.Function, field, method string, extraOK func(ssa.Instruction) bool) string {
	if fn == nil {
		return "method missing"
	}
	if len(fn.Blocks) != 1 {
		return "method has branches"
	}
	var call *ssa.Call
	for _, i := range fn.Blocks[0].Instrs {
		switch x := i.(type) {
		case *ssa.Call:
			cc := &x.Call
			n := calleeName(cc)
			if strings.HasSuffix(n, ")."+method) && strings.HasPrefix(c.Expr(callArgs(cc)[0]), "p0."+field) {
				if call != nil {
					return "delegates twice"
				}
				call = x
				continue
			}
			if extraOK != nil && extraOK(i) {
				continue
			}
			return "unexpected call " + n
		case *ssa.Store, *ssa.MapUpdate, *ssa.Send, *ssa.Go, *ssa.Defer:
			return "unexpected effect " + shortInstr(i)
		case *ssa.Return:
			if call == nil {
				return "returns without delegating"
			}
			args := callArgs(&call.Call)
			if c.Expr(args[0]) != "p0."+field {
				return "delegates to " + c.Expr(args[0])
			}
			for k, a := range args[1:] {
				if c.Expr(a) != "p"+itoa(k+1) {
					return "argument " + itoa(k) + " is " + c.Expr(a)
				}
			}
			if len(args)-1 != len(fn.Params)-1 {
				return "argument count differs"
			}
			sig := fn.Signature.Results()
			switch sig.Len() {
			case 0:
			case 1:
				if x.Results[0] != ssa.Value(call) {
					return "returns " + c.Expr(x.Results[0])
				}
			default:
				for k, rv := range x.Results {
					ex, ok := rv.(*ssa.Extract)
					if !ok || ex.Tuple != ssa.Value(call) || ex.Index != k {
						return "result " + itoa(k) + " is " + c.Expr(rv)
					}
				}
			}
		}
	}
	return ""
}

func itoa(i int) string { return strconv.Itoa(i) }

// R4: peer address is the TCP peer's.
func c09r4(r *R) {
	c := r.C
	for _, w := range [][2]string{{"HijackClientHelloConn", "tlsConn"}, {"TLSClientHelloConn", "Conn"}} {
		fn := c.Method("pkg/hack", w[0], "RemoteAddr")
		o := r.Ob("C09.R4", "remoteaddr-delegates:"+w[0])
		if fn != nil {
			o.At(fn.Pos())
		}
		d := delegationDefect(c, fn, w[1], "RemoteAddr", nil)
		o.Check(d == "", "%s.RemoteAddr is not a pure delegation to the wrapped connection: %s", w[0], d)
	}
	// h2 request RemoteAddr is the served conn's RemoteAddr
	sc := c.Named("pkg/http2", "serverConn")
	r.need(sc != nil, "serverConn not found")
	o := r.Ob("C09.R4", "h2-remoteaddr")
	nw := 0
	for _, a := range fieldAccesses(c.FuncsIn("pkg/http2"), sc, "remoteAddrStr") {
		if a.Kind == "write" {
			nw++
			o.AtI(a.Instr)
			e := c.Expr(a.Instr.(*ssa.Store).Val)
			o.Check(strings.Contains(e, "(net.Conn).RemoteAddr(p1)"), "serverConn.remoteAddrStr is set from %s, want the served connection's RemoteAddr()", e)
		}
	}
	o.Check(nw == 1, "serverConn.remoteAddrStr has %d writers, want 1", nw)
	nr := 0
	req := c.Named("net/http", "Request")
	for _, a := range fieldAccesses(c.FuncsIn("pkg/http2"), req, "RemoteAddr") {
		if a.Kind == "write" && strings.Contains(funcName(a.Fn), "serverConn") {
			nr++
			o.AtI(a.Instr)
			e := c.Expr(a.Instr.(*ssa.Store).Val)
			o.Check(e == "p0.remoteAddrStr", "h2 Request.RemoteAddr is set from %s", e)
		}
	}
	o.Check(nr >= 1, "no store to Request.RemoteAddr in the h2 server")
	_ = token.NoPos
	_ = types.Typ
}
