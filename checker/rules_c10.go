package main

import (
	"fmt"
	"go/token"
	"go/types"
	"sort"
	"strings"

	"golang.org/x/tools/go/ssa"
)

func init() {
	register("C10", false,
		ruleDef{"C10.R1", c10r1},
		ruleDef{"C10.R2", c10r2},
		ruleDef{"C10.R3", c10r3},
		ruleDef{"C10.R4", c10r4},
		ruleDef{"C10.R5", c10r5},
		ruleDef{"C10.R6", c10r6},
		ruleDef{"C10.R7", c10r7},
		// a pooled result channel handed back while a frame is still in flight ends in the serve loop's "unbuffered done channel" panic on an unrelated connection
		ruleDef{"C08.R6", c08r6},
	)
}

// ---- recover classification

// directRecovers lists recover() calls made directly by fn (not by nested closures).
func directRecovers(fn *ssa.Function) []*ssa.Call {
	var out []*ssa.Call
	eachInstr(fn, func(i ssa.Instruction) {
		if c, ok := i.(*ssa.Call); ok && calleeName(&c.Call) == "builtin.recover" {
			out = append(out, c)
		}
	})
	return out
}

// protection describes a deferred recover frame in a function.
type protection struct {
	Defer *ssa.Defer
	// guardCell: for the didPanic idiom, the local cell that must be true while the protected call runs
	Cell *ssa.Alloc
}

// protectionsOf finds defers in fn that will stop a panic raised by later calls.
func protectionsOf(c *Ctx, fn *ssa.Function) []protection {
	var out []protection
	if fn.Blocks == nil {
		return nil
	}
	eachInstr(fn, func(i ssa.Instruction) {
		d, ok := i.(*ssa.Defer)
		if !ok {
			return
		}
		D := staticCallee(&d.Call)
		if D == nil || D.Blocks == nil {
			return // includes `defer recover()`: the builtin is the deferred function itself, which recovers nothing
		}
		for _, rc := range directRecovers(D) {
			gs := guardsOf(rc.Block())
			if len(gs) == 0 {
				out = append(out, protection{Defer: d})
				return
			}
			// didPanic idiom: single positive guard on a captured local cell
			var cell *ssa.Alloc
			ok := true
			for _, g := range gs {
				u, isLoad := g.Cond.(*ssa.UnOp)
				if !isLoad || u.Op != token.MUL || !g.Pol {
					ok = false
					break
				}
				fv, isFV := u.X.(*ssa.FreeVar)
				if !isFV {
					ok = false
					break
				}
				mc, _ := d.Call.Value.(*ssa.MakeClosure)
				if mc == nil {
					ok = false
					break
				}
				for k, f := range D.FreeVars {
					if f == fv {
						cell, _ = mc.Bindings[k].(*ssa.Alloc)
					}
				}
				if cell == nil {
					ok = false
				}
			}
			if ok && cell != nil {
				out = append(out, protection{Defer: d, Cell: cell})
				return
			}
		}
	})
	return out
}

// siteProtected: is call site s in fn covered by one of fn's protecting defers?
func siteProtected(ps []protection, s ssa.Instruction) bool {
	for _, p := range ps {
		if !instrDominates(p.Defer, s) {
			continue
		}
		if p.Cell == nil {
			return true
		}
		// cell must be true at s: a `true` store dominates s and every `false` store comes after s
		trueBefore, falseOK := false, true
		for _, r := range *p.Cell.Referrers() {
			st, ok := r.(*ssa.Store)
			if !ok || st.Addr != p.Cell {
				continue
			}
			k, isC := st.Val.(*ssa.Const)
			if !isC {
				falseOK = false
				continue
			}
			if k.Value != nil && k.Value.String() == "true" {
				if instrDominates(st, s) {
					trueBefore = true
				}
			} else {
				if !instrDominates(s, st) {
					falseOK = false
				}
			}
		}
		if trueBefore && falseOK {
			return true
		}
	}
	return false
}

// ---- roots

type groot struct {
	Fn   *ssa.Function
	Site ssa.Instruction
	From *ssa.Function
	Kind string // "go" | "timer"
}

func (g groot) key() string {
	return g.Kind + ":" + funcName(g.From) + "→" + funcName(g.Fn)
}

// proxyFuncs: product functions reachable (following go statements too) from the proxy's entry points.
func proxyFuncs(c *Ctx) []*ssa.Function {
	var entries []*ssa.Function
	for _, nm := range []string{"Run"} {
		if f := c.Func("", nm); f != nil {
			entries = append(entries, f)
		}
	}
	for _, nm := range []string{"Serve", "ListenAndServe", "serveConn", "serveHTTP1", "setupServe"} {
		if f := c.Method("pkg/proxyserver", "Server", nm); f != nil {
			entries = append(entries, f)
		}
	}
	if f := c.Func("pkg/proxyserver", "NewServer"); f != nil {
		entries = append(entries, f)
	}
	if f := c.Method("pkg/reverseproxy", "HTTPHandler", "ServeHTTP"); f != nil {
		entries = append(entries, f)
	}
	if f := c.Method("pkg/reverseproxy", "HTTPHandler", "rewriteFunc"); f != nil {
		entries = append(entries, f)
	}
	info := c.reachable(entries, true, nil)
	var out []*ssa.Function
	for f := range info {
		if f.Blocks != nil && f.Pkg != nil && strings.HasPrefix(f.Pkg.Pkg.Path(), modPath) {
			out = append(out, f)
		}
	}
	sort.Slice(out, func(i, j int) bool { return funcName(out[i]) < funcName(out[j]) })
	return out
}

func goroutineRoots(c *Ctx, fns []*ssa.Function) []groot {
	var out []groot
	seen := map[string]bool{}
	add := func(g groot) {
		if g.Fn == nil {
			return
		}
		k := g.key()
		if !seen[k] {
			seen[k] = true
			out = append(out, g)
		}
	}
	for _, fn := range fns {
		eachInstr(fn, func(i ssa.Instruction) {
			switch x := i.(type) {
			case *ssa.Go:
				if f := staticCallee(&x.Call); f != nil {
					for _, g := range resolveBound(f) {
						if g.Synthetic == "" || len(resolveBound(f)) == 1 {
							add(groot{g, i, fn, "go"})
						}
					}
				} else if n := c.CG().Nodes[fn]; n != nil {
					for _, e := range n.Out {
						if e.Site == ssa.CallInstruction(x) {
							add(groot{e.Callee.Func, i, fn, "go"})
						}
					}
				}
			case *ssa.Call:
				n := calleeName(&x.Call)
				if n == "time.AfterFunc" || strings.HasSuffix(n, ").afterFunc") {
					arg := x.Call.Args[len(x.Call.Args)-1]
					if f := closureTarget(arg); f != nil {
						for _, g := range resolveBound(f) {
							if g.Synthetic == "" {
								add(groot{g, i, fn, "timer"})
							}
						}
					}
				}
			}
		})
	}
	sort.Slice(out, func(i, j int) bool { return out[i].key() < out[j].key() })
	return out
}

// stdlibDrivenRoots: product methods that the standard library calls on goroutines of its own, outside any recover
// frame of the proxy: the net.Conn / net.Listener implementations handed to net/http (the background reader, the
// post-recover close in (*conn).serve, the accept loop) and the ConnContext hook (runs in http.Server.Serve's loop).
func stdlibDrivenRoots(c *Ctx) []groot {
	var out []groot
	ifaces := []*types.Interface{}
	for _, nm := range []string{"Conn", "Listener"} {
		if n := c.Named("net", nm); n != nil {
			if it, ok := n.Underlying().(*types.Interface); ok {
				ifaces = append(ifaces, it)
			}
		}
	}
	for _, fn := range c.FuncsIn(appPkgs...) {
		if fn.Signature.Recv() == nil || fn.Synthetic != "" {
			continue
		}
		rt := fn.Signature.Recv().Type()
		for _, it := range ifaces {
			if !types.Implements(rt, it) && !types.Implements(types.NewPointer(deref(rt)), it) {
				continue
			}
			for k := 0; k < it.NumMethods(); k++ {
				if it.Method(k).Name() == fn.Name() {
					out = append(out, groot{fn, nil, fn, "stdlib"})
				}
			}
		}
	}
	if f := c.Func("pkg/proxyserver", "updateConnContext"); f != nil {
		out = append(out, groot{f, nil, f, "stdlib"})
	}
	sort.Slice(out, func(i, j int) bool { return out[i].key() < out[j].key() })
	return out
}

// ---- unprotected traversal

type unprotSite struct {
	Fn   *ssa.Function
	Site ssa.Instruction
}

// unprotected walks the call graph from root without following `go` edges and
// without following call sites covered by a recover frame. visit is called for
// every instruction executed in an unprotected context.
func unprotectedWalk(c *Ctx, root *ssa.Function, visit func(fn *ssa.Function, i ssa.Instruction, path func() string)) {
	cg := c.CG()
	parent := map[*ssa.Function]reachInfo{root: {}}
	q := []*ssa.Function{root}
	for len(q) > 0 {
		fn := q[0]
		q = q[1:]
		if fn.Blocks == nil || fn.Pkg == nil || !strings.HasPrefix(fn.Pkg.Pkg.Path(), modPath) {
			continue
		}
		ps := protectionsOf(c, fn)
		node := cg.Nodes[fn]
		edges := map[ssa.Instruction][]*ssa.Function{}
		if node != nil {
			for _, e := range node.Out {
				if e.Site != nil {
					edges[e.Site] = append(edges[e.Site], e.Callee.Func)
				}
			}
		}
		eachInstr(fn, func(i ssa.Instruction) {
			if _, isGo := i.(*ssa.Go); isGo {
				return
			}
			if siteProtected(ps, i) {
				return
			}
			visit(fn, i, func() string { return c.pathTo(parent, fn) })
			if ci, ok := i.(ssa.CallInstruction); ok {
				for _, t := range edges[ci] {
					if _, seen := parent[t]; !seen {
						parent[t] = reachInfo{fn, ci}
						q = append(q, t)
					}
				}
			}
		})
	}
}

// callbackKind classifies instruction i as a user-callback site.
func callbackKind(c *Ctx, i ssa.Instruction) string {
	cc := callOf(i)
	if cc == nil {
		return ""
	}
	n := calleeName(cc)
	switch n {
	case "(*crypto/tls.Conn).HandshakeContext", "(*crypto/tls.Conn).Handshake":
		return "tls.Config callbacks (via " + n + ")"
	case "(*net/http.Server).Serve":
		return "http.Server.ConnState(StateNew) (via http.Server.Serve on the caller's goroutine)"
	case nGetHeaderName, nGetHeaderValue:
		return "reverseproxy.HeaderInjector"
	case "(net/http.Handler).ServeHTTP":
		return "http.Handler"
	}
	if n == "" && !cc.IsInvoke() {
		e := c.Expr(cc.Value)
		switch {
		case strings.HasSuffix(e, ".ConnState"):
			return "http.Server.ConnState"
		case strings.HasSuffix(e, ".FingerprintFunc"):
			return "fingerprint.FingerprintFunc"
		}
		// by underlying type: a named function type introduced for readability is the same callback
		if t := typeName(cc.Value.Type().Underlying()); t == "func(http.ResponseWriter, *http.Request)" || t == "func(w http.ResponseWriter, r *http.Request)" || typeName(cc.Value.Type()) == "http.HandlerFunc" {
			return "http.Handler func"
		}
		if sig, ok := cc.Value.Type().Underlying().(*types.Signature); ok && sig.Params().Len() == 2 && sig.Results().Len() == 0 &&
			typeName(sig.Params().At(0).Type()) == "http.ResponseWriter" && typeName(sig.Params().At(1).Type()) == "*http.Request" {
			return "http.Handler func"
		}
	}
	return ""
}

// R1: ineffective recover, whole module.
func c10r1(r *R) {
	c := r.C
	deferred := map[*ssa.Function]bool{}
	for _, fn := range c.FuncsIn() {
		eachInstr(fn, func(i ssa.Instruction) {
			if d, ok := i.(*ssa.Defer); ok {
				if f := staticCallee(&d.Call); f != nil {
					deferred[f] = true
				}
				if calleeName(&d.Call) == "builtin.recover" {
					r.Ob("C10.R1", "defer-recover:"+funcName(fn)).AtI(i).Fail(
						"`defer recover()` recovers nothing: recover only stops a panic when called by a deferred function, here it *is* the deferred function; a panic below %s still terminates the process", funcName(fn))
				}
			}
		})
	}
	nrec := 0
	for _, fn := range c.FuncsIn() {
		for _, rc := range directRecovers(fn) {
			nrec++
			o := r.Ob("C10.R1", "recover-in-deferred:"+funcName(fn)).AtI(rc)
			// functions passed around as values (method values) may still be deferred dynamically: accept if any Defer's callgraph edge targets fn
			ok := deferred[fn]
			if !ok {
				if n := c.CG().Nodes[fn]; n != nil {
					for _, e := range n.In {
						if _, isD := e.Site.(*ssa.Defer); isD {
							ok = true
						}
					}
				}
			}
			o.Check(ok, "recover() is called in %s, which is never the target of a defer: it always returns nil", funcName(fn))
		}
	}
	r.Ob("C10.R1", "instances").Must(nrec >= 2, "expected >= 2 recover() sites in the module (serveConn frame, runHandler), found %d", nrec).OK("%d recover sites", nrec)
}

// R2: user callbacks are under a recover frame on every product goroutine.
func c10r2(r *R) {
	c := r.C
	roots := goroutineRoots(c, proxyFuncs(c))
	r.Ob("C10.R2", "instances").Must(len(roots) >= 12, "expected >= 12 goroutine/timer roots in product code, found %d", len(roots)).OK("%d roots", len(roots))
	nsinks := 0
	for _, g := range roots {
		hits := map[string]bool{}
		unprotectedWalk(c, g.Fn, func(fn *ssa.Function, i ssa.Instruction, path func() string) {
			k := callbackKind(c, i)
			if k == "" {
				return
			}
			nsinks++
			if strings.HasPrefix(k, "http.Server.ConnState(StateNew)") {
				if ok, why := connStateGuarded(c, g); ok {
					r.Ob("C10.R2", g.key()+" callback=http.Server.ConnState(StateNew)").AtI(g.Site, i).OK("discharged: %s", why)
					hits[g.key()+"#guarded"] = true
					return
				}
			}
			key := g.key() + " callback=" + strings.SplitN(k, " (", 2)[0]
			if hits[key] {
				return
			}
			hits[key] = true
			r.Ob("C10.R2", key).AtI(g.Site, i).Fail(
				"user callback %s is reachable on goroutine %s without crossing a recover frame; a panic in it terminates the process. Path: %s → %s",
				k, g.key(), path(), c.Pos(instrPos(i)))
		})
		if len(hits) == 0 {
			r.Ob("C10.R2", g.key()).AtI(g.Site).OK("no user callback reachable outside a recover frame")
		}
	}
	// positive control: the handler call in runHandler must be seen as protected (didPanic idiom), i.e. the classification recognises it
	rh := c.Method("pkg/http2", "serverConn", "runHandler")
	r.need(rh != nil, "runHandler not found")
	o := r.Ob("C10.R2", "runHandler-frame").At(rh.Pos())
	ps := protectionsOf(c, rh)
	found := false
	eachInstr(rh, func(i ssa.Instruction) {
		if callbackKind(c, i) == "http.Handler func" {
			found = true
			o.AtI(i)
			o.Check(siteProtected(ps, i), "the request handler call in runHandler is not covered by its deferred recover (didPanic idiom broken)")
		}
	})
	o.Check(found, "handler call site in runHandler not found")
	r.assume("S2: net/http.(*conn).serve recovers handler panics; http.Server.Serve calls ConnState(StateNew) on the caller's goroutine")
	r.assume("S5: tls.Conn.HandshakeContext invokes tls.Config callbacks synchronously on the caller's goroutine")
}

// connStateGuarded: before goroutine root g is started, the user's http.Server.ConnState hook
// has been replaced by a closure that recovers around the call of the original hook.
func connStateGuarded(c *Ctx, g groot) (bool, string) {
	hs := c.Named("net/http", "Server")
	if hs == nil {
		return false, "net/http.Server not loaded"
	}
	var stores []Access
	for _, a := range fieldAccesses(c.FuncsIn(appPkgs...), hs, "ConnState") {
		if a.Kind == "write" {
			stores = append(stores, a)
		}
	}
	if len(stores) == 0 {
		return false, "no wrapper is installed on http.Server.ConnState"
	}
	good := 0
	for _, a := range stores {
		st := a.Instr.(*ssa.Store)
		F := closureTarget(st.Val)
		// a method value (`p.call` of a small struct holding the hook): the wrapper go/ssa makes for it only forwards
		if F != nil && F.Synthetic != "" && strings.Contains(F.Synthetic, "bound method") {
			var inner *ssa.Function
			n := 0
			eachInstr(F, func(i ssa.Instruction) {
				if cc, ok := i.(*ssa.Call); ok {
					n++
					inner = staticCallee(&cc.Call)
				}
			})
			if n == 1 && inner != nil {
				F = inner
			}
		}
		if F == nil || F.Blocks == nil {
			return false, "http.Server.ConnState is assigned a value that is not a function literal at " + c.Pos(instrPos(st))
		}
		ps := protectionsOf(c, F)
		ndyn := 0
		bad := ""
		eachInstr(F, func(i ssa.Instruction) {
			if cc, ok := i.(*ssa.Call); ok && calleeName(&cc.Call) == "" && !cc.Call.IsInvoke() {
				ndyn++
				if !siteProtected(ps, i) {
					bad = c.Pos(instrPos(i))
				}
			}
		})
		if ndyn == 0 || bad != "" {
			return false, "the function installed on http.Server.ConnState calls the hook outside a deferred recover (" + bad + ")"
		}
		// what the recovering function does to the connection it does only when it recovered something
		closesAlways := ""
		eachInstr(F, func(i ssa.Instruction) {
			d, ok := i.(*ssa.Defer)
			if !ok {
				return
			}
			D := staticCallee(&d.Call)
			if D == nil || D.Blocks == nil {
				return
			}
			eachInstr(D, func(j ssa.Instruction) {
				if isCall(j, "(net.Conn).Close") {
					rec := false
					rec = relHolds(c.guardStrs(j.Block()), "builtin.recover()", "!=", "nil")
					if !rec {
						closesAlways = c.Pos(instrPos(j)) + " guards " + strings.Join(c.guardStrs(j.Block()), ",")
					}
				}
			})
		})
		if closesAlways != "" {
			return false, "the ConnState wrapper closes the connection although the hook did not panic (" + closesAlways + ")"
		}
		// the installing function must run before the goroutine starts
		W := a.Fn
		before := false
		if W == g.From {
			before = instrDominates(st, g.Site)
		} else {
			eachInstr(g.From, func(i ssa.Instruction) {
				if cc := callOf(i); cc != nil && staticCallee(cc) == W && instrDominates(i, g.Site) {
					if _, isGo := i.(*ssa.Go); !isGo {
						before = true
					}
				}
			})
			// inside W: a path to return that skips the store is allowed only when there is no hook at all
			p := c.escapePath(W, nil, func(i ssa.Instruction) bool { return i == ssa.Instruction(st) }, func(i ssa.Instruction) bool {
				if !isReturn(i) {
					return false
				}
				for _, gd := range c.guardStrs(i.Block()) {
					if strings.HasPrefix(gd, "+(nil == ") && strings.HasSuffix(gd, ".ConnState)") {
						return false
					}
				}
				return true
			})
			if p != nil {
				return false, "the wrapper installation can be skipped while a hook is set: " + strings.Join(p, " ")
			}
		}
		if !before {
			return false, "the ConnState wrapper is not installed on a path dominating " + c.Pos(instrPos(g.Site))
		}
		good++
	}
	return good > 0, fmt.Sprintf("http.Server.ConnState is wrapped (%d store) by a closure whose call of the user's hook is under a deferred recover, installed before the goroutine starts", good)
}

var fatalCalls = map[string]bool{
	"os.Exit": true, "log.Fatal": true, "log.Fatalf": true, "log.Fatalln": true, "log.Panic": true, "log.Panicf": true, "log.Panicln": true,
	"(*log.Logger).Fatal": true, "(*log.Logger).Fatalf": true, "(*log.Logger).Fatalln": true,
	"(*log.Logger).Panic": true, "(*log.Logger).Panicf": true, "(*log.Logger).Panicln": true,
	"runtime.Goexit": true, "syscall.Exit": true,
}

// perConnRoots: functions that run on behalf of one connection/request.
func perConnRoots(r *R) []*ssa.Function {
	c := r.C
	_, _, sc := serveLoop(r)
	roots := []*ssa.Function{sc, handlerServeHTTP(r)}
	for _, g := range goroutineRoots(c, c.FuncsIn("pkg/http2")) {
		if strings.Contains(funcName(g.Fn), "serverConn") || strings.Contains(funcName(g.Fn), "*http2.stream") {
			roots = append(roots, g.Fn)
		}
	}
	for _, nm := range [][3]string{
		{"pkg/fingerprint", "FingerprintHeaderInjector", "GetHeaderValue"}, {"pkg/fingerprint", "FingerprintHeaderInjector", "GetHeaderName"},
		{"pkg/fingerprint", "HTTP2FingerprintParam", "HTTP2Fingerprint"}, {"pkg/reverseproxy", "HTTPHandler", "rewriteFunc"},
		{"pkg/certwatcher", "CertWatcher", "GetCertificate"},
	} {
		if f := c.Method(nm[0], nm[1], nm[2]); f != nil {
			roots = append(roots, f)
		}
	}
	for _, nm := range []string{"JA3Fingerprint", "JA4Fingerprint"} {
		if f := c.Func("pkg/fingerprint", nm); f != nil {
			roots = append(roots, f)
		}
	}
	if f := c.Func("pkg/proxyserver", "updateConnContext"); f != nil {
		roots = append(roots, f)
	}
	if f := c.Func("", "proxyErrorHandler"); f != nil {
		roots = append(roots, f)
	}
	return roots
}

// R3: no process-terminating call on a per-connection path.
func c10r3(r *R) {
	c := r.C
	roots := perConnRoots(r)
	info := c.reachable(roots, true, nil)
	o := r.Ob("C10.R3", "no-exit-on-connection-paths")
	n := 0
	var fns []*ssa.Function
	for f := range info {
		fns = append(fns, f)
	}
	sort.Slice(fns, func(i, j int) bool { return funcName(fns[i]) < funcName(fns[j]) })
	for _, f := range fns {
		if f.Blocks == nil || f.Pkg == nil || !strings.HasPrefix(f.Pkg.Pkg.Path(), modPath) {
			continue
		}
		n++
		eachInstr(f, func(i ssa.Instruction) {
			if cc := callOf(i); cc != nil && fatalCalls[calleeName(cc)] {
				r.Ob("C10.R3", "fatal:"+funcName(f)+":"+calleeName(cc)).AtI(i).Fail(
					"process-terminating call %s is reachable from a per-connection path: %s", calleeName(cc), c.pathTo(info, f))
			}
		})
	}
	o.Must(n >= 100, "only %d module functions reachable from the per-connection roots (expected >= 100)", n).OK("%d roots, %d reachable module functions scanned", len(roots), n)
}

// reviewed explicit panic sites reachable on goroutines without a recover frame
var reviewedPanics = map[string]string{
	"(*proxyserver.Server).serveHTTP1|dyn":                                     "`panic(err)` after the two expected Serve errors were excluded (C17.R5 checks the guards); documented 'impossible'",
	"(*http2.FrameHeader).checkValid|Frame accessor called on non-owned Frame": "accessors are called by the parsers/serve loop only on the frame ReadFrame just produced (valid=true until the next ReadFrame)",
	"(*http2.pipe).closeWithError|err must be non-nil":                         "timer callbacks pass a freshly built non-nil error (os.ErrDeadlineExceeded wrap)",
	"(*http2.writePushPromise).writeFrame|unexpected empty hpack":              "header block always contains the pseudo-headers written by encKV just above",
	"(*http2.writeResHeaders).writeFrame|unexpected empty hpack":               "header block always contains :status or trailers; guarded by the caller",
	"(http2.goroutineLock).checkNotOn|running on the wrong goroutine":          "only active with DEBUG_HTTP2_GOROUTINES=1 (debug aid)",
	"(http2.goroutineLock).check|running on the wrong goroutine":               "only active with DEBUG_HTTP2_GOROUTINES=1 (debug aid)",
	"http2.curGoroutineID|Failed to parse goroutine ID out of %q: %v":          "only active with DEBUG_HTTP2_GOROUTINES=1 (debug aid)",
	"http2.curGoroutineID|No space found in %q":                                "only active with DEBUG_HTTP2_GOROUTINES=1 (debug aid)",
}

func panicMessage(c *Ctx, p *ssa.Panic) string {
	if s, ok := constString(p.X); ok {
		return s
	}
	// a formatted message is named by its format: Sprintf/Errorf with a constant format, errors.New of a constant
	if call, ok := unwrapIface(p.X).(*ssa.Call); ok {
		switch calleeName(&call.Call) {
		case "fmt.Sprintf", "fmt.Errorf", "errors.New":
			if len(call.Call.Args) >= 1 {
				if s, ok := constString(call.Call.Args[0]); ok {
					return s
				}
			}
		}
	}
	e := c.Expr(p.X)
	if strings.HasPrefix(e, `"`) {
		return strings.Trim(e, `"`)
	}
	// a message assembled by concatenation: its literal skeleton
	for _, tag := range []string{`text"`, `errtext"`} {
		if strings.HasPrefix(e, tag) {
			s := e[len(tag):]
			if k := strings.Index(s, `"[`); k >= 0 {
				return strings.ReplaceAll(s[:k], "⟨⟩", "%v")
			}
		}
	}
	return "dyn"
}

// R4: explicit panic sites on goroutines without recover frame.
func c10r4(r *R) {
	c := r.C
	roots := append(goroutineRoots(c, proxyFuncs(c)), stdlibDrivenRoots(c)...)
	seen := map[string]bool{}
	n := 0
	for _, g := range roots {
		unprotectedWalk(c, g.Fn, func(fn *ssa.Function, i ssa.Instruction, path func() string) {
			p, ok := i.(*ssa.Panic)
			if !ok {
				return
			}
			key := funcName(fn) + "|" + panicMessage(c, p)
			if seen[key] {
				return
			}
			seen[key] = true
			n++
			o := r.Ob("C10.R4", "panic:"+key).AtI(i)
			if why, ok := panicTable(key); ok {
				o.OK("reviewed: %s", why)
			} else {
				o.Fail("explicit panic %q in %s is reachable on goroutine %s outside any recover frame and is not in the reviewed table. Path: %s", panicMessage(c, p), funcName(fn), g.key(), path())
			}
		})
	}
	r.Ob("C10.R4", "instances").OK("%d distinct unprotected explicit panic sites", n)
}

func panicTable(key string) (string, bool) {
	if w, ok := reviewedPanics[key]; ok {
		return w, true
	}
	if strings.HasSuffix(key, "|blocking select matched no case") {
		return "compiler-generated unreachable default of a blocking select", true
	}
	if w, ok := reviewedPanics2[key]; ok {
		return w, true
	}
	return "", false
}

// R5: error exits of the per-connection function return without serving.
func c10r5(r *R) {
	c := r.C
	_, _, sc := serveLoop(r)
	o := r.Ob("C10.R5", "error-exits-return:"+funcName(sc)).At(sc.Pos())
	n := 0
	eachInstr(sc, func(i ssa.Instruction) {
		if isCall(i, nServeConn, "(*hack.ChannelListener).SendToChannel") {
			n++
			gs := c.guardStrs(i.Block())
			o.AtI(i)
			o.Check(guardOkOn(gs, "tlsHandshakeWithTimeout(") && guardOkOn(gs, "GetClientHello("),
				"%s is reachable after a failed handshake or failed ClientHello capture; guards %v", calleeName(callOf(i)), gs)
		}
	})
	o.Check(n >= 2, "expected the h2 and the h1 hand-off sites, found %d", n)
}

// R6: the accept loop never waits for a client.
func c10r6(r *R) {
	c := r.C
	serve, goStmt, _ := serveLoop(r)
	o := r.Ob("C10.R6", "accept-loop-nonblocking:"+funcName(serve)).AtI(goStmt)
	var accept ssa.Instruction
	for _, s := range callsIn(serve, "(net.Listener).Accept") {
		accept = s
	}
	r.need(accept != nil, "Accept call not found")
	loop := map[*ssa.BasicBlock]bool{}
	for _, b := range serve.Blocks {
		if inLoop(b) {
			loop[b] = true
		}
	}
	o.Check(loop[accept.Block()], "Accept is not in a loop")
	allowed := map[string]bool{
		"(net.Listener).Accept": true, "(*proxyserver.Server).vlogf": true, "(*proxyserver.Server).logf": true, "(net.Conn).RemoteAddr": true,
		"(*proxyserver.Server).shuttingDown": true,
	}
	for b := range loop {
		for _, i := range b.Instrs {
			switch x := i.(type) {
			case *ssa.Call:
				n := calleeName(&x.Call)
				o.Check(allowed[n], "the accept loop calls %s at %s: a slow client could stall accepting", n, c.Pos(instrPos(i)))
			case *ssa.Send, *ssa.Select:
				o.Fail("channel operation in the accept loop at %s", c.Pos(instrPos(i)))
			case *ssa.UnOp:
				if x.Op == token.ARROW {
					o.Fail("channel receive in the accept loop at %s", c.Pos(instrPos(i)))
				}
			}
		}
	}
}

var reviewedPanics2 = map[string]string{}

var _ = fmt.Sprint

// R7: bounds discipline on goroutines without a recover frame: every index / slice / fixed-width decode executed there
// is justified by the length checks that dominate it (or individually reviewed).
func c10r7(r *R) {
	boundsRule(r, "C10.R7", unprotectedFuncs(r), 40)
}

func init() {
	p := registry["C10"]
	p.Rules = append(p.Rules, ruleDef{"C10.R8", func(r *R) {
		forkSiblingRule(r, "C10.R8", "server.go", "frame.go", "write.go", "http2.go")
	}})
	wantRefs("C10")
}

// R9: other implicit panic sources on goroutines without a recover frame: single-value type assertions and integer
// divisions by a non-constant. Each site is either structurally safe or listed in the reviewed table.
var reviewedImplicit = map[string]string{
	"(*http2.Framer).ReadFrame|assert *http2.HeadersFrame of dyn:http2.typeFrameParser(http2.readFrameHeader(p0.headerBuf[:], p0.r)#0.Type)(p0.frameCache, http2.readFrameHeader(p0.headerBuf[:], p0.r)#0, p0.countError, dyn:p0.getReadBuf(http2.readFrameHeader(p0.headerBuf[:], p0.r)#0.Length))#0": "guarded by fh.Type == FrameHeaders; the parser table maps that type to parseHeadersFrame, whose only success result is *HeadersFrame (C13.R1 / C19.R1 check both)",
	"(*http2.Framer).readMetaFrame|assert *http2.ContinuationFrame of (*http2.Framer).ReadFrame(p0)#0": "checkFrameOrder admits only CONTINUATION on the same stream after a HEADERS frame without END_HEADERS (decision table in C19.R3)",
	"http2.cutoff64|div by p0": "debug aid (DEBUG_HTTP2_GOROUTINES=1), called with base 10",
}

func init() {
	p := registry["C10"]
	p.Rules = append(p.Rules, ruleDef{"C10.R9", c10r9})
}

func c10r9(r *R) {
	c := r.C
	n := 0
	for _, fn := range unprotectedFuncs(r) {
		eachInstr(fn, func(i ssa.Instruction) {
			switch x := i.(type) {
			case *ssa.TypeAssert:
				if x.CommaOk {
					return
				}
				n++
				key := funcName(fn) + "|assert " + typeName(x.AssertedType) + " of " + c.Expr(x.X)
				o := r.Ob("C10.R9", "implicit:"+key).AtI(i)
				// safe when the operand was produced as that very type in the same function (type switch case / just-made interface)
				if mi, ok := x.X.(*ssa.MakeInterface); ok && typeName(mi.X.Type()) == typeName(x.AssertedType) {
					return
				}
				if why, ok := reviewedImplicit[key]; ok {
					o.OK("reviewed: %s", why)
					return
				}
				// sync.Pool.Get of a pool whose New returns that type, and assertions guarded by a successful comma-ok test of the same value
				if strings.Contains(c.Expr(x.X), "(*sync.Pool).Get(") {
					o.OK("value comes from a sync.Pool that only ever holds this type")
					return
				}
				for _, g := range c.guardStrs(i.Block()) {
					if strings.HasPrefix(g, "+assert["+typeName(x.AssertedType)+"]("+c.Expr(x.X)+")#1") {
						return
					}
				}
				o.Fail("single-value type assertion %s.(%s) in %s runs on a goroutine without a recover frame: if the dynamic type differs the process terminates", c.Expr(x.X), typeName(x.AssertedType), funcName(fn))
			case *ssa.Call:
				b, ok := x.Call.Value.(*ssa.Builtin)
				if !ok || b.Name() != "close" {
					return
				}
				n++
				key := funcName(fn) + "|close " + c.Expr(x.Call.Args[0])
				o := r.Ob("C10.R9", "implicit:"+key).AtI(i)
				if why, ok := reviewedImplicit[key]; ok {
					o.OK("reviewed: %s", why)
					return
				}
				if closeIfUnclosed(c, x) {
					o.OK("close-if-unclosed idiom: non-nil channel, default edge of a non-blocking receive from the same channel (callers hold the owner's mutex)")
					return
				}
				if onceOnly(c, fn, i) {
					o.OK("runs at most once: inside a sync.Once.Do function")
					return
				}
				o.Fail("close(%s) in %s runs on a goroutine without a recover frame and is not shown to run at most once per channel: closing a closed (or nil) channel terminates the process", c.Expr(x.Call.Args[0]), funcName(fn))
			case *ssa.BinOp:
				if (x.Op.String() == "/" || x.Op.String() == "%") && isIntegerT(x.Type()) {
					if _, isC := constInt(x.Y); isC {
						return
					}
					n++
					// a conversion that does not drop bits is zero exactly when its operand is
					dv := x.Y
					for {
						cv, ok := dv.(*ssa.Convert)
						if !ok {
							break
						}
						db, _, ok1 := intInfo(cv.Type())
						sb, _, ok2 := intInfo(cv.X.Type())
						if !ok1 || !ok2 || db < sb {
							break
						}
						dv = cv.X
					}
					key := funcName(fn) + "|div by " + c.Expr(dv)
					o := r.Ob("C10.R9", "implicit:"+key).AtI(i)
					if why, ok := reviewedImplicit[key]; ok {
						o.OK("reviewed: %s", why)
						return
					}
					nz := false
					for _, g := range c.guardStrs(i.Block()) {
						if g == canonStr("-"+eqs("0", c.Expr(dv))) || g == "+(0 < "+c.Expr(dv)+")" || g == "+(0 != "+c.Expr(dv)+")" {
							nz = true
						}
					}
					o.Check(nz, "integer division by %s in %s on a goroutine without a recover frame is not guarded by a non-zero test", c.Expr(dv), funcName(fn))
				}
			}
		})
	}
	r.Ob("C10.R9", "instances").OK("%d single-value type assertions / variable divisions on unprotected goroutines", n)
}

// onceOnly: fn is a function literal passed to (*sync.Once).Do.
func onceOnly(c *Ctx, fn *ssa.Function, i ssa.Instruction) bool {
	if fn.Parent() == nil {
		return false
	}
	ok := false
	eachInstr(fn.Parent(), func(j ssa.Instruction) {
		if cc := callOf(j); cc != nil && calleeName(cc) == "(*sync.Once).Do" && closureTarget(cc.Args[1]) == fn {
			ok = true
		}
	})
	return ok
}

// closeIfUnclosed: `if ch != nil { select { case <-ch: default: close(ch) } }`.
func closeIfUnclosed(c *Ctx, call *ssa.Call) bool {
	ch := c.Expr(call.Call.Args[0])
	nonNil, unclosed := false, false
	for _, g := range guardsOf(call.Block()) {
		bo, ok := g.Cond.(*ssa.BinOp)
		if !ok {
			continue
		}
		e := c.Expr(bo)
		if (e == "(nil == "+ch+")" && !g.Pol) || (e == "(nil != "+ch+")" && g.Pol) {
			nonNil = true
		}
		if ex, ok := bo.X.(*ssa.Extract); ok && !g.Pol && bo.Op == token.EQL {
			if sel, ok := ex.Tuple.(*ssa.Select); ok && !sel.Blocking && len(sel.States) == 1 && sel.States[0].Dir == types.RecvOnly && c.Expr(sel.States[0].Chan) == ch {
				if k, isC := constInt(bo.Y); isC && k == 0 {
					unclosed = true
				}
			}
		}
	}
	return nonNil && unclosed
}
