package main

// Path conditions: for every block, the branch outcomes that hold on every feasible path reaching it, computed as a
// forward analysis over sets of alternatives (a small disjunctive normal form) instead of from the dominator tree.
//
// Why: dominance gives `X` in `if a && b {X}` the guards {a, b} but gives the second `return` in
//     if err != nil && down() { return A }; if err != nil { return err }
// only {err != nil}, although it is reached exactly under err != nil && !down(). How a maintainer nests, merges or
// splits conditions should not change what a rule reads. Here the state at a block is a set of alternatives, each a
// conjunction of literals (condition, outcome); an edge adds its literal and is infeasible for an alternative that
// already holds the opposite one; equal tests written twice (`err != nil` … `err == nil`) share one condition key.
// The guards of a block are the literals common to all its alternatives, the rest is reported as one OR{…} term.

import (
	"go/types"
	"os"
	"fmt"
	"go/token"
	"sort"
	"strings"

	"golang.org/x/tools/go/ssa"
)

type pcLit int32 // key<<1 | outcome

type pcAlt []pcLit // sorted

type pcInfo struct {
	conds   []ssa.Value           // key -> representative condition value
	keyOf   map[string]int        // structural key -> id
	ptrKey  map[ssa.Value]int     // pointer-keyed conditions
	killAt  map[*ssa.BasicBlock][]int // keys invalidated on entry to a block
	in      map[*ssa.BasicBlock][]pcAlt
	flip    map[int]bool
	isFlag  map[int]bool // condition of a flag block (decided by the incoming edge)
	via     map[*ssa.BasicBlock]map[int]int // block -> predecessor index -> pseudo condition "entered through that edge"
	viaOf   map[int][2]int                  // pseudo condition -> (block index, predecessor index)
	brOf    map[*ssa.BasicBlock]pcBr
}

// boolPhiBranch: b ends in `if v` / `if !v` with v a boolean phi of b itself.
func boolPhiBranch(b *ssa.BasicBlock) (*ssa.Phi, bool) {
	if b == nil || len(b.Instrs) == 0 || len(b.Succs) != 2 {
		return nil, false
	}
	iff, ok := b.Instrs[len(b.Instrs)-1].(*ssa.If)
	if !ok {
		return nil, false
	}
	v := iff.Cond
	for {
		if u, ok := v.(*ssa.UnOp); ok && u.Op == token.NOT {
			v = u.X
			continue
		}
		break
	}
	phi, ok := v.(*ssa.Phi)
	if !ok || phi.Block() != b {
		return nil, false
	}
	return phi, true
}

// nilPhiBranch: b ends in `if v == nil` / `if v != nil` (possibly negated) with v a phi of b itself: the shape an
// error (or pointer) takes when it was picked in several branches and is tested after they join —
// `x, err := f()` with f expanded in place, `if err != nil`.
func nilPhiBranch(b *ssa.BasicBlock) (*ssa.Phi, *ssa.Const, bool) {
	if b == nil || len(b.Instrs) == 0 || len(b.Succs) != 2 {
		return nil, nil, false
	}
	iff, ok := b.Instrs[len(b.Instrs)-1].(*ssa.If)
	if !ok {
		return nil, nil, false
	}
	v := iff.Cond
	for {
		if u, ok := v.(*ssa.UnOp); ok && u.Op == token.NOT {
			v = u.X
			continue
		}
		break
	}
	bo, ok := v.(*ssa.BinOp)
	if !ok || (bo.Op != token.EQL && bo.Op != token.NEQ) {
		return nil, nil, false
	}
	for _, pr := range [][2]ssa.Value{{bo.X, bo.Y}, {bo.Y, bo.X}} {
		if phi, ok := pr[0].(*ssa.Phi); ok && phi.Block() == b {
			if k, ok := pr[1].(*ssa.Const); ok && k.Value == nil {
				return phi, k, true
			}
		}
	}
	return nil, nil, false
}

// eqNilKey: the key of `e == nil` if some branch of the function tests exactly that.
func (pi *pcInfo) eqNilKey(e ssa.Value, nilc *ssa.Const) (int, bool) {
	kx, okx := pcOperandKey(e)
	ky, oky := pcOperandKey(nilc)
	if !okx || !oky {
		return 0, false
	}
	if kx > ky {
		kx, ky = ky, kx
	}
	id, ok := pi.keyOf[kx+" "+token.EQL.String()+" "+ky]
	return id, ok
}

const pcMaxAlts = 24

var pcCache = map[*ssa.Function]*pcInfo{}

func pcOperandKey(v ssa.Value) (string, bool) {
	switch x := v.(type) {
	case *ssa.Const:
		return "c:" + x.String(), true
	case *ssa.UnOp:
		if x.Op == token.MUL {
			return "", false // a load: its value depends on when it is executed
		}
	case *ssa.Call:
		// len/cap of a slice or string value: the same number wherever it is computed
		if bi, ok := x.Call.Value.(*ssa.Builtin); ok && (bi.Name() == "len" || bi.Name() == "cap") && len(x.Call.Args) == 1 {
			switch x.Call.Args[0].Type().Underlying().(type) {
			case *types.Slice, *types.Basic, *types.Array:
				if k, ok := pcOperandKey(x.Call.Args[0]); ok {
					return bi.Name() + "(" + k + ")", true
				}
			}
		}
	case *ssa.Convert:
		if convPreserves(x) {
			if _, _, isInt := intInfo(x.Type()); isInt {
				return pcOperandKey(x.X)
			}
		}
	}
	return fmt.Sprintf("%p", v), true
}

// condKey normalises a branch condition to (key, polarity flip): `!x`, `a != b`, `a >= b`, `a > b`, `a <= b` are
// restated over `==` and `<`.
func (pi *pcInfo) condKey(v ssa.Value) (int, bool) {
	flip := false
	for {
		if u, ok := v.(*ssa.UnOp); ok && u.Op == token.NOT {
			v = u.X
			flip = !flip
			continue
		}
		break
	}
	notFlip := flip
	if bo, ok := v.(*ssa.BinOp); ok {
		x, y, op := bo.X, bo.Y, bo.Op
		switch op {
		case token.NEQ:
			op, flip = token.EQL, !flip
		case token.GEQ:
			op, flip = token.LSS, !flip
		case token.GTR:
			op, x, y = token.LSS, y, x
		case token.LEQ:
			op, x, y, flip = token.LSS, y, x, !flip
		}
		// `0 < x` for non-negative x (unsigned, len, cap) is `x != 0`: one key with the equality test
		if op == token.LSS {
			if k, isC := constInt(x); isC && k == 0 {
				if _, isConst := x.(*ssa.Const); isConst && sigBits(y, 0) < 64 {
					op, flip = token.EQL, !flip
				}
			}
		}
		if op == token.EQL || op == token.LSS {
			kx, okx := pcOperandKey(x)
			ky, oky := pcOperandKey(y)
			if okx && oky {
				if op == token.EQL && kx > ky {
					kx, ky = ky, kx
				}
				sk := kx + " " + op.String() + " " + ky
				id, ok := pi.keyOf[sk]
				if !ok {
					id = len(pi.conds)
					pi.keyOf[sk] = id
					// representative: the condition in its normalised orientation is not an SSA value; keep the
					// first instance and remember whether it is written flipped
					pi.conds = append(pi.conds, v)
					pi.flip[id] = flip
					// operands: the key dies when an operand is (re)defined
					for _, o := range []ssa.Value{x, y} {
						if ins, ok := o.(ssa.Instruction); ok && ins.Block() != nil {
							pi.killAt[ins.Block()] = append(pi.killAt[ins.Block()], id)
						}
					}
				}
				return id, flip
			}
		}
	}
	// keyed by identity: only negations written with `!` are folded
	if id, ok := pi.ptrKey[v]; ok {
		return id, notFlip
	}
	id := len(pi.conds)
	pi.ptrKey[v] = id
	pi.conds = append(pi.conds, v)
	pi.flip[id] = false
	if ins, ok := v.(ssa.Instruction); ok && ins.Block() != nil {
		pi.killAt[ins.Block()] = append(pi.killAt[ins.Block()], id)
	}
	return id, notFlip
}

func pcAltKey(a pcAlt) string {
	var b strings.Builder
	for _, l := range a {
		fmt.Fprintf(&b, "%d,", l)
	}
	return b.String()
}

func pcHas(a pcAlt, l pcLit) bool {
	i := sort.Search(len(a), func(i int) bool { return a[i] >= l })
	return i < len(a) && a[i] == l
}

func pcAdd(a pcAlt, l pcLit) pcAlt {
	if pcHas(a, l) {
		return a
	}
	out := make(pcAlt, 0, len(a)+1)
	i := sort.Search(len(a), func(i int) bool { return a[i] >= l })
	out = append(out, a[:i]...)
	out = append(out, l)
	out = append(out, a[i:]...)
	return out
}

func pcWithout(a pcAlt, key int) pcAlt {
	var out pcAlt
	for _, l := range a {
		if int(l>>1) != key {
			out = append(out, l)
		}
	}
	return out
}

func pcSubset(a, b pcAlt) bool { // a ⊆ b
	for _, l := range a {
		if !pcHas(b, l) {
			return false
		}
	}
	return true
}

// pcSimplify removes duplicates and subsumed alternatives, merges A∪{x} with A∪{¬x}, and caps the set.
func pcSimplify(alts []pcAlt) []pcAlt {
	for changed := true; changed; {
		changed = false
		seen := map[string]bool{}
		var uniq []pcAlt
		for _, a := range alts {
			k := pcAltKey(a)
			if !seen[k] {
				seen[k] = true
				uniq = append(uniq, a)
			}
		}
		alts = uniq
		// complementary pairs
	outer:
		for i := 0; i < len(alts); i++ {
			for j := i + 1; j < len(alts); j++ {
				a, b := alts[i], alts[j]
				if len(a) != len(b) {
					continue
				}
				diff := -1
				ok := true
				for k := range a {
					if a[k] != b[k] {
						if diff >= 0 || a[k]>>1 != b[k]>>1 {
							ok = false
							break
						}
						diff = k
					}
				}
				if ok && diff >= 0 {
					merged := append(append(pcAlt{}, a[:diff]...), a[diff+1:]...)
					alts[i] = merged
					alts = append(alts[:j], alts[j+1:]...)
					changed = true
					break outer
				}
			}
		}
		// subsumption: drop supersets
		var keep []pcAlt
		for i, a := range alts {
			sub := false
			for j, b := range alts {
				if i != j && pcSubset(b, a) && (len(b) < len(a) || j < i) {
					sub = true
					break
				}
			}
			if !sub {
				keep = append(keep, a)
			} else {
				changed = true
			}
		}
		alts = keep
	}
	if len(alts) > pcMaxAlts {
		// weaken: keep only what all alternatives agree on
		common := alts[0]
		for _, a := range alts[1:] {
			var c pcAlt
			for _, l := range common {
				if pcHas(a, l) {
					c = append(c, l)
				}
			}
			common = c
		}
		alts = []pcAlt{common}
	}
	sort.Slice(alts, func(i, j int) bool { return pcAltKey(alts[i]) < pcAltKey(alts[j]) })
	return alts
}

func pcEqual(a, b []pcAlt) bool {
	if len(a) != len(b) {
		return false
	}
	for i := range a {
		if pcAltKey(a[i]) != pcAltKey(b[i]) {
			return false
		}
	}
	return true
}

type pcBr struct {
	key  int
	flip bool
}

// alongEdge: alternative a of block p carried over the edge p→b (the edge's literal added; a flag whose value on a's
// incoming edge was v restated as an outcome of v); ok=false when the edge is infeasible for a.
func (pi *pcInfo) alongEdge(brOf map[*ssa.BasicBlock]pcBr, p, b *ssa.BasicBlock, a pcAlt) (pcAlt, bool) {
	na := a
	if ls := liveSuccs(p); len(ls) != len(p.Succs) {
		// a branch on a constant: one side only, and no condition to remember
		if len(ls) == 1 && ls[0] == b {
			return na, true
		}
		return nil, false
	}
	pb, hasBr := brOf[p]
	if !hasBr {
		return na, true
	}
	side := -1
	if p.Succs[0] == b {
		side = 0
	} else if p.Succs[1] == b {
		side = 1
	}
	if side < 0 {
		return na, true
	}
	outcome := side == 0
	if pb.flip {
		outcome = !outcome
	}
	l := pcLit(pb.key << 1)
	if outcome {
		l |= 1
	}
	if pcHas(a, l^1) {
		return nil, false // contradicts what is already known on this alternative
	}
	na = pcAdd(a, l)
	if vm := pi.via[p]; vm != nil {
		if phi, ok := boolPhiBranch(p); ok {
			for ek, vid := range vm {
				if !pcHas(a, pcLit(vid<<1|1)) {
					continue
				}
				// `outcome` is stated for the condition with `!` stripped, i.e. for the phi itself
				k2, f2 := pi.condKey(phi.Edges[ek])
				o2 := outcome
				if f2 {
					o2 = !o2
				}
				l2 := pcLit(k2 << 1)
				if o2 {
					l2 |= 1
				}
				if pcHas(na, l2^1) {
					return nil, false
				}
				na = pcAdd(pcWithout(na, vid), l2)
			}
		} else if phi, nilc, ok := nilPhiBranch(p); ok {
			for ek, vid := range vm {
				if !pcHas(a, pcLit(vid<<1|1)) {
					continue
				}
				// `outcome` is stated for the normalised condition, phi == nil; on this alternative phi is Edges[ek]
				k2, has := pi.eqNilKey(phi.Edges[ek], nilc)
				if !has {
					continue
				}
				l2 := pcLit(k2 << 1)
				if outcome {
					l2 |= 1
				}
				if pcHas(na, l2^1) {
					return nil, false
				}
				na = pcAdd(pcWithout(na, vid), l2)
			}
		}
	}
	return na, true
}

// enter: what changes on entering b through its predecessor number pk.
func (pi *pcInfo) enter(brOf map[*ssa.BasicBlock]pcBr, b *ssa.BasicBlock, pk int, oc []int, isFlag bool, na pcAlt) pcAlt {
	for _, k := range pi.killAt[b] {
		na = pcWithout(na, k)
	}
	if isFlag && pk < len(oc) && oc[pk] >= 0 {
		if bb, ok := brOf[b]; ok {
			outcome := oc[pk] == 1
			if bb.flip {
				outcome = !outcome
			}
			l := pcLit(bb.key << 1)
			if outcome {
				l |= 1
			}
			na = pcAdd(na, l)
		}
	}
	if vm := pi.via[b]; vm != nil {
		if vid, ok := vm[pk]; ok {
			na = pcAdd(na, pcLit(vid<<1|1))
		}
	}
	return na
}

func pathConds(fn *ssa.Function) *pcInfo {
	if pi, ok := pcCache[fn]; ok {
		return pi
	}
	pi := &pcInfo{keyOf: map[string]int{}, ptrKey: map[ssa.Value]int{}, killAt: map[*ssa.BasicBlock][]int{}, in: map[*ssa.BasicBlock][]pcAlt{}, flip: map[int]bool{}, isFlag: map[int]bool{}, via: map[*ssa.BasicBlock]map[int]int{}, viaOf: map[int][2]int{}}
	pcCache[fn] = pi
	if len(fn.Blocks) == 0 {
		return pi
	}
	// condition keys of all branches first (so that kill sets are complete before iterating)
	brOf := map[*ssa.BasicBlock]pcBr{}
	for _, b := range fn.Blocks {
		if len(b.Instrs) == 0 || len(b.Succs) != 2 || b.Succs[0] == b.Succs[1] {
			continue
		}
		if iff, ok := b.Instrs[len(b.Instrs)-1].(*ssa.If); ok {
			k, f := pi.condKey(iff.Cond)
			brOf[b] = pcBr{k, f}
			if _, isFlag := flagOutcomes(b); isFlag {
				pi.isFlag[k] = true
			}
		}
	}
	// value-carrying flags: `ok := a && f(x); if ok {…}` — the phi takes a non-constant boolean on some edge; entering
	// through that edge is remembered as a pseudo literal and turned into a literal on that value when the branch is taken
	for _, b := range fn.Blocks {
		phi, ok := boolPhiBranch(b)
		if !ok {
			// the same for a value compared with nil after the join, when every non-constant edge value has its own
			// nil test somewhere in the function (the literal the edge is restated as)
			var nilc *ssa.Const
			if phi, nilc, ok = nilPhiBranch(b); ok {
				for k := range b.Preds {
					if k >= len(phi.Edges) {
						continue
					}
					if _, isC := phi.Edges[k].(*ssa.Const); isC {
						continue
					}
					if _, has := pi.eqNilKey(phi.Edges[k], nilc); !has {
						ok = false
					}
				}
			}
		}
		if !ok {
			continue
		}
		for k := range b.Preds {
			if k >= len(phi.Edges) {
				continue
			}
			if _, isC := phi.Edges[k].(*ssa.Const); isC {
				continue
			}
			id := len(pi.conds)
			pi.conds = append(pi.conds, nil)
			pi.flip[id] = false
			pi.isFlag[id] = true
			if pi.via[b] == nil {
				pi.via[b] = map[int]int{}
			}
			pi.via[b][k] = id
			pi.viaOf[id] = [2]int{b.Index, k}
			if bb, has := brOf[b]; has {
				pi.isFlag[bb.key] = true
			}
		}
	}
	pi.brOf = brOf
	pi.in[fn.Blocks[0]] = []pcAlt{{}}
	// iterate in block order until stable
	for iter := 0; iter < 60; iter++ {
		changed := false
		for _, b := range fn.Blocks {
			if b.Index == 0 {
				continue
			}
			var alts []pcAlt
			oc, isFlag := flagOutcomes(b)
			for pk, p := range b.Preds {
				pin, ok := pi.in[p]
				if !ok {
					continue
				}
				for _, a := range pin {
					if na, ok := pi.alongEdge(brOf, p, b, a); ok {
						alts = append(alts, pi.enter(brOf, b, pk, oc, isFlag, na))
					}
				}
			}
			if alts == nil {
				continue
			}
			alts = pcSimplify(alts)
			if old, ok := pi.in[b]; !ok || !pcEqual(old, alts) {
				pi.in[b] = alts
				changed = true
			}
		}
		if !changed {
			break
		}
	}
	if dbg := os.Getenv("FPCHECK_DEBUG_PC"); dbg != "" && strings.Contains(fn.String(), dbg) {
		for _, b := range fn.Blocks {
			fmt.Fprintf(os.Stderr, "PC %s b%d: %d alts\n", fn.Name(), b.Index, len(pi.in[b]))
			for _, a := range pi.in[b] {
				fmt.Fprintf(os.Stderr, "    %v\n", a)
			}
		}
		for k, c := range pi.conds {
			if c != nil {
				fmt.Fprintf(os.Stderr, "  cond %d flag=%v: %s\n", k, pi.isFlag[k], c.String())
			}
		}
	}
	return pi
}

// pathGuards: the literals common to all alternatives of b, and the residual alternatives (nil when there is one).
func pathGuards(b *ssa.BasicBlock) (common []Guard, alts [][]Guard) {
	fn := b.Parent()
	pi := pathConds(fn)
	as, ok := pi.in[b]
	if !ok || len(as) == 0 {
		return nil, nil
	}
	mk := func(l pcLit) (Guard, bool) {
		k := int(l >> 1)
		if pi.isFlag[k] {
			return Guard{}, false // stated through the conditions of the edges that decide the flag
		}
		v := pi.conds[k]
		pol := l&1 == 1
		if pi.flip[k] {
			pol = !pol
		}
		return Guard{Cond: v, Pol: pol}, true
	}
	cm := as[0]
	for _, a := range as[1:] {
		var c pcAlt
		for _, l := range cm {
			if pcHas(a, l) {
				c = append(c, l)
			}
		}
		cm = c
	}
	for _, l := range cm {
		if g, ok := mk(l); ok {
			common = append(common, g)
		}
	}
	if len(as) > 1 {
		for _, a := range as {
			var set []Guard
			for _, l := range a {
				if pcHas(cm, l) {
					continue
				}
				if g, ok := mk(l); ok {
					set = append(set, g)
				}
			}
			alts = append(alts, set)
		}
		// an empty alternative makes the disjunction trivially true
		for _, s := range alts {
			if len(s) == 0 {
				alts = nil
				break
			}
		}
	}
	return common, alts
}

// pathAlts: every alternative under which b is reached, each as its full list of rendered literals.
func (c *Ctx) pathAlts(b *ssa.BasicBlock) [][]string {
	pi := pathConds(b.Parent())
	var out [][]string
	for _, a := range pi.in[b] {
		var lits []string
		for _, l := range a {
			k := int(l >> 1)
			if pi.isFlag[k] {
				continue
			}
			pol := l&1 == 1
			if pi.flip[k] {
				pol = !pol
			}
			lits = append(lits, canonGuard(pol, c.Expr(pi.conds[k])))
		}
		sort.Strings(lits)
		out = append(out, lits)
	}
	return out
}

// pathEdgeGuards: the literals that hold on every feasible path that takes the edge pred→succ.
func (c *Ctx) pathEdgeGuards(pred, succ *ssa.BasicBlock) []string {
	pi := pathConds(pred.Parent())
	var alts []pcAlt
	for _, a := range pi.in[pred] {
		if na, ok := pi.alongEdge(pi.brOf, pred, succ, a); ok {
			alts = append(alts, na)
		}
	}
	if len(alts) == 0 {
		return nil
	}
	cm := alts[0]
	for _, a := range alts[1:] {
		var x pcAlt
		for _, l := range cm {
			if pcHas(a, l) {
				x = append(x, l)
			}
		}
		cm = x
	}
	var out []string
	for _, l := range cm {
		k := int(l >> 1)
		if pi.isFlag[k] || pi.conds[k] == nil {
			continue
		}
		pol := l&1 == 1
		if pi.flip[k] {
			pol = !pol
		}
		out = append(out, canonGuard(pol, c.Expr(pi.conds[k])))
	}
	return out
}

// pathEdgeAlts: every alternative under which the edge pred→succ is taken, each as its full list of rendered literals.
func (c *Ctx) pathEdgeAlts(pred, succ *ssa.BasicBlock) [][]string {
	pi := pathConds(pred.Parent())
	var out [][]string
	for _, a := range pi.in[pred] {
		na, ok := pi.alongEdge(pi.brOf, pred, succ, a)
		if !ok {
			continue
		}
		var lits []string
		for _, l := range na {
			k := int(l >> 1)
			if pi.isFlag[k] || pi.conds[k] == nil {
				continue
			}
			pol := l&1 == 1
			if pi.flip[k] {
				pol = !pol
			}
			lits = append(lits, canonGuard(pol, c.Expr(pi.conds[k])))
		}
		sort.Strings(lits)
		out = append(out, lits)
	}
	return out
}

// retAlt: one way a function returns: the value of result k and the full conditions of one alternative path.
type retAlt struct {
	Ret  *ssa.Return
	V    ssa.Value
	E    string
	Lits []string
}

// returnAlts lists, for result k of fn, every (value, path alternative) pair. A result chosen by a phi at the return
// contributes the alternatives of each incoming edge with that edge's value, so "assign then return once" and "return
// in every branch" read alike.
func (c *Ctx) returnAlts(fn *ssa.Function, k int) []retAlt {
	var out []retAlt
	eachInstr(fn, func(i ssa.Instruction) {
		ret, ok := i.(*ssa.Return)
		if !ok || k >= len(ret.Results) {
			return
		}
		b := i.Block()
		v := retValue(ret, k)
		for {
			switch x := v.(type) {
			case *ssa.ChangeType:
				v = x.X
				continue
			case *ssa.MakeInterface:
				v = x.X
				continue
			}
			break
		}
		if phi, isPhi := v.(*ssa.Phi); isPhi && phi.Block() == b {
			for j, e := range phi.Edges {
				if j >= len(b.Preds) {
					continue
				}
				for _, lits := range c.pathEdgeAlts(b.Preds[j], b) {
					out = append(out, retAlt{ret, e, c.Expr(e), lits})
				}
			}
			return
		}
		for _, lits := range c.pathAlts(b) {
			out = append(out, retAlt{ret, v, c.Expr(v), lits})
		}
	})
	return out
}
