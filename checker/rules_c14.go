package main

import (
	"go/token"
	"go/types"
	"strings"

	"golang.org/x/tools/go/ssa"
)

func init() {
	register("C14", false,
		ruleDef{"C14.R1", c14r1},
		ruleDef{"C14.R2", c14r2},
		ruleDef{"C14.R3", c14r3},
		ruleDef{"C14.R4", c14r4},
	)
}

func c14r1(r *R) {
	c := r.C
	cw := c.Named("pkg/certwatcher", "CertWatcher")
	r.need(cw != nil, "certwatcher.CertWatcher not found")
	mf := ""
	for i := 0; i < structNumFields(cw); i++ {
		f := structField(cw, i)
		if tn := typeName(f.Type()); tn == "sync.RWMutex" || tn == "sync.Mutex" {
			mf = f.Name()
		}
	}
	r.Ob("C14.R1", "mutex-field").At(cw.Obj().Pos()).Check(mf != "", "CertWatcher has no mutex guarding currentCert")
	held := map[*ssa.Function]map[ssa.Instruction]lockSet{}
	n := 0
	for _, a := range fieldAccesses(c.FuncsIn(), cw, "currentCert") {
		n++
		if held[a.Fn] == nil {
			held[a.Fn] = c.locksHeld(a.Fn)
		}
		base := "?"
		if fa, ok := a.Addr.(*ssa.FieldAddr); ok {
			base = c.Expr(fa.X)
		}
		mode := held[a.Fn][a.Instr][base+"."+mf]
		o := r.Ob("C14.R1", "guarded:"+funcName(a.Fn)+":"+a.Kind).AtI(a.Instr)
		if a.Kind == "read" {
			o.Check(mode == "R" || mode == "W", "currentCert is read in %s without holding the watcher's lock (held: %v)", funcName(a.Fn), held[a.Fn][a.Instr])
		} else {
			o.Check(mode == "W", "currentCert is written (%s) in %s without holding the watcher's lock exclusively (held: %v)", a.Kind, funcName(a.Fn), held[a.Fn][a.Instr])
		}
	}
	r.Ob("C14.R1", "instances").Check(n >= 2, "expected >= 2 accesses to currentCert, found %d", n)
	locksReleased(r, "C14.R1", "pkg/certwatcher")
	// the lock is not taken again while it is held: a second RLock behind a waiting writer (a reload) deadlocks the
	// RWMutex for good — the event loop and every later handshake hang
	acquires := map[*ssa.Function]bool{}
	var acq func(fn *ssa.Function, depth int) bool
	acq = func(fn *ssa.Function, depth int) bool {
		if fn == nil || fn.Blocks == nil || depth > 3 {
			return false
		}
		if v, ok := acquires[fn]; ok {
			return v
		}
		acquires[fn] = false
		res := false
		eachInstr(fn, func(i ssa.Instruction) {
			cc := callOf(i)
			if cc == nil {
				return
			}
			switch calleeName(cc) {
			case "(*sync.RWMutex).RLock", "(*sync.RWMutex).Lock", "(*sync.Mutex).Lock":
				if len(cc.Args) >= 1 && strings.HasSuffix(c.Expr(cc.Args[0]), "p0."+mf) {
					res = true
				}
			default:
				if g := staticCallee(cc); g != nil && g.Pkg == fn.Pkg && len(cc.Args) >= 1 && c.Expr(cc.Args[0]) == "p0" && acq(g, depth+1) {
					res = true
				}
			}
		})
		acquires[fn] = res
		return res
	}
	oR := r.Ob("C14.R1", "no-reentrant-lock")
	for _, fn := range c.FuncsIn("pkg/certwatcher") {
		hl := c.locksHeld(fn)
		eachInstr(fn, func(i ssa.Instruction) {
			cc := callOf(i)
			if cc == nil || len(hl[i]) == 0 {
				return
			}
			if _, isDefer := i.(*ssa.Defer); isDefer {
				return
			}
			g := staticCallee(cc)
			if g == nil || g.Pkg != fn.Pkg || len(cc.Args) < 1 {
				return
			}
			holdsOwn := false
			for k := range hl[i] {
				if k == c.Expr(cc.Args[0])+"."+mf {
					holdsOwn = true
				}
			}
			if holdsOwn && acq(g, 0) {
				oR.AtI(i).Fail("%s calls %s while holding the watcher's lock, and %s takes that lock again: with a reload waiting for the write lock in between, the RWMutex deadlocks", funcName(fn), funcName(g), funcName(g))
			}
		})
	}
	oR.OK("no call made under the watcher's lock takes it again")
}

// locksReleased: every Lock/RLock in the given packages is released on all paths to return (no lock leak): the matching
// unlock is deferred right after the acquisition, or every path from it to a return passes the unlock.
func locksReleased(r *R, rule string, pkgs ...string) {
	c := r.C
	n := 0
	for _, fn := range c.FuncsIn(pkgs...) {
		for _, l := range callsIn(fn, "(*sync.RWMutex).Lock", "(*sync.RWMutex).RLock", "(*sync.Mutex).Lock") {
			if _, ok := l.(*ssa.Call); !ok {
				continue
			}
			n++
			key := c.Expr(callOf(l).Args[0])
			un := map[string]string{"(*sync.RWMutex).Lock": "(*sync.RWMutex).Unlock", "(*sync.RWMutex).RLock": "(*sync.RWMutex).RUnlock", "(*sync.Mutex).Lock": "(*sync.Mutex).Unlock"}[calleeName(callOf(l))]
			o := r.Ob(rule, "released:"+funcName(fn)+":"+calleeName(callOf(l))).AtI(l)
			deferred := deferOf(fn, func(d *ssa.Defer) bool {
				return calleeName(&d.Call) == un && c.Expr(d.Call.Args[0]) == key && instrDominates(l, d) && d.Block() == l.Block()
			})
			if deferred != nil {
				continue
			}
			p := c.escapePath(fn, l, func(i ssa.Instruction) bool {
				_, isCall := i.(*ssa.Call)
				return isCall && isCall2(i, un) && c.Expr(callOf(i).Args[0]) == key
			}, isReturn)
			o.Check(p == nil, "lock taken in %s is not released on a path to return (whoever needs it next blocks forever): %v", funcName(fn), p)
		}
	}
	r.Ob(rule, "released:instances").Check(n >= 1, "no lock acquisition found in %v", pkgs)
}

func isCall2(i ssa.Instruction, name string) bool { return isCall(i, name) }

func c14r2(r *R) {
	c := r.C
	cw := c.Named("pkg/certwatcher", "CertWatcher")
	r.need(cw != nil, "CertWatcher not found")
	nw := 0
	for _, a := range fieldAccesses(c.FuncsIn(), cw, "currentCert") {
		if a.Kind == "read" {
			continue
		}
		nw++
		o := r.Ob("C14.R2", "validate-then-swap:"+funcName(a.Fn)).AtI(a.Instr)
		st, ok := a.Instr.(*ssa.Store)
		if !o.Check(ok, "currentCert's address escapes (%s)", a.Kind) {
			continue
		}
		// a setter split off ReadCertificate (new helper, one call site): the value and the conditions are those of the call
		val, site, siteFn := st.Val, ssa.Instruction(st), a.Fn
		if prm, isPrm := val.(*ssa.Parameter); isPrm {
			for k, p := range a.Fn.Params {
				if p == prm {
					if arg := c.uniqueCallArg(a.Fn, k); arg != nil {
						if cs := c.uniqueCallSite(a.Fn); cs != nil {
							val, site, siteFn = arg, cs, cs.Parent()
						}
					}
				}
			}
		}
		// stored value: address of the local holding LoadX509KeyPair's result #0
		al, isAlloc := val.(*ssa.Alloc)
		if !o.Check(isAlloc, "currentCert is assigned %s, want the address of the freshly loaded pair", c.Expr(st.Val)) {
			continue
		}
		us := uniqueStore(al)
		if !o.Check(us != nil, "the stored certificate variable is written more than once") {
			continue
		}
		e := c.Expr(us.Val)
		o.Check(e == "crypto/tls.LoadX509KeyPair(p0.certPath, p0.keyPath)#0", "the swapped-in certificate is %s, want tls.LoadX509KeyPair(cw.certPath, cw.keyPath)#0 (certificate path first, key path second)", e)
		gs := c.guardStrs(site.Block())
		o.Check(hasGuard(gs, "-(crypto/tls.LoadX509KeyPair(p0.certPath, p0.keyPath)#1 != nil)"), "the swap is not dominated by the load's err == nil edge: a failed or half-written reload would replace the last good pair; guards %v", gs)
		// every re-read reads: no way through the function avoids the load, and it reports success only after the swap
		// (a "nothing changed" short-cut on mtime, size or digest keeps the old pair for updates it does not recognise)
		isLoad := func(i ssa.Instruction) bool { return isCall(i, "crypto/tls.LoadX509KeyPair") }
		okReturn := func(i ssa.Instruction) bool {
			ret, ok := i.(*ssa.Return)
			return ok && len(ret.Results) == 1 && c.Expr(ret.Results[0]) == "nil"
		}
		if p := c.escapePath(siteFn, nil, isLoad, okReturn); p != nil {
			o.Fail("%s can report success without loading the pair from disk: %v", funcName(siteFn), p)
		}
		if p := c.escapePath(siteFn, nil, func(i ssa.Instruction) bool { return i == site }, okReturn); p != nil {
			o.Fail("%s can report success without having swapped in what it loaded: %v", funcName(siteFn), p)
		}
		// the error edge returns the error (keeps the previous pointer)
		eachInstr(siteFn, func(i ssa.Instruction) {
			if ret, ok := i.(*ssa.Return); ok && hasGuard(c.guardStrs(i.Block()), "+(crypto/tls.LoadX509KeyPair(p0.certPath, p0.keyPath)#1 != nil)") {
				o.Check(c.Expr(ret.Results[0]) == "crypto/tls.LoadX509KeyPair(p0.certPath, p0.keyPath)#1", "load error edge returns %s", c.Expr(ret.Results[0]))
			}
		})
	}
	r.Ob("C14.R2", "instances").Check(nw == 1, "currentCert has %d writers, want exactly 1 (ReadCertificate)", nw)
	// certPath/keyPath are set once, in New, from the like-named parameters
	nw2 := 0
	for _, f := range []string{"certPath", "keyPath"} {
		for _, a := range fieldAccesses(c.FuncsIn(), cw, f) {
			if a.Kind == "write" {
				nw2++
				o := r.Ob("C14.R2", "paths:"+f).AtI(a.Instr)
				want := map[string]string{"certPath": "p0", "keyPath": "p1"}[f]
				o.Check(funcName(a.Fn) == "certwatcher.New" && c.Expr(a.Instr.(*ssa.Store).Val) == want, "%s is set to %s in %s", f, c.Expr(a.Instr.(*ssa.Store).Val), funcName(a.Fn))
			}
		}
	}
	r.Ob("C14.R2", "paths-instances").Check(nw2 == 2, "certPath/keyPath have %d writers, want 2", nw2)
	r.assume("S5: tls.LoadX509KeyPair returns an error unless the key matches the leaf certificate")
}

// evtNorm restates the fsnotify mask tests written in place (`event.Op&fsnotify.Write == fsnotify.Write`) as the
// package's like-named predicates, so that the rule reads both spellings alike.
func evtNorm(g string) string {
	for _, p := range [][2]string{{"isWrite", "2"}, {"isCreate", "1"}, {"isRemove", "4"}} {
		g = strings.ReplaceAll(g, "(("+p[1]+" & p1.Op) == "+p[1]+")", "certwatcher."+p[0]+"(p1)")
		g = strings.ReplaceAll(g, "(0 != ("+p[1]+" & p1.Op))", "certwatcher."+p[0]+"(p1)")
		// canonGuard may have stated the negation positively
		g = strings.ReplaceAll(g, "+(("+p[1]+" & p1.Op) != "+p[1]+")", "-certwatcher."+p[0]+"(p1)")
		g = strings.ReplaceAll(g, "+(0 == ("+p[1]+" & p1.Op))", "-certwatcher."+p[0]+"(p1)")
	}
	return g
}

func evtGuards(c *Ctx, b *ssa.BasicBlock) []string {
	var out []string
	for _, g := range c.guardStrs(b) {
		// one test of the three bits together: Op & (Create|Write|Remove) compared with 0
		switch g {
		case "+(0 == (7 & p1.Op))", "+((7 & p1.Op) == 0)":
			out = append(out, "-certwatcher.isWrite(p1)", "-certwatcher.isRemove(p1)", "-certwatcher.isCreate(p1)")
			continue
		case "+(0 != (7 & p1.Op))", "+((7 & p1.Op) != 0)":
			out = append(out, "+any-of certwatcher.isWrite(p1) certwatcher.isRemove(p1) certwatcher.isCreate(p1)")
			continue
		}
		out = append(out, evtNorm(g))
	}
	return out
}

func c14r3(r *R) {
	c := r.C
	he := c.Method("pkg/certwatcher", "CertWatcher", "handleEvent")
	r.need(he != nil, "handleEvent not found")
	o := r.Ob("C14.R3", "event-handling:"+funcName(he)).At(he.Pos())
	reads := callsIn(he, "(*certwatcher.CertWatcher).ReadCertificate")
	if o.Check(len(reads) == 1, "handleEvent calls ReadCertificate %d times", len(reads)) {
		rd := reads[0]
		o.AtI(rd)
		// filter: the only way to return without reloading is the not-(write|remove|create) edge
		p := c.escapePath(he, nil, func(i ssa.Instruction) bool { return i == rd }, func(i ssa.Instruction) bool {
			if !isReturn(i) {
				return false
			}
			gs := evtGuards(c, i.Block())
			return !(hasGuard(gs, "-certwatcher.isWrite(p1)") && hasGuard(gs, "-certwatcher.isRemove(p1)") && hasGuard(gs, "-certwatcher.isCreate(p1)"))
		})
		o.Check(p == nil, "a write/create/remove event can be dropped without reloading the pair: %v", p)
		// the reload is not conditional on anything after the filter except the filter itself
		for _, g := range evtGuards(c, rd.Block()) {
			ok := strings.Contains(g, "certwatcher.isWrite(p1)") || strings.Contains(g, "certwatcher.isRemove(p1)") || strings.Contains(g, "certwatcher.isCreate(p1)")
			o.Check(ok, "the reload is additionally conditional on %s", g)
		}
		// re-add the watch on remove, before the reload, and independent of the reload's outcome
		adds := callsIn(he, "(*github.com/fsnotify/fsnotify.Watcher).Add")
		if o.Check(len(adds) == 1, "handleEvent re-adds the watch %d times, want 1", len(adds)) {
			ad := adds[0]
			o.AtI(ad)
			a := callOf(ad).Args
			o.Check(c.Expr(a[0]) == "p0.watcher" && c.Expr(a[1]) == "p1.Name", "re-watch is %s", c.Expr(ad.(ssa.Value)))
			gs := evtGuards(c, ad.Block())
			o.Check(hasGuard(gs, "+certwatcher.isRemove(p1)"), "the re-watch is not on the isRemove edge; guards %v", gs)
			for _, g := range gs {
				o.Check(!strings.Contains(g, "ReadCertificate"), "the re-watch depends on the outcome of the reload (%s): after a reload that fails midway through a rename-style update the file is never watched again", g)
			}
			o.Check(!reachesAfter(rd, ad), "the watch is re-added only after the reload: a reload that fails (half-updated pair) must not prevent re-watching")
			// every remove event re-adds: from entry, paths on which isRemove is true reach Add before return
			var remIf *ssa.If
			eachInstr(he, func(i ssa.Instruction) {
				if iff, ok := i.(*ssa.If); ok && evtNorm(c.Expr(iff.Cond)) == "certwatcher.isRemove(p1)" && iff.Block().Succs[0] == ad.Block() {
					remIf = iff
				}
			})
			o.Check(remIf != nil, "no `if isRemove(event)` directly guarding the re-watch")
		}
		// errors of Add and ReadCertificate only log: no return between them
		eachInstr(he, func(i ssa.Instruction) {
			if isReturn(i) {
				for _, g := range c.guardStrs(i.Block()) {
					if strings.Contains(g, "Watcher).Add(") {
						o.AtI(i).Fail("handleEvent returns when re-watching fails, skipping the reload")
					}
				}
			}
		})
	}
	// predicates mask the like-named constants
	for _, p := range [][2]string{{"isWrite", "2"}, {"isCreate", "1"}, {"isRemove", "4"}} {
		fn := c.Func("pkg/certwatcher", p[0])
		oo := r.Ob("C14.R3", "predicate:"+p[0])
		if fn == nil {
			// no helper: the mask test must be written in place in handleEvent
			found := false
			eachInstr(he, func(i ssa.Instruction) {
				if bo, ok := i.(*ssa.BinOp); ok && evtNorm(c.Expr(bo)) == "certwatcher."+p[0]+"(p1)" {
					found = true
				}
				// or as one bit of the combined mask test
				if bo, ok := i.(*ssa.BinOp); ok && (c.Expr(bo) == "(0 == (7 & p1.Op))" || c.Expr(bo) == "(0 != (7 & p1.Op))" || c.Expr(bo) == "((7 & p1.Op) == 0)" || c.Expr(bo) == "((7 & p1.Op) != 0)") {
					found = true
				}
			})
			oo.Check(found, "neither %s nor an in-place test of event.Op against fsnotify.%s (%s) found", p[0], strings.TrimPrefix(p[0], "is"), p[1])
			continue
		}
		oo.At(fn.Pos())
		eachInstr(fn, func(i ssa.Instruction) {
			if ret, ok := i.(*ssa.Return); ok {
				e := c.Expr(ret.Results[0])
				want := "((" + p[1] + " & p0.Op) == " + p[1] + ")"
				want2 := "(0 != (" + p[1] + " & p0.Op))"
				// fsnotify's own Has (Event.Has / Op.Has: `o&h != 0`) on a single-bit mask is the same test
				want3 := "(github.com/fsnotify/fsnotify.Event).Has(p0, " + p[1] + ")"
				want4 := "(github.com/fsnotify/fsnotify.Op).Has(p0.Op, " + p[1] + ")"
				oo.Check(e == want || e == want2 || e == want3 || e == want4, "%s returns %s, want Op&%s == %s (fsnotify.%s)", p[0], e, p[1], p[1], strings.TrimPrefix(p[0], "is"))
			}
		})
	}
	// fsnotify constants are what we think they are
	oc := r.Ob("C14.R3", "fsnotify-constants")
	if fp := c.ByPath["github.com/fsnotify/fsnotify"]; oc.Check(fp != nil && fp.Types != nil, "fsnotify not loaded") {
		for nm, v := range map[string]string{"Create": "1", "Write": "2", "Remove": "4"} {
			obj := fp.Types.Scope().Lookup(nm)
			oc.Check(obj != nil && constObjString(obj) == v, "fsnotify.%s = %s, rule table expects %s", nm, constObjString(obj), v)
		}
	}
	// Watch: returns only on closed channels
	w := c.Method("pkg/certwatcher", "CertWatcher", "Watch")
	r.need(w != nil, "Watch not found")
	ow := r.Ob("C14.R3", "watch-loop:"+funcName(w)).At(w.Pos())
	nret := 0
	eachInstr(w, func(i ssa.Instruction) {
		if isReturn(i) {
			nret++
			// every way of reaching the return (one return per closed channel, or one return after a loop that is left
			// when either channel is closed) has seen a receive report a closed channel
			alts := c.pathAlts(i.Block())
			ow.AtI(i).Check(len(alts) > 0, "Watch returns on an edge other than a closed watcher channel; guards %v", c.guardStrs(i.Block()))
			for _, gs := range alts {
				closed := false
				for _, g := range gs {
					if strings.HasPrefix(g, "-select") && strings.Contains(g, "#") {
						closed = true
					}
				}
				ow.AtI(i).Check(closed, "Watch returns on an edge other than a closed watcher channel; conditions %v", gs)
			}
		}
	})
	ow.Check(nret >= 1 && nret <= 2, "Watch has %d returns", nret)
	he2 := callsIn(w, "(*certwatcher.CertWatcher).handleEvent")
	if ow.Check(len(he2) == 1, "Watch does not dispatch to handleEvent exactly once per iteration") {
		ow.Check(inLoop(he2[0].Block()), "handleEvent is not called in the watch loop")
		// every event is handled as it was received: the argument is the value just received from the Events channel
		// (not a merged or remembered one), in the case that received it
		arg := c.ExprAt(callOf(he2[0]).Args[1], he2[0].Block())
		recvd := false
		if ex, ok := callOf(he2[0]).Args[1].(*ssa.Extract); ok {
			if sel, ok := ex.Tuple.(*ssa.Select); ok && ex.Index >= 2 && sel.Block() != nil {
				k := ex.Index - 2
				n := 0
				for _, st := range sel.States {
					if st.Dir == types.RecvOnly {
						if n == k {
							recvd = strings.HasSuffix(c.Expr(st.Chan), ".watcher.Events")
						}
						n++
					}
				}
			}
		}
		ow.AtI(he2[0]).Check(recvd, "handleEvent is given %s, want the event just received from watcher.Events: events folded together or handled later lose the name of the file they were about", arg)
		for _, g := range c.guardStrs(he2[0].Block()) {
			ow.Check(strings.HasPrefix(g[1:], "select") || strings.HasPrefix(g[1:], "(select") || strings.Contains(g, "select"), "handling an event is additionally conditional on %s", g)
		}
	}
	// Start adds both paths and starts Watch
	stt := c.Method("pkg/certwatcher", "CertWatcher", "Start")
	r.need(stt != nil, "Start not found")
	os := r.Ob("C14.R3", "start:"+funcName(stt)).At(stt.Pos())
	goW := false
	eachInstr(stt, func(i ssa.Instruction) {
		if g, ok := i.(*ssa.Go); ok && calleeName(&g.Call) == "(*certwatcher.CertWatcher).Watch" {
			goW = true
			os.AtI(i)
		}
	})
	os.Check(goW, "Start does not start the Watch goroutine")
	// … on every path on which both files could be watched: the goroutine start is conditional on nothing but the list
	// being exhausted, and a return before it happens only when an Add failed
	eachInstr(stt, func(i ssa.Instruction) {
		g, isGo := i.(*ssa.Go)
		if isGo && calleeName(&g.Call) == "(*certwatcher.CertWatcher).Watch" {
			for _, alt := range c.pathAlts(i.Block()) {
				for _, l := range alt {
					okLit := strings.Contains(l, "(*github.com/fsnotify/fsnotify.Watcher).Add(") && (strings.HasSuffix(l, " == nil)") || strings.HasPrefix(l, "+(nil == ")) ||
						(strings.Contains(l, "builtin.len(") && strings.Contains(l, "phi("))
					os.AtI(i).Check(okLit, "the Watch goroutine is started only under %s (conditions %v): without it certificate changes are never picked up", l, alt)
				}
			}
		}
		if ret, isRet := i.(*ssa.Return); isRet {
			started := false
			for _, b := range stt.Blocks {
				for _, j := range b.Instrs {
					if g2, ok := j.(*ssa.Go); ok && calleeName(&g2.Call) == "(*certwatcher.CertWatcher).Watch" && instrDominates(j, i) {
						started = true
					}
				}
			}
			if started {
				return
			}
			for _, alt := range c.pathAlts(ret.Block()) {
				failed := false
				for _, l := range alt {
					if strings.Contains(l, "(*github.com/fsnotify/fsnotify.Watcher).Add(") && (strings.HasSuffix(l, " != nil)") || strings.HasPrefix(l, "+(nil != ")) {
						failed = true
					}
				}
				os.AtI(i).Check(failed, "Start returns without starting the Watch goroutine although no watcher.Add failed (conditions %v)", alt)
			}
		}
	})
	addsS := callsIn(stt, "(*github.com/fsnotify/fsnotify.Watcher).Add")
	if os.Check(len(addsS) == 1, "Start has %d watcher.Add sites", len(addsS)) {
		e := c.Expr(callOf(addsS[0]).Args[1])
		os.Check(strings.Contains(e, "&slicelit"), "Start watches %s, want the elements of the {certPath, keyPath} list", e)
		// the slice literal holds certPath and keyPath
		var names []string
		eachInstr(stt, func(i ssa.Instruction) {
			if st, ok := i.(*ssa.Store); ok {
				if ia, isIA := st.Addr.(*ssa.IndexAddr); isIA {
					if al, lit := ia.X.(*ssa.Alloc); lit && al.Comment == "slicelit" {
						names = append(names, c.Expr(st.Val))
					}
				}
			}
		})
		os.Check(len(names) == 2 && ((names[0] == "p0.certPath" && names[1] == "p0.keyPath") || (names[1] == "p0.certPath" && names[0] == "p0.keyPath")), "Start watches %v, want both the certificate and the key path", names)
	}
	// New fails on an unreadable initial pair
	nw := c.Func("pkg/certwatcher", "New")
	r.need(nw != nil, "New not found")
	on := r.Ob("C14.R3", "new-validates-initial-pair").At(nw.Pos())
	rc := callsIn(nw, "(*certwatcher.CertWatcher).ReadCertificate")
	if on.Check(len(rc) == 1, "New does not load the initial pair") {
		// whenever the load failed New returns (nil, a non-nil error) — stated over return alternatives, so an error
		// funnelled through a helper and tested once reads like two tests
		failed := func(lits []string) bool {
			for _, l := range lits {
				if pos, a, op, b, okp := parseRelLit(l); okp && strings.Contains(a+b, "ReadCertificate(") && (a == "nil" || b == "nil") {
					if (op == "!=") == pos {
						return true
					}
				}
			}
			return false
		}
		n := 0
		for _, ra := range c.returnAlts(nw, 0) {
			if failed(ra.Lits) {
				n++
				on.AtI(ra.Ret).Check(ra.E == "nil", "New returns the watcher %s although the initial pair could not be loaded", ra.E)
			}
		}
		for _, ra := range c.returnAlts(nw, 1) {
			if failed(ra.Lits) {
				n++
				on.AtI(ra.Ret).Check(ra.E != "nil", "New returns a nil error although the initial pair could not be loaded")
			}
		}
		on.Check(n >= 2, "New does not return an error when the initial pair cannot be loaded")
	}
}

func c14r4(r *R) {
	c := r.C
	gc := c.Method("pkg/certwatcher", "CertWatcher", "GetCertificate")
	r.need(gc != nil, "GetCertificate not found")
	o := r.Ob("C14.R4", "getcertificate:"+funcName(gc)).At(gc.Pos())
	eachInstr(gc, func(i ssa.Instruction) {
		if ret, ok := i.(*ssa.Return); ok {
			e0, e1 := retExpr(c, ret, 0), retExpr(c, ret, 1)
			o.AtI(i).Check(e0 == "p0.currentCert" && e1 == "nil", "GetCertificate returns (%s, %s), want (cw.currentCert, nil)", e0, e1)
		}
	})
	tc := c.Func("", "defaultTLSConfig")
	r.need(tc != nil, "defaultTLSConfig not found")
	o2 := r.Ob("C14.R4", "tls-config:"+funcName(tc)).At(tc.Pos())
	var cfg *ssa.Alloc
	eachInstr(tc, func(i ssa.Instruction) {
		if al, ok := i.(*ssa.Alloc); ok && typeName(deref(al.Type())) == "tls.Config" {
			cfg = al
		}
	})
	if o2.Check(cfg != nil, "defaultTLSConfig builds no tls.Config literal") {
		f := complitFields(cfg)
		g := f["GetCertificate"]
		// the watcher's bound method, or a function literal that only forwards to it (`func(h) { return cw.GetCertificate(h) }`)
		fwd := false
		if mc, ok := g.(*ssa.MakeClosure); ok && len(mc.Bindings) == 1 {
			if lit, ok := mc.Fn.(*ssa.Function); ok && lit.Parent() == tc && len(lit.Blocks) == 1 && len(lit.Params) == 1 {
				var call *ssa.Call
				n := 0
				for _, i := range lit.Blocks[0].Instrs {
					if cc, ok := i.(*ssa.Call); ok {
						n++
						call = cc
					}
				}
				if n == 1 && calleeName(&call.Call) == "(*certwatcher.CertWatcher).GetCertificate" && len(call.Call.Args) == 2 {
					rv := call.Call.Args[0]
					if u, ok := rv.(*ssa.UnOp); ok && u.Op == token.MUL {
						rv = u.X // the captured variable is a cell
					}
					_, recvIsFree := rv.(*ssa.FreeVar)
					ret, _ := lit.Blocks[0].Instrs[len(lit.Blocks[0].Instrs)-1].(*ssa.Return)
					fwd = recvIsFree && call.Call.Args[1] == ssa.Value(lit.Params[0]) && ret != nil && len(ret.Results) == 2 && flowsToReturn(call)
				}
			}
		}
		o2.Check(g != nil && (fwd || c.Expr(g) == "closure:(*certwatcher.CertWatcher).GetCertificate"), "tls.Config.GetCertificate is %s, want the watcher's bound method", exprOrNil(c, g))
		if mc, ok := g.(*ssa.MakeClosure); ok && len(mc.Bindings) == 1 {
			bound := mc.Bindings[0]
			if cell, ok := bound.(*ssa.Alloc); ok {
				if us := uniqueStore(cell); us != nil {
					bound = us.Val // the parameter's cell, written once on entry
				}
			}
			o2.Check(c.Expr(bound) == "p0", "GetCertificate is bound to %s, not to the watcher passed in", c.Expr(bound))
		}
		for _, bad := range []string{"Certificates", "NameToCertificate", "GetConfigForClient"} {
			o2.Check(f[bad] == nil, "tls.Config.%s is set: crypto/tls would then serve a static certificate (for clients without SNI) or bypass the watcher, and reloads would not reach those handshakes", bad)
		}
	}
	// no later writes to those fields of a tls.Config in the root package
	tcfg := c.Named("crypto/tls", "Config")
	if tcfg != nil {
		for _, fld := range []string{"Certificates", "NameToCertificate", "GetConfigForClient", "GetCertificate"} {
			for _, a := range fieldAccesses(c.FuncsIn("", "pkg/proxyserver"), tcfg, fld) {
				if a.Kind == "write" && a.Fn != tc {
					o2.AtI(a.Instr).Fail("tls.Config.%s is written in %s", fld, funcName(a.Fn))
				}
			}
		}
	}
	run := c.Func("", "Run")
	r.need(run != nil, "Run not found")
	o3 := r.Ob("C14.R4", "run-wiring").At(run.Pos())
	started := false
	eachInstr(run, func(i ssa.Instruction) {
		if g, ok := i.(*ssa.Go); ok && calleeName(&g.Call) == "(*certwatcher.CertWatcher).Start" {
			started = true
			o3.AtI(i)
			o3.Check(c.Expr(g.Call.Args[0]) == "fingerproxy.initCertWatcher()", "Start is called on %s", c.Expr(g.Call.Args[0]))
		}
	})
	o3.Check(started, "Run does not start the certificate watcher")
	for _, s := range callsIn(run, "fingerproxy.defaultTLSConfig") {
		o3.AtI(s).Check(c.Expr(callOf(s).Args[0]) == "fingerproxy.initCertWatcher()", "defaultTLSConfig gets %s", c.Expr(callOf(s).Args[0]))
	}
	icw := c.Func("", "initCertWatcher")
	r.need(icw != nil, "initCertWatcher not found")
	for _, s := range callsIn(icw, "certwatcher.New") {
		a := callOf(s).Args
		o3.AtI(s).Check(c.Expr(a[0]) == "fingerproxy.flagCertFilename" && c.Expr(a[1]) == "fingerproxy.flagKeyFilename", "certwatcher.New(%s, %s): want (cert flag, key flag)", c.Expr(a[0]), c.Expr(a[1]))
	}
}
