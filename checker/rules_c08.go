package main

import (
	"strings"

	"golang.org/x/tools/go/ssa"
)

func init() {
	register("C08", false,
		ruleDef{"C08.R1", c08r1},
		ruleDef{"C08.R2", c08r2},
		ruleDef{"C08.R3", c08r3},
		ruleDef{"C08.R4", c08r4},
		ruleDef{"C08.R5", c08r5},
		ruleDef{"C08.R6", c08r6},
		ruleDef{"C08.R8", c08r8},
		// a body also passes only if every frame of a live stream is processed: after a graceful GOAWAY only frames of
		// streams *above* the last accepted one are discarded (shared with C13)
		ruleDef{"C13.R3", c13r3},
	)
}

// R1: modifies-only frame condition for the Rewrite function and everything it calls inside the module.
func c08r1(r *R) {
	c := r.C
	rf := rewriteFn(r)
	o := r.Ob("C08.R1", "rewrite-modifies-only:"+funcName(rf)).At(rf.Pos())
	nWrites := 0
	var setURL, hostStore ssa.Instruction
	eachInstr(rf, func(i ssa.Instruction) {
		switch x := i.(type) {
		case *ssa.Store:
			ae := c.Expr(x.Addr)
			if strings.HasPrefix(ae, "p1.In") {
				o.AtI(i).Fail("the Rewrite function writes the inbound request (%s): method, URL, headers and body of what the client sent must reach the backend unchanged", ae)
				return
			}
			if !strings.HasPrefix(ae, "p1.") {
				return
			}
			nWrites++
			o.AtI(i)
			if ae == "p1.Out.Host" {
				hostStore = i
				gs := c.guardStrs(i.Block())
				o.Check(c.Expr(x.Val) == "p1.In.Host", "outbound Host is set to %s, want the client's Host (In.Host)", c.Expr(x.Val))
				o.Check(hasGuard(gs, "+p0.PreserveHost") && len(gs) == 1, "outbound Host is overwritten under %v, want only when PreserveHost is enabled", gs)
				return
			}
			o.Fail("the Rewrite function assigns %s = %s (only Out.Host under PreserveHost is expected)", ae, c.Expr(x.Val))
		case *ssa.MapUpdate:
			me := c.Expr(x.Map)
			if strings.HasPrefix(me, "p1.In") {
				o.AtI(i).Fail("the Rewrite function modifies the inbound header map %s", me)
				return
			}
			if isOutHeader(c, x.Map) {
				nWrites++
				k, ok := constString(x.Key)
				o.AtI(i).Check(ok && k == "X-Forwarded-For", "raw outbound header write with key %s (only the X-Forwarded-For re-attach is expected)", c.Expr(x.Key))
			}
		case *ssa.Call:
			n := calleeName(&x.Call)
			switch n {
			case "(*net/http/httputil.ProxyRequest).SetURL":
				setURL = i
				o.AtI(i).Check(c.Expr(x.Call.Args[0]) == "p1" && c.Expr(x.Call.Args[1]) == "p0.To", "SetURL(%s): want the configured backend URL f.To", c.Expr(x.Call.Args[1]))
				o.Check(len(guardsOf(i.Block())) == 0, "SetURL is conditional")
			case nSetXForwarded, nGetHeaderName, nGetHeaderValue, "(*reverseproxy.HTTPHandler).logf":
			case nHeaderSet, nHeaderDel:
				nWrites++
				a := x.Call.Args
				o.AtI(i).Check(isOutHeader(c, a[0]) && strings.HasPrefix(c.Expr(a[1]), nGetHeaderName+"("), "%s(%s, %s): only injected header names may be set/deleted on the outbound request", n, c.Expr(a[0]), c.Expr(a[1]))
			case nHeaderAdd:
				o.AtI(i).Fail("Header.Add in the Rewrite function")
			default:
				if strings.HasPrefix(n, "(net/http.Header).") || strings.HasPrefix(n, "(*net/url.URL).") || strings.HasPrefix(n, "(*net/http.Request).") {
					rcv := c.Expr(callArgs(&x.Call)[0])
					if strings.HasPrefix(rcv, "p1.") && n != "(*net/http.Request).Context" {
						o.AtI(i).Fail("the Rewrite function calls %s on %s", n, rcv)
					}
				} else if isLoggingCall(n) {
					// logging, wherever it is written
				} else if n != "" && !strings.HasPrefix(n, "builtin.") {
					o.AtI(i).Fail("unexpected call %s in the Rewrite function (not in the reviewed effect list)", n)
				}
			}
		}
	})
	o.Check(setURL != nil, "the Rewrite function never routes the request to the backend (no SetURL)")
	if setURL != nil && hostStore != nil {
		o.Check(instrDominates(setURL, hostStore), "Out.Host is restored before SetURL, which clears it again")
	}
	o.Check(nWrites >= 3, "expected >= 3 outbound writes in the Rewrite function (re-attach, Del/Set), found %d", nWrites)
	// PreserveHost is stored from the flag only
	h := c.Named("pkg/reverseproxy", "HTTPHandler")
	o2 := r.Ob("C08.R1", "preserve-host-wiring")
	n := 0
	for _, a := range fieldAccesses(c.Product(), h, "PreserveHost") {
		if a.Kind == "write" {
			n++
			o2.AtI(a.Instr).Check(c.Expr(a.Instr.(*ssa.Store).Val) == "fingerproxy.flagPreserveHost" && len(guardsOf(a.Instr.Block())) == 0, "PreserveHost is set from %s", c.Expr(a.Instr.(*ssa.Store).Val))
		}
	}
	o2.Check(n == 1, "PreserveHost has %d writers in product code", n)
	initFlags := c.Func("", "initFlags")
	if o2.Check(initFlags != nil, "initFlags not found") {
		o2.Check(flagRegisteredAs(c, initFlags, "flagPreserveHost") == "preserve-host", "flagPreserveHost registered as %q", flagRegisteredAs(c, initFlags, "flagPreserveHost"))
	}
	// To is set once, from the constructor's parameter, which Run fills from parseForwardURL()
	for _, a := range fieldAccesses(c.Product(), h, "To") {
		if a.Kind == "write" {
			o2.AtI(a.Instr).Check(funcName(a.Fn) == "reverseproxy.NewHTTPHandler" && c.Expr(a.Instr.(*ssa.Store).Val) == "p0", "handler.To is set to %s in %s", c.Expr(a.Instr.(*ssa.Store).Val), funcName(a.Fn))
		}
	}
}

// R2: the handler passes w and req through untouched on the forward path (shared with C15.R1).
func c08r2(r *R) {
	c := r.C
	fn := handlerServeHTTP(r)
	o := r.Ob("C08.R2", "handler-passthrough:"+funcName(fn)).At(fn.Pos())
	for _, s := range callsIn(fn, nRPServeHTTP) {
		a := callOf(s).Args
		o.AtI(s).Check(c.Expr(a[1]) == "p1" && c.Expr(a[2]) == "p2", "the reverse proxy is given (%s, %s), want the handler's own (w, req)", c.Expr(a[1]), c.Expr(a[2]))
	}
	eachInstr(fn, func(i ssa.Instruction) {
		switch x := i.(type) {
		case *ssa.Store:
			if strings.HasPrefix(c.Expr(x.Addr), "p2") {
				o.AtI(i).Fail("the handler writes the inbound request: %s", c.Expr(x.Addr))
			}
		case *ssa.MapUpdate:
			if strings.HasPrefix(c.Expr(x.Map), "p2") {
				o.AtI(i).Fail("the handler modifies the inbound request's %s", c.Expr(x.Map))
			}
		case *ssa.Call:
			n := calleeName(&x.Call)
			if strings.HasPrefix(n, "(*net/http.Request).With") || strings.HasPrefix(n, "(*net/http.Request).Clone") || n == "net/http.MaxBytesReader" || strings.HasPrefix(n, "io.") {
				o.AtI(i).Fail("the handler derives/wraps the request or its body via %s", n)
			}
		}
	})
}

// R3: the ReverseProxy literal and error handler.
func c08r3(r *R) {
	c := r.C
	dh := c.Func("", "defaultReverseProxyHTTPHandler")
	r.need(dh != nil, "defaultReverseProxyHTTPHandler not found")
	o := r.Ob("C08.R3", "reverse-proxy-config:"+funcName(dh)).At(dh.Pos())
	var lit *ssa.Alloc
	eachInstr(dh, func(i ssa.Instruction) {
		if al, ok := i.(*ssa.Alloc); ok && typeName(deref(al.Type())) == "httputil.ReverseProxy" {
			lit = al
		}
	})
	if o.Check(lit != nil, "no ReverseProxy literal") {
		f := complitFields(lit)
		allowed := map[string]bool{"ErrorLog": true, "FlushInterval": true, "ErrorHandler": true, "Transport": true}
		for k, v := range f {
			o.Check(allowed[k], "ReverseProxy.%s is set (to %s): Director/ModifyResponse/Rewrite set here would alter requests or responses", k, c.Expr(v))
		}
		o.Check(f["ErrorHandler"] != nil && c.Expr(f["ErrorHandler"]) == "func:fingerproxy.proxyErrorHandler", "ErrorHandler is %s", exprOrNil(c, f["ErrorHandler"]))
		o.Check(f["FlushInterval"] != nil && c.Expr(f["FlushInterval"]) == "fingerproxy.parseReverseProxyFlushInterval()", "FlushInterval is %s", exprOrNil(c, f["FlushInterval"]))
		if t := f["Transport"]; o.Check(t != nil, "Transport unset") {
			o.Check(strings.Contains(c.Expr(t), "(*net/http.Transport).Clone(assert[*http.Transport](http.DefaultTransport)"), "Transport is %s, want a clone of http.DefaultTransport", c.Expr(t))
		}
	}
	eh := c.Func("", "proxyErrorHandler")
	r.need(eh != nil, "proxyErrorHandler not found")
	o2 := r.Ob("C08.R3", "error-handler-only-status:"+funcName(eh)).At(eh.Pos())
	eachInstr(eh, func(i ssa.Instruction) {
		if cc := callOf(i); cc != nil {
			n := calleeName(cc)
			if strings.HasPrefix(n, "(net/http.ResponseWriter).") {
				o2.AtI(i)
				if n == nWriteHeader {
					// the status is 502 or 504 on every path (a constant, or a choice between constants)
					for _, lf := range leaves(callArgs(cc)[1], false) {
						code, isC := constInt(lf)
						o2.Check(isC && (code == 502 || code == 504), "error handler answers %s", c.Expr(lf))
					}
				} else {
					o2.Fail("error handler calls %s", n)
				}
			}
		}
	})
	res := countOnPaths(eh, func(i ssa.Instruction) int {
		if isCall(i, nWriteHeader) {
			return 1
		}
		return 0
	})
	o2.Check(res.Min == 1 && res.Max == 1, "error handler writes a status %d..%d times per call", res.Min, res.Max)
}

// R4: byte streams below TLS pass the wrappers unaltered (delegation; shared with C04.R1).
func c08r4(r *R) {
	c := r.C
	for _, w := range [][3]string{{"HijackClientHelloConn", "tlsConn", "Write"}, {"TLSClientHelloConn", "Conn", "Write"}, {"TLSClientHelloConn", "Conn", "Read"}} {
		fn := c.Method("pkg/hack", w[0], w[2])
		o := r.Ob("C08.R4", "stream-delegates:"+w[0]+"."+w[2])
		if fn != nil {
			o.At(fn.Pos())
		}
		d := delegationDefect(c, fn, w[1], w[2], nil)
		o.Check(d == "", "%s.%s does not pass the bytes through verbatim: %s", w[0], w[2], d)
	}
	rd := c.Method("pkg/hack", "HijackClientHelloConn", "Read")
	r.need(rd != nil, "HijackClientHelloConn.Read not found")
	o := r.Ob("C08.R4", "stream-delegates:HijackClientHelloConn.Read").At(rd.Pos())
	eachInstr(rd, func(i ssa.Instruction) {
		if ret, ok := i.(*ssa.Return); ok {
			o.Check(c.Expr(ret.Results[0]) == nInnerRead+"#0" && c.exprKnown(ret.Results[1], i.Block()) == nInnerRead+"#1", "Read returns (%s, %s)", c.Expr(ret.Results[0]), c.Expr(ret.Results[1]))
		}
	})
}

// R5: stores to fields of an inbound *http.Request in the proxy's own packages.
func c08r5(r *R) {
	c := r.C
	req := c.Named("net/http", "Request")
	r.need(req != nil, "http.Request not loaded")
	st, _ := req.Underlying().(interface{ NumFields() int })
	_ = st
	o := r.Ob("C08.R5", "inbound-request-field-writers")
	n := 0
	for i := 0; i < structNumFields(req); i++ {
		fname := structField(req, i).Name()
		for _, a := range fieldAccesses(c.FuncsIn(appPkgs...), req, fname) {
			if a.Kind == "read" {
				continue
			}
			n++
			o.AtI(a.Instr)
			base := ""
			if fa, ok := a.Addr.(*ssa.FieldAddr); ok {
				base = c.Expr(fa.X)
			}
			switch {
			case fname == "TLS" && funcName(a.Fn) == "proxyserver.tlsStateHandler$1" && a.Kind == "write":
				// the D2 compensator: connection metadata, not part of the forwarded message
			case fname == "Host" && base == "p1.Out" && a.Kind == "write":
				// outbound request (C08.R1)
			default:
				o.Fail("%s writes %s of an http.Request (%s.%s): the client's request must not be edited before forwarding", funcName(a.Fn), a.Kind, base, fname)
			}
		}
	}
	o.OK("%d request-field writes in the proxy's packages, all accounted for", n)
	// the request body and the response writer are never wrapped by the proxy's own packages
	for _, fn := range c.FuncsIn(appPkgs...) {
		eachInstr(fn, func(i ssa.Instruction) {
			if cc := callOf(i); cc != nil {
				switch calleeName(cc) {
				case "net/http.MaxBytesReader", "io.LimitReader", "io.NopCloser", "io.TeeReader", "net/http.NewResponseController":
					if strings.HasPrefix(fn.Pkg.Pkg.Path(), modPath+"/pkg/reverseproxy") || strings.HasPrefix(fn.Pkg.Pkg.Path(), modPath+"/pkg/proxyserver") {
						o.AtI(i).Fail("%s wraps a request/response stream with %s", funcName(fn), calleeName(cc))
					}
				}
			}
		})
	}
	r.assume("S3: httputil.ReverseProxy copies method, URL path/query, end-to-end headers and bodies unchanged in both directions (not analysed)")
}

// ---- R6: pooled completion channels / write requests are recycled only after the write they belong to completed.

// recvBlessed: blocks in which a receive from channel ch has certainly happened.
func recvBlessed(c *Ctx, fn *ssa.Function, ch ssa.Value) map[*ssa.BasicBlock]bool {
	che := c.Expr(ch)
	out := map[*ssa.BasicBlock]bool{}
	var recvs []ssa.Instruction
	eachInstr(fn, func(i ssa.Instruction) {
		if u, ok := i.(*ssa.UnOp); ok && u.Op.String() == "<-" && (u.X == ch || c.Expr(u.X) == che) {
			recvs = append(recvs, i)
		}
	})
	for _, b := range fn.Blocks {
		for _, g := range guardsOf(b) {
			if !g.Pol {
				continue
			}
			bo, ok := g.Cond.(*ssa.BinOp)
			if !ok || bo.Op.String() != "==" {
				continue
			}
			ex, ok := bo.X.(*ssa.Extract)
			if !ok || ex.Index != 0 {
				continue
			}
			sel, ok := ex.Tuple.(*ssa.Select)
			if !ok {
				continue
			}
			k, ok := constInt(bo.Y)
			if !ok || int(k) >= len(sel.States) {
				continue
			}
			st := sel.States[k]
			if (st.Chan == ch || c.Expr(st.Chan) == che) && st.Dir == 2 { // types.RecvOnly
				out[b] = true
			}
		}
		for _, r := range recvs {
			if len(b.Instrs) > 0 && r.Block() != b && r.Block().Dominates(b) {
				out[b] = true
			}
		}
	}
	return out
}

func c08r6(r *R) {
	c := r.C
	n := 0
	for _, fn := range c.FuncsIn("pkg/http2") {
		var puts []ssa.Instruction
		eachInstr(fn, func(i ssa.Instruction) {
			if cc := callOf(i); cc != nil && calleeName(cc) == "(*sync.Pool).Put" && len(cc.Args) == 2 && c.Expr(cc.Args[0]) == "http2.errChanPool" {
				puts = append(puts, i)
			}
		})
		for _, p := range puts {
			n++
			o := r.Ob("C08.R6", "errchan-recycled-after-result:"+funcName(fn)).AtI(p)
			ch := unwrapIface(callOf(p).Args[1])
			blessed := recvBlessed(c, fn, ch)
			via := func(i ssa.Instruction) bool { return blessed[i.Block()] }
			// where does ch come from
			var from ssa.Instruction
			if ta, ok := ch.(*ssa.TypeAssert); ok {
				from = ta
			}
			if _, isDefer := p.(*ssa.Defer); isDefer {
				path := c.escapePath(fn, p, via, isReturn)
				o.Check(path == nil, "the completion channel is handed back to errChanPool by a deferred Put, i.e. also on returns taken before its result was received (client reset / connection closed while the frame write is pending): the late result then sits in a recycled channel and a later write on any connection returns early, before its DATA is on the wire, letting the copy buffer be overwritten: %v", path)
				continue
			}
			if blessed[p.Block()] {
				continue
			}
			path := c.escapePath(fn, from, via, func(i ssa.Instruction) bool { return i == p })
			o.Check(path == nil, "the completion channel can be returned to errChanPool on a path on which its result was never received: %v", path)
		}
	}
	r.Ob("C08.R6", "instances").Check(n >= 2, "expected >= 2 errChanPool.Put sites in the h2 server, found %d", n)
	// the DATA write request goes back to its pool only when the frame write is done (result received)
	wd := c.Method("pkg/http2", "serverConn", "writeDataFromHandler")
	r.need(wd != nil, "writeDataFromHandler not found")
	o := r.Ob("C08.R6", "writedata-recycled-after-write:"+funcName(wd)).At(wd.Pos())
	var ch ssa.Value
	eachInstr(wd, func(i ssa.Instruction) {
		if ta, ok := i.(*ssa.TypeAssert); ok && typeName(ta.AssertedType) == "chan error" {
			ch = ta
		}
	})
	if o.Check(ch != nil, "completion channel not found") {
		blessed := recvBlessed(c, wd, ch)
		np := 0
		eachInstr(wd, func(i ssa.Instruction) {
			if cc := callOf(i); cc != nil && calleeName(cc) == "(*sync.Pool).Put" && c.Expr(cc.Args[0]) == "http2.writeDataPool" {
				np++
				o.AtI(i)
				if _, isDefer := i.(*ssa.Defer); isDefer {
					o.Fail("writeData is returned to its pool by a defer, also when the frame is still queued")
					return
				}
				path := c.escapePath(wd, nil, func(j ssa.Instruction) bool { return blessed[j.Block()] }, func(j ssa.Instruction) bool { return j == i })
				o.Check(path == nil, "the *writeData can go back to writeDataPool while its frame may still be queued (no completion result received): %v", path)
			}
		})
		o.Check(np == 1, "expected one writeDataPool.Put in writeDataFromHandler, found %d", np)
		// the function returns only after the result arrived, or with an error
		eachInstr(wd, func(i ssa.Instruction) {
			if ret, ok := i.(*ssa.Return); ok && !blessed[i.Block()] {
				e := c.Expr(ret.Results[0])
				okE := strings.HasPrefix(e, "http2.err") || strings.Contains(e, "writeFrameFromHandler(")
				if !okE {
					// join block after the select: every path to it must be blessed
					path := c.escapePath(wd, nil, func(j ssa.Instruction) bool { return blessed[j.Block()] }, func(j ssa.Instruction) bool { return j == i })
					o.AtI(i).Check(path == nil, "writeDataFromHandler can report success (%s) before the frame write completed: the caller would reuse its buffer: %v", e, path)
				}
			}
		})
	}
}

func init() {
	p := registry["C08"]
	p.Rules = append(p.Rules, ruleDef{"C08.R7", func(r *R) {
		forkSiblingRule(r, "C08.R7", "pipe.go", "databuffer.go", "write.go", "server.go")
	}})
	wantRefs("C08")
}

// R8: protocol dispatch: a connection is served by the HTTP/2 server iff ALPN negotiated "h2"; everything else (http/1.1, no ALPN)
// is handed to the HTTP/1.1 server.
func c08r8(r *R) {
	c := r.C
	_, _, sc := serveLoop(r)
	o := r.Ob("C08.R8", "protocol-dispatch:"+funcName(sc)).At(sc.Pos())
	h2g := `("h2" == (*crypto/tls.Conn).ConnectionState(crypto/tls.Server(hack.NewHijackClientHelloConn(p1), p0.TLSConfig)).NegotiatedProtocol)`
	n := 0
	for _, s := range callsIn(sc, nServeConn) {
		n++
		gs := c.guardStrs(s.Block())
		o.AtI(s).Check(hasGuard(gs, "+"+h2g), "the HTTP/2 server is given connections under %v, want exactly NegotiatedProtocol == \"h2\" (a client without ALPN must be served as HTTP/1.1)", gs)
	}
	for _, s := range callsIn(sc, "(*hack.ChannelListener).SendToChannel") {
		n++
		gs := c.guardStrs(s.Block())
		o.AtI(s).Check(hasGuard(gs, "-"+h2g), "the HTTP/1.1 hand-off happens under %v, want the negation of NegotiatedProtocol == \"h2\"", gs)
	}
	o.Check(n == 2, "expected one h2 serve site and one h1 hand-off, found %d", n)
	// ALPN offer
	tc := c.Func("", "defaultTLSConfig")
	if o.Check(tc != nil, "defaultTLSConfig not found") {
		eachInstr(tc, func(i ssa.Instruction) {
			if al, ok := i.(*ssa.Alloc); ok && typeName(deref(al.Type())) == "tls.Config" {
				np := complitFields(al)["NextProtos"]
				if o.Check(np != nil, "tls.Config.NextProtos unset") {
					got := sliceLitStrings(np)
					o.Check(len(got) == 2 && got[0] == "h2" && got[1] == "http/1.1", "ALPN protocols offered are %v, want [h2 http/1.1]", got)
				}
			}
		})
	}
}
