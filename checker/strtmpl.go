package main

import (
	"go/token"
	"go/types"
	"sort"
	"strings"

	"golang.org/x/tools/go/ssa"
)

// String templates. A string built by `+`, by fmt.Sprintf with a constant format made of text and %s verbs, by explicit
// String() calls or by %s on a Stringer is one flat sequence of pieces; a string chosen by a phi (or passed through a
// function of the module after being chosen) is one sequence per alternative, under the conditions of that
// alternative. Rules that state "the output is A_B_C" compare these sequences, so the spelling of the concatenation
// does not matter.
//
// Pieces are rendered as
//   "lit"            literal text (adjacent literals are merged)
//   chr(E)           string(E) of a byte or rune E
//   str(E)           E's String() result (explicit call, or %s / %v on a type whose method set has String and neither
//                    Error nor Format)
//   F(⟨template⟩…)   call of a module function whose string arguments are templates themselves
//   E                any other string-valued expression, rendered by Expr
// joined by " · ".

type strAlt struct {
	Guards []string
	Tmpl   string
}

const maxStrAlts = 16

type strPiece struct {
	lit  bool
	text string
}

type strSeq struct {
	guards []string
	pieces []strPiece
}

func (s strSeq) render() string {
	var out []string
	for _, p := range s.pieces {
		if p.lit {
			out = append(out, `"`+p.text+`"`)
		} else {
			out = append(out, p.text)
		}
	}
	if len(out) == 0 {
		return `""`
	}
	return strings.Join(out, " · ")
}

func appendPiece(ps []strPiece, p strPiece) []strPiece {
	if p.lit && p.text == "" {
		return ps
	}
	if p.lit && len(ps) > 0 && ps[len(ps)-1].lit {
		cp := append([]strPiece{}, ps[:len(ps)-1]...)
		return append(cp, strPiece{true, ps[len(ps)-1].text + p.text})
	}
	return append(append([]strPiece{}, ps...), p)
}

func crossSeq(a, b []strSeq) []strSeq {
	var out []strSeq
	for _, x := range a {
		for _, y := range b {
			ps := x.pieces
			for _, p := range y.pieces {
				ps = appendPiece(ps, p)
			}
			out = append(out, strSeq{uniq(append(append([]string{}, x.guards...), y.guards...)), ps})
			if len(out) > maxStrAlts {
				return out
			}
		}
	}
	return out
}

// hasPlainStringer: %s / %v on a value of type t prints t.String().
func hasPlainStringer(t types.Type) bool {
	ms := types.NewMethodSet(t)
	var str *types.Selection
	for i := 0; i < ms.Len(); i++ {
		m := ms.At(i)
		switch m.Obj().Name() {
		case "Error", "Format", "GoString":
			return false
		case "String":
			str = m
		}
	}
	if str == nil {
		return false
	}
	sig, ok := str.Type().(*types.Signature)
	return ok && sig.Params().Len() == 0 && sig.Results().Len() == 1 && types.Identical(sig.Results().At(0).Type(), types.Typ[types.String])
}

// parseSFormat splits a format into text and %s/%v verbs; ok is false when it has any other verb, flag or width.
func parseSFormat(f string) (texts []string, nverbs int, ok bool) {
	cur := ""
	for i := 0; i < len(f); i++ {
		if f[i] != '%' {
			cur += string(f[i])
			continue
		}
		if i+1 >= len(f) {
			return nil, 0, false
		}
		switch f[i+1] {
		case '%':
			cur += "%"
		case 's', 'v':
			texts = append(texts, cur)
			cur = ""
			nverbs++
		default:
			return nil, 0, false
		}
		i++
	}
	texts = append(texts, cur)
	return texts, nverbs, true
}

func (c *Ctx) strSeqs(v ssa.Value, at *ssa.BasicBlock, depth int) []strSeq {
	leaf := func(s string) []strSeq { return []strSeq{{nil, []strPiece{{false, s}}}} }
	if v == nil {
		return leaf("<nil>")
	}
	if depth > 10 {
		return leaf(c.ExprAt(v, at))
	}
	if at != nil {
		v = refineAt(v, at)
	}
	switch x := v.(type) {
	case *ssa.Const:
		if s, ok := constString(x); ok {
			return []strSeq{{nil, appendPiece(nil, strPiece{true, s})}}
		}
	case *ssa.ChangeType:
		return c.strSeqs(x.X, x.Block(), depth+1)
	case *ssa.MakeInterface:
		// the operand of a %s verb
		t := x.X.Type()
		if b, ok := t.Underlying().(*types.Basic); ok && b.Kind() == types.String && !hasPlainStringer(t) {
			return c.strSeqs(x.X, x.Block(), depth+1)
		}
		if hasPlainStringer(t) {
			return leaf("str(" + c.ExprAt(x.X, x.Block()) + ")")
		}
		return leaf("fmt(" + c.ExprAt(x.X, x.Block()) + ")")
	case *ssa.BinOp:
		if x.Op == token.ADD {
			if b, ok := x.Type().Underlying().(*types.Basic); ok && b.Info()&types.IsString != 0 {
				return crossSeq(c.strSeqs(x.X, x.Block(), depth+1), c.strSeqs(x.Y, x.Block(), depth+1))
			}
		}
	case *ssa.Convert:
		if b, ok := x.Type().Underlying().(*types.Basic); ok && b.Info()&types.IsString != 0 {
			if fb, ok := x.X.Type().Underlying().(*types.Basic); ok {
				if fb.Info()&types.IsInteger != 0 {
					return leaf("chr(" + c.ExprAt(x.X, x.Block()) + ")")
				}
				if fb.Info()&types.IsString != 0 {
					return c.strSeqs(x.X, x.Block(), depth+1)
				}
			}
		}
	case *ssa.Phi:
		var out []strSeq
		for _, vc := range c.valueCases(x, at) {
			if _, still := vc.V.(*ssa.Phi); still {
				out = append(out, strSeq{vc.Guards, []strPiece{{false, vc.E}}})
				continue
			}
			var blk *ssa.BasicBlock
			if in, ok := vc.V.(ssa.Instruction); ok {
				blk = in.Block()
			}
			for _, s := range c.strSeqs(vc.V, blk, depth+1) {
				out = append(out, strSeq{uniq(append(append([]string{}, vc.Guards...), s.guards...)), s.pieces})
			}
		}
		if len(out) > 0 && len(out) <= maxStrAlts {
			return out
		}
	case *ssa.Call:
		name := calleeName(&x.Call)
		if name == "fmt.Sprintf" && len(x.Call.Args) == 2 {
			if f, ok := constString(x.Call.Args[0]); ok {
				texts, n, okf := parseSFormat(f)
				els := variadicElems(x.Call.Args[1])
				if n == 0 && okf {
					if k, isNil := x.Call.Args[1].(*ssa.Const); isNil && k.IsNil() {
						els = []ssa.Value{}
					}
				}
				if okf && len(els) == n {
					acc := []strSeq{{nil, appendPiece(nil, strPiece{true, texts[0]})}}
					for i, el := range els {
						acc = crossSeq(acc, c.strSeqs(el, x.Block(), depth+1))
						acc = crossSeq(acc, []strSeq{{nil, appendPiece(nil, strPiece{true, texts[i+1]})}})
					}
					return acc
				}
			}
		}
		if g := staticCallee(&x.Call); g != nil {
			// explicit String() of a Stringer
			if g.Signature.Recv() != nil && g.Name() == "String" && len(x.Call.Args) == 1 && hasPlainStringer(x.Call.Args[0].Type()) {
				return leaf("str(" + c.ExprAt(x.Call.Args[0], x.Block()) + ")")
			}
			// a function of the module applied to strings: the alternatives of its arguments become alternatives of the call
			if c.inModule(g) && g.Signature.Results().Len() == 1 {
				acc := []strSeq{{nil, nil}}
				anyStr := false
				var args [][]strSeq
				for _, a := range x.Call.Args {
					if b, ok := a.Type().Underlying().(*types.Basic); ok && b.Info()&types.IsString != 0 {
						anyStr = true
						args = append(args, c.strSeqs(a, x.Block(), depth+1))
					} else {
						args = append(args, nil)
					}
				}
				if anyStr {
					type part struct {
						guards []string
						texts  []string
					}
					parts := []part{{}}
					for i, a := range x.Call.Args {
						var np []part
						if args[i] == nil {
							e := c.ExprAt(a, x.Block())
							for _, p := range parts {
								np = append(np, part{p.guards, append(append([]string{}, p.texts...), e)})
							}
						} else {
							for _, p := range parts {
								for _, s := range args[i] {
									np = append(np, part{uniq(append(append([]string{}, p.guards...), s.guards...)), append(append([]string{}, p.texts...), "⟨"+s.render()+"⟩")})
								}
							}
						}
						parts = np
						if len(parts) > maxStrAlts {
							break
						}
					}
					if len(parts) <= maxStrAlts {
						acc = nil
						for _, p := range parts {
							acc = append(acc, strSeq{p.guards, []strPiece{{false, funcName(g) + "(" + strings.Join(p.texts, ", ") + ")"}}})
						}
						return acc
					}
				}
			}
		}
	}
	return leaf(c.ExprAt(v, at))
}

// StrAlts: the alternatives of the string v as used in block at (see the comment at the top of this file).
func (c *Ctx) StrAlts(v ssa.Value, at *ssa.BasicBlock) []strAlt {
	var out []strAlt
	for _, s := range c.strSeqs(v, at, 0) {
		g := append([]string{}, s.guards...)
		sort.Strings(g)
		out = append(out, strAlt{g, s.render()})
	}
	return out
}
