package main

import (
	"fmt"
	"go/constant"
	"go/token"
	"go/types"
	"sort"
	"strings"

	"golang.org/x/tools/go/ssa"
)

// A small relational bounds-discipline analysis: every slice/index operation in the analysed
// functions must be justified by the branch conditions that dominate it. Values are abstracted
// as linear expressions over opaque atoms (SSA values, len(x) terms); facts come from dominating
// guards, from unsignedness and from simple loop-counter shapes. Nothing is executed; the
// "prover" only adds up at most three facts.

type lin struct {
	c int64
	t map[string]int64
}

func linConst(c int64) lin { return lin{c: c, t: map[string]int64{}} }
func linAtom(k string) lin { return lin{t: map[string]int64{k: 1}} }

func (a lin) add(b lin, sign int64) lin {
	out := lin{c: a.c + sign*b.c, t: map[string]int64{}}
	for k, v := range a.t {
		out.t[k] = v
	}
	for k, v := range b.t {
		out.t[k] += sign * v
		if out.t[k] == 0 {
			delete(out.t, k)
		}
	}
	return out
}

func (a lin) scale(k int64) lin {
	out := lin{c: a.c * k, t: map[string]int64{}}
	for n, v := range a.t {
		if v*k != 0 {
			out.t[n] = v * k
		}
	}
	return out
}

func (a lin) String() string {
	var ks []string
	for k := range a.t {
		ks = append(ks, k)
	}
	sort.Strings(ks)
	var parts []string
	for _, k := range ks {
		parts = append(parts, fmt.Sprintf("%+d*%s", a.t[k], k))
	}
	parts = append(parts, fmt.Sprintf("%+d", a.c))
	return strings.Join(parts, " ")
}

type bounder struct {
	c     *Ctx
	lower map[string]int64 // known lower bounds of atoms
	upper map[string]int64 // known upper bounds of atoms
	plen  map[*ssa.Parameter]*lin
	names map[ssa.Value]string
	n     int
	intr  []lin           // intrinsic facts about atoms (library contracts), each >= 0
	used  map[string]bool // library contracts relied on
}

func newBounder(c *Ctx) *bounder {
	return &bounder{c: c, lower: map[string]int64{}, upper: map[string]int64{}, names: map[ssa.Value]string{}, used: map[string]bool{}, plen: map[*ssa.Parameter]*lin{}}
}

func isUnsigned(t types.Type) bool {
	b, ok := t.Underlying().(*types.Basic)
	return ok && b.Info()&types.IsUnsigned != 0
}

func isIntegerT(t types.Type) bool {
	b, ok := t.Underlying().(*types.Basic)
	return ok && b.Info()&types.IsInteger != 0
}

func intBits(t types.Type) int {
	b, ok := t.Underlying().(*types.Basic)
	if !ok {
		return 0
	}
	switch b.Kind() {
	case types.Int8, types.Uint8:
		return 8
	case types.Int16, types.Uint16:
		return 16
	case types.Int32, types.Uint32:
		return 32
	case types.Int, types.Uint, types.Int64, types.Uint64, types.Uintptr:
		return 64
	}
	return 0
}

// atom returns the key of an opaque value (loads of access paths are keyed by their rendering).
func (b *bounder) atom(v ssa.Value) string {
	if n, ok := b.names[v]; ok {
		return n
	}
	var n string
	switch x := v.(type) {
	case *ssa.Parameter:
		n = "param:" + x.Name()
	case *ssa.UnOp:
		if x.Op == token.MUL {
			n = "load:" + b.c.Expr(x)
		}
	case *ssa.Field:
		n = "field:" + b.c.Expr(x)
	case *ssa.Call:
		// (*bytes.Buffer).Len(x): same atom as len(x.Bytes()) while nothing can have touched the buffer in between
		if calleeName(&x.Call) == "(*bytes.Buffer).Len" {
			n = b.bufEpoch(x)
		}
	}
	if ex, ok := v.(*ssa.Extract); ok && ex.Index == 0 && n == "" {
		// n of `n, err := r.Read(p)`: the io.Reader contract gives 0 <= n <= len(p)
		if call, ok := ex.Tuple.(*ssa.Call); ok && isReaderRead(&call.Call) {
			b.n++
			n = fmt.Sprintf("%s#%d", v.Name(), b.n)
			b.names[v] = n
			b.lower[n] = 0
			args := callArgs(&call.Call)
			b.intr = append(b.intr, b.lenOf(args[len(args)-1]).add(linAtom(n), -1))
			b.used["S6: io.Reader contract: Read(p) returns 0 <= n <= len(p) (net.Conn, tls.Conn)"] = true
			return n
		}
	}
	if n == "" {
		b.n++
		n = fmt.Sprintf("%s#%d", v.Name(), b.n)
	}
	b.names[v] = n
	if isIntegerT(v.Type()) && isUnsigned(v.Type()) {
		b.lower[n] = 0
		if bits := intBits(v.Type()); bits > 0 && bits <= 16 {
			b.upper[n] = int64(1)<<uint(bits) - 1
		}
	}
	if phi, ok := v.(*ssa.Phi); ok && isIntegerT(v.Type()) {
		// loop counter shape: all edges are constants or this phi plus a non-negative constant
		lo := int64(1 << 40)
		okShape := true
		for _, e := range phi.Edges {
			if k, isC := constInt(e); isC {
				if k < lo {
					lo = k
				}
				continue
			}
			if bo, isB := e.(*ssa.BinOp); isB && bo.Op == token.ADD {
				if k, isC := constInt(bo.Y); isC && k >= 0 && bo.X == ssa.Value(phi) {
					continue
				}
			}
			okShape = false
		}
		if okShape && lo < int64(1<<40) {
			if cur, has := b.lower[n]; !has || lo > cur {
				b.lower[n] = lo
			}
		}
	}
	return n
}

// lin renders integer value v as a linear expression.
func (b *bounder) lin(v ssa.Value) lin {
	switch x := v.(type) {
	case *ssa.Const:
		if x.Value != nil && x.Value.Kind() == constant.Int {
			if k, ok := constant.Int64Val(x.Value); ok {
				return linConst(k)
			}
		}
		if x.Value == nil {
			return linConst(0)
		}
	case *ssa.BinOp:
		switch x.Op {
		case token.ADD:
			return b.lin(x.X).add(b.lin(x.Y), 1)
		case token.SUB:
			if !isUnsigned(x.Type()) {
				return b.lin(x.X).add(b.lin(x.Y), -1)
			}
		case token.MUL:
			if k, ok := constInt(x.Y); ok {
				return b.lin(x.X).scale(k)
			}
			if k, ok := constInt(x.X); ok {
				return b.lin(x.Y).scale(k)
			}
		case token.AND:
			// x & mask with constant mask: 0 <= result <= mask (fresh atom with bounds); also result <= x for unsigned x
			if k, ok := constInt(x.Y); ok && k >= 0 {
				n := b.atom(x)
				b.lower[n] = 0
				return linAtom(n)
			}
		}
	case *ssa.Convert:
		src, dst := x.X.Type(), x.Type()
		if isIntegerT(src) && isIntegerT(dst) {
			sb, db := intBits(src), intBits(dst)
			// value-preserving: widening, or same width with same signedness, or unsigned -> wider signed
			if db > sb || (db == sb && isUnsigned(src) == isUnsigned(dst)) {
				if !(isUnsigned(dst) && !isUnsigned(src)) {
					return b.lin(x.X)
				}
			}
		}
	case *ssa.ChangeType:
		return b.lin(x.X)
	case *ssa.Call:
		if calleeName(&x.Call) == "builtin.len" && len(x.Call.Args) == 1 {
			return b.lenOf(x.Call.Args[0])
		}
		if calleeName(&x.Call) == "builtin.cap" && len(x.Call.Args) == 1 {
			n := "cap(" + b.atom(x.Call.Args[0]) + ")"
			b.lower[n] = 0
			return linAtom(n)
		}
	}
	return linAtom(b.atom(v))
}

// lenOf: symbolic length of a slice / string / array value.
func (b *bounder) lenOf(v ssa.Value) lin {
	switch x := v.(type) {
	case *ssa.Slice:
		var base lin
		if pt, ok := x.X.Type().Underlying().(*types.Pointer); ok {
			if at, ok := pt.Elem().Underlying().(*types.Array); ok {
				base = linConst(at.Len())
			} else {
				base = b.lenAtom(x.X)
			}
		} else {
			base = b.lenOf(x.X)
		}
		lo := linConst(0)
		if x.Low != nil {
			lo = b.lin(x.Low)
		}
		hi := base
		if x.High != nil {
			hi = b.lin(x.High)
		}
		return hi.add(lo, -1)
	case *ssa.MakeSlice:
		return b.lin(x.Len)
	case *ssa.Const:
		if x.Value == nil {
			return linConst(0)
		}
		if x.Value.Kind() == constant.String {
			return linConst(int64(len(constant.StringVal(x.Value))))
		}
	case *ssa.Convert:
		if isStringT(x.Type()) || isStringT(x.X.Type()) {
			return b.lenOf(x.X)
		}
	case *ssa.ChangeType:
		return b.lenOf(x.X)
	}
	if at, ok := v.Type().Underlying().(*types.Array); ok {
		return linConst(at.Len())
	}
	if call, ok := v.(*ssa.Call); ok && calleeName(&call.Call) == "(*bytes.Buffer).Bytes" {
		n := b.bufEpoch(call)
		b.lower[n] = 0
		return linAtom(n)
	}
	if prm, ok := v.(*ssa.Parameter); ok {
		if l := b.paramLen(prm); l != nil {
			return *l
		}
	}
	// load of a package-level slice that is initialised once with make([]T, const) and never reassigned
	if u, ok := v.(*ssa.UnOp); ok && u.Op == token.MUL {
		if g, ok := u.X.(*ssa.Global); ok {
			var val ssa.Value
			n := 0
			for _, w := range globalWriters(b.c.allModuleFuncs(), g) {
				if st, ok := w.Instr.(*ssa.Store); ok && st.Addr == ssa.Value(g) {
					n++
					if isInitFn(w.Fn) {
						val = st.Val
					} else {
						n += 100
					}
				}
			}
			if n == 1 && val != nil {
				if l := b.lenOf(val); len(l.t) == 0 {
					return l
				}
			}
		}
	}
	return b.lenAtom(v)
}

// paramLen: one level of caller summary — if every static call site in the module passes a slice of the same
// constant length for this parameter, that is the parameter's length.
func (b *bounder) paramLen(prm *ssa.Parameter) *lin {
	if l, ok := b.plen[prm]; ok {
		return l
	}
	b.plen[prm] = nil
	fn := prm.Parent()
	idx := -1
	for i, q := range fn.Params {
		if q == prm {
			idx = i
		}
	}
	if idx < 0 || fn.Parent() != nil {
		return nil
	}
	n, val := 0, int64(-1)
	okAll := true
	for _, g := range b.c.Funcs {
		eachInstr(g, func(i ssa.Instruction) {
			cc := callOf(i)
			if cc == nil {
				return
			}
			if staticCallee(cc) != fn {
				// the function value escaping (passed around) defeats the summary
				for _, a := range cc.Args {
					if a == ssa.Value(fn) {
						okAll = false
					}
				}
				return
			}
			n++
			if idx >= len(cc.Args) {
				okAll = false
				return
			}
			l := b.lenOf(cc.Args[idx])
			if len(l.t) != 0 {
				okAll = false
				return
			}
			if val >= 0 && l.c != val {
				okAll = false
			}
			val = l.c
		})
	}
	if n > 0 && okAll && val >= 0 {
		l := linConst(val)
		b.plen[prm] = &l
	}
	return b.plen[prm]
}

func (b *bounder) lenAtom(v ssa.Value) lin {
	n := "len(" + b.atom(v) + ")"
	b.lower[n] = 0
	return linAtom(n)
}

// factsAt: linear facts (each >= 0) that hold whenever block blk executes.
func (b *bounder) factsAt(blk *ssa.BasicBlock) []lin {
	var out []lin
	for _, g := range guardsOf(blk) {
		if call, isCall := g.Cond.(*ssa.Call); isCall && g.Pol {
			switch calleeName(&call.Call) {
			case "strings.HasPrefix", "strings.HasSuffix", "bytes.HasPrefix", "bytes.HasSuffix":
				out = append(out, b.lenOf(call.Call.Args[0]).add(b.lenOf(call.Call.Args[1]), -1))
			}
		}
		bo, ok := g.Cond.(*ssa.BinOp)
		if !ok || !isIntegerT(bo.X.Type()) {
			continue
		}
		x, y := b.lin(bo.X), b.lin(bo.Y)
		op := bo.Op
		if !g.Pol {
			switch op {
			case token.LSS:
				op = token.GEQ
			case token.LEQ:
				op = token.GTR
			case token.GTR:
				op = token.LEQ
			case token.GEQ:
				op = token.LSS
			case token.EQL:
				op = token.NEQ
			case token.NEQ:
				op = token.EQL
			}
		}
		switch op {
		case token.LSS: // x < y  =>  y - x - 1 >= 0
			out = append(out, y.add(x, -1).add(linConst(1), -1))
		case token.LEQ:
			out = append(out, y.add(x, -1))
		case token.GTR:
			out = append(out, x.add(y, -1).add(linConst(1), -1))
		case token.GEQ:
			out = append(out, x.add(y, -1))
		case token.EQL:
			out = append(out, x.add(y, -1), y.add(x, -1))
		case token.NEQ:
			// d = x - y != 0; if d >= 0 is known (single atom with lower bound equal to -const) then d >= 1
			d := x.add(y, -1)
			if lb, ok := b.lowerOf(d); ok && lb == 0 {
				out = append(out, d.add(linConst(1), -1))
			}
			d2 := y.add(x, -1)
			if lb, ok := b.lowerOf(d2); ok && lb == 0 {
				out = append(out, d2.add(linConst(1), -1))
			}
		}
	}
	return out
}

// bufEpoch names the length of a bytes.Buffer as observed by a Len()/Bytes() call: two observations of the same buffer
// with nothing between them that could touch it (any other call, a store to the buffer expression) on any path see the
// same length (bytes.Buffer contract: len(b.Bytes()) == b.Len()). The name is that of the earliest observation that
// dominates this one with only clean paths in between.
func (b *bounder) bufEpoch(call *ssa.Call) string {
	b.used["S7: bytes.Buffer contract: len(b.Bytes()) == b.Len() with no call in between"] = true
	recv := b.c.Expr(call.Call.Args[0])
	fn := call.Parent()
	isObs := func(i ssa.Instruction) bool {
		cc, ok := i.(*ssa.Call)
		if !ok {
			return false
		}
		n := calleeName(&cc.Call)
		return (n == "(*bytes.Buffer).Len" || n == "(*bytes.Buffer).Bytes") && b.c.Expr(cc.Call.Args[0]) == recv
	}
	dirty := func(i ssa.Instruction) bool {
		if cc := callOf(i); cc != nil {
			switch calleeName(cc) {
			case "(*bytes.Buffer).Len", "(*bytes.Buffer).Bytes", "builtin.len", "builtin.cap":
				return false
			}
			return true
		}
		if st, ok := i.(*ssa.Store); ok {
			return strings.HasPrefix(b.c.Expr(st.Addr), recv)
		}
		return false
	}
	reach := func(from *ssa.BasicBlock) map[*ssa.BasicBlock]bool {
		seen := map[*ssa.BasicBlock]bool{}
		st := append([]*ssa.BasicBlock{}, from.Succs...)
		for len(st) > 0 {
			x := st[len(st)-1]
			st = st[:len(st)-1]
			if seen[x] {
				continue
			}
			seen[x] = true
			st = append(st, x.Succs...)
		}
		return seen
	}
	cleanBetween := func(y, x ssa.Instruction) bool {
		yb, xb := y.Block(), x.Block()
		fromY := reach(yb)
		if yb == xb && !fromY[yb] {
			on := false
			for _, i := range yb.Instrs {
				if i == x {
					return true
				}
				if on && dirty(i) {
					return false
				}
				if i == y {
					on = true
				}
			}
			return false
		}
		// blocks on some path from y to x: reachable from y's block and reaching x's block
		for _, blk := range fn.Blocks {
			mid := fromY[blk] && (blk == xb || reach(blk)[xb])
			whole := mid && blk != xb && blk != yb
			if blk == xb && fromY[xb] && reach(xb)[xb] {
				whole = true // x's block lies on a cycle: a path can run through all of it before reaching x
			}
			if blk == yb && fromY[yb] {
				whole = true
			}
			for _, i := range blk.Instrs {
				if blk == xb && !whole && i == x {
					break
				}
				if whole || blk == xb || (blk == yb && false) {
					if i != x && i != y && dirty(i) {
						return false
					}
				}
			}
		}
		// the rest of y's block after y
		on := false
		for _, i := range yb.Instrs {
			if on && i != x && dirty(i) {
				return false
			}
			if i == y {
				on = true
			}
			if i == x {
				break
			}
		}
		return true
	}
	var rep ssa.Instruction = call
	for _, blk := range fn.Blocks {
		for _, i := range blk.Instrs {
			if i == ssa.Instruction(call) || !isObs(i) || !instrDominates(i, call) {
				continue
			}
			if cleanBetween(i, call) && instrDominates(i, rep) {
				rep = i
			}
		}
	}
	idx := 0
	for k, i := range rep.Block().Instrs {
		if i == rep {
			idx = k
		}
	}
	n := fmt.Sprintf("buflen:%s@%s.b%d.%d", recv, fn.Name(), rep.Block().Index, idx)
	b.lower[n] = 0
	return n
}

// isReaderRead: a call of a method Read([]byte) (int, error).
func isReaderRead(cc *ssa.CallCommon) bool {
	var sig *types.Signature
	name := ""
	if cc.IsInvoke() {
		name = cc.Method.Name()
		sig, _ = cc.Method.Type().(*types.Signature)
	} else if f := staticCallee(cc); f != nil && f.Signature.Recv() != nil {
		name = f.Name()
		sig = f.Signature
	}
	if name != "Read" || sig == nil || sig.Params().Len() != 1 || sig.Results().Len() != 2 {
		return false
	}
	sl, ok := sig.Params().At(0).Type().Underlying().(*types.Slice)
	if !ok {
		return false
	}
	bt, ok := sl.Elem().Underlying().(*types.Basic)
	return ok && bt.Kind() == types.Uint8 && isIntegerT(sig.Results().At(0).Type())
}

// lowerOf: a lower bound of a linear expression that follows from atom lower bounds alone.
func (b *bounder) lowerOf(e lin) (int64, bool) {
	lo := e.c
	for k, v := range e.t {
		if v >= 0 {
			lb, ok := b.lower[k]
			if !ok {
				return 0, false
			}
			lo += v * lb
		} else {
			ub, ok := b.upper[k]
			if !ok {
				return 0, false
			}
			lo += v * ub
		}
	}
	return lo, true
}

// prove g >= 0 from facts (each >= 0) and atom lower bounds, combining at most three facts.
func (b *bounder) prove(g lin, facts []lin) bool {
	if lo, ok := b.lowerOf(g); ok && lo >= 0 {
		return true
	}
	n := len(facts)
	if n > 24 {
		facts = facts[:24]
		n = 24
	}
	try := func(e lin) bool {
		lo, ok := b.lowerOf(e)
		return ok && lo >= 0
	}
	for i := 0; i < n; i++ {
		e1 := g.add(facts[i], -1)
		if try(e1) {
			return true
		}
		for j := i; j < n; j++ {
			e2 := e1.add(facts[j], -1)
			if try(e2) {
				return true
			}
			for k := j; k < n; k++ {
				if try(e2.add(facts[k], -1)) {
					return true
				}
			}
		}
	}
	return false
}

type boundOb struct {
	I    ssa.Instruction
	Desc string
	Goal []lin       // all must be >= 0
	Alt  map[int]lin // alternative goal for index k (e.g. high <= cap)
	Text []string
}

// obligationsOf lists the bounds obligations of instruction i.
func (b *bounder) obligationsOf(i ssa.Instruction) *boundOb {
	c := b.c
	switch x := i.(type) {
	case *ssa.IndexAddr:
		var n lin
		t := x.X.Type().Underlying()
		if pt, ok := t.(*types.Pointer); ok {
			at, ok := pt.Elem().Underlying().(*types.Array)
			if !ok {
				return nil
			}
			n = linConst(at.Len())
			if k, isC := constInt(x.Index); isC && k >= 0 && k < at.Len() {
				return nil // checked by the compiler
			}
		} else if _, ok := t.(*types.Slice); ok {
			n = b.lenOf(x.X)
		} else {
			return nil
		}
		idx := b.lin(x.Index)
		return &boundOb{I: i, Desc: c.Expr(x.X) + "[" + c.Expr(x.Index) + "]", Goal: []lin{idx, n.add(idx, -1).add(linConst(1), -1)}, Text: []string{"index >= 0", "index < len"}}
	case *ssa.Index:
		if at, ok := x.X.Type().Underlying().(*types.Array); ok {
			if k, isC := constInt(x.Index); isC && k >= 0 && k < at.Len() {
				return nil
			}
		}
		n := b.lenOf(x.X)
		idx := b.lin(x.Index)
		return &boundOb{I: i, Desc: c.Expr(x.X) + "[" + c.Expr(x.Index) + "]", Goal: []lin{idx, n.add(idx, -1).add(linConst(1), -1)}, Text: []string{"index >= 0", "index < len"}}
	case *ssa.Lookup:
		if !isStringT(x.X.Type()) {
			return nil
		}
		n := b.lenOf(x.X)
		idx := b.lin(x.Index)
		return &boundOb{I: i, Desc: c.Expr(x.X) + "[" + c.Expr(x.Index) + "]", Goal: []lin{idx, n.add(idx, -1).add(linConst(1), -1)}, Text: []string{"index >= 0", "index < len"}}
	case *ssa.Slice:
		var n lin
		if pt, ok := x.X.Type().Underlying().(*types.Pointer); ok {
			at, ok := pt.Elem().Underlying().(*types.Array)
			if !ok {
				return nil
			}
			n = linConst(at.Len())
		} else {
			n = b.lenOf(x.X) // conservative: high <= len (<= cap)
		}
		lo := linConst(0)
		if x.Low != nil {
			lo = b.lin(x.Low)
		}
		hi := n
		if x.High != nil {
			hi = b.lin(x.High)
		}
		if x.Low == nil && x.High == nil {
			return nil
		}
		ob := &boundOb{I: i, Desc: c.Expr(x)}
		if x.Low != nil {
			ob.Goal = append(ob.Goal, lo)
			ob.Text = append(ob.Text, "low >= 0")
		}
		ob.Goal = append(ob.Goal, hi.add(lo, -1))
		ob.Text = append(ob.Text, "low <= high")
		if x.High != nil {
			ob.Goal = append(ob.Goal, n.add(hi, -1))
			ob.Text = append(ob.Text, "high <= len (or cap)")
			if _, isPtr := x.X.Type().Underlying().(*types.Pointer); !isPtr {
				cn := "cap(" + b.atom(x.X) + ")"
				b.lower[cn] = 0
				ob.Alt = map[int]lin{len(ob.Goal) - 1: linAtom(cn).add(hi, -1)}
			}
		}
		return ob
	case *ssa.Call:
		n := calleeName(&x.Call)
		need := int64(0)
		switch {
		case strings.HasSuffix(n, "ndian).Uint16") || strings.HasSuffix(n, "ndian).PutUint16"):
			need = 2
		case strings.HasSuffix(n, "ndian).Uint32") || strings.HasSuffix(n, "ndian).PutUint32"):
			need = 4
		case strings.HasSuffix(n, "ndian).Uint64") || strings.HasSuffix(n, "ndian).PutUint64"):
			need = 8
		}
		if need > 0 && strings.HasPrefix(n, "(encoding/binary.") {
			arg := x.Call.Args[1]
			l := b.lenOf(arg)
			return &boundOb{I: i, Desc: n + "(" + c.Expr(arg) + ")", Goal: []lin{l.add(linConst(need), -1)}, Text: []string{fmt.Sprintf("len >= %d", need)}}
		}
	}
	return nil
}

// check proves an obligation from the facts at its block; returns the first unproven part.
func (b *bounder) check(ob *boundOb) (bool, string) {
	facts := append(append([]lin{}, b.intr...), b.factsAt(ob.I.Block())...)
	for k, g := range ob.Goal {
		if !b.prove(g, facts) {
			if alt, ok := ob.Alt[k]; ok && b.prove(alt, facts) {
				continue
			}
			var fs []string
			for _, f := range facts {
				fs = append(fs, f.String()+" >= 0")
			}
			return false, fmt.Sprintf("%s (need %s >= 0; facts: %s)", ob.Text[k], g.String(), strings.Join(fs, "; "))
		}
	}
	return true, ""
}
