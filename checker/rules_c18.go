package main

import (
	"go/types"
	"bytes"
	"go/ast"
	"go/printer"
	"go/token"
	"sort"
	"strings"

	"golang.org/x/tools/go/ssa"
)

func init() {
	register("C18", false,
		ruleDef{"C18.R1", c18r1},
		ruleDef{"C18.R2", c18r2},
		ruleDef{"C18.R3", c18r3},
		ruleDef{"C18.R5", c18r5},
		// every header block the server writes comes out of the connection's encoder, as upstream writes it
		ruleDef{"C18.R6", func(r *R) { forkSiblingRule(r, "C18.R6", "write.go", "server.go", "frame.go") }},
	)
	wantRefs("C18")
}

// pkgConstNames: package-level names that are constants ("pkgpath.Name"), filled by packageVarInits.
var pkgConstNames = map[string]bool{}

// packageVarInits renders every package-level variable/constant initialiser of a loaded package (format-insensitive).
func packageVarInits(c *Ctx, pkgPath string) map[string]string {
	p := c.ByPath[pkgPath]
	out := map[string]string{}
	if p == nil {
		return out
	}
	for _, f := range p.Syntax {
		for _, d := range f.Decls {
			gd, ok := d.(*ast.GenDecl)
			if !ok || (gd.Tok != token.VAR && gd.Tok != token.CONST) {
				continue
			}
			for _, s := range gd.Specs {
				vs := s.(*ast.ValueSpec)
				for i, n := range vs.Names {
					var buf bytes.Buffer
					if i < len(vs.Values) {
						// an initialiser that is a constant expression is its value (`1 * time.Second` and `time.Second`)
						if tv, ok := p.TypesInfo.Types[vs.Values[i]]; ok && tv.Value != nil {
							buf.WriteString(tv.Value.ExactString())
						} else {
							printer.Fprint(&buf, token.NewFileSet(), keyedLits(p.TypesInfo, vs.Values[i]))
						}
					} else if len(vs.Values) == 0 && gd.Tok == token.CONST {
						buf.WriteString("<iota-continued>")
					}
					if obj := p.Types.Scope().Lookup(n.Name); obj != nil {
						if k := constObjString(obj); k != "" {
							buf.Reset()
							buf.WriteString(k)
						}
					}
					txt := strings.Join(strings.Fields(buf.String()), " ")
					txt = strings.ReplaceAll(txt, "interface{}", "any") // the predeclared alias
					if gd.Tok == token.CONST {
						pkgConstNames[pkgPath+"."+n.Name] = true
					}
					out[n.Name] = txt
				}
			}
		}
	}
	return out
}

// R1: the codec's tables (static table, Huffman codes and lengths, …) equal those of the upstream copy the proxy links.
func c18r1(r *R) {
	c := r.C
	mine := packageVarInits(c, modPath+"/pkg/http2/hpack")
	ref := packageVarInits(c, modPath+"/pkg/zz_ref_hpack")
	o := r.Ob("C18.R1", "tables-agree-with-upstream")
	r.need(len(mine) >= 10, "pkg/http2/hpack variables not found (%d)", len(mine))
	if len(ref) == 0 {
		r.note("C18.R1: upstream hpack reference not available; table comparison skipped")
		o.OK("reference not present; comparison skipped")
	} else {
		var names []string
		for k := range mine {
			names = append(names, k)
		}
		sort.Strings(names)
		for _, k := range names {
			rv, ok := ref[k]
			if !ok {
				if pkgConstNames[modPath+"/pkg/http2/hpack."+k] {
					continue // a named constant of its own: its value shows wherever it is used
				}
				o.Fail("package-level %s exists only in pkg/http2/hpack", k)
				continue
			}
			if rv != mine[k] {
				a, b := mine[k], rv
				// locate first difference
				i := 0
				for i < len(a) && i < len(b) && a[i] == b[i] {
					i++
				}
				lo := i - 40
				if lo < 0 {
					lo = 0
				}
				hiA, hiB := i+40, i+40
				if hiA > len(a) {
					hiA = len(a)
				}
				if hiB > len(b) {
					hiB = len(b)
				}
				o.Fail("hpack table/constant %s differs from RFC 7541's values as carried by upstream x/net: here …%s… upstream …%s…", k, a[lo:hiA], b[lo:hiB])
			}
		}
		for k := range ref {
			if _, ok := mine[k]; !ok {
				o.Fail("upstream package-level %s is missing in pkg/http2/hpack", k)
			}
		}
		o.OK("%d package-level initialisers compared", len(names))
	}
	// structure independent of the reference: the static table has 61 entries, the Huffman tables 256 symbols, and the code is a complete prefix code
	e, p := c.varInit("pkg/http2/hpack", "huffmanCodeLen")
	r.need(e != nil, "huffmanCodeLen not found")
	o2 := r.Ob("C18.R1", "huffman-prefix-code").At(e.Pos())
	var lens []int64
	if cl, ok := e.(*ast.CompositeLit); ok {
		for _, el := range cl.Elts {
			if v := constOf(p, el); v != nil {
				if n, ok := constInt64(v); ok {
					lens = append(lens, n)
				}
			}
		}
	}
	if o2.Check(len(lens) == 256, "huffmanCodeLen has %d entries, want 256", len(lens)) {
		// Kraft sum with the 30-bit EOS symbol: sum 2^(30-len) + 1 == 2^30
		var sum int64 = 1
		okLen := true
		for _, l := range lens {
			if l < 5 || l > 30 {
				okLen = false
				break
			}
			sum += int64(1) << uint(30-l)
		}
		o2.Check(okLen, "a Huffman code length is outside 5..30")
		o2.Check(sum == int64(1)<<30, "the Huffman code lengths do not form a complete prefix code together with the 30-bit EOS (Kraft sum %d, want %d)", sum, int64(1)<<30)
	}
	e2, p2 := c.varInit("pkg/http2/hpack", "huffmanCodes")
	if o2.Check(e2 != nil, "huffmanCodes not found") {
		var codes []int64
		if cl, ok := e2.(*ast.CompositeLit); ok {
			for _, el := range cl.Elts {
				if v := constOf(p2, el); v != nil {
					if n, ok := constInt64(v); ok {
						codes = append(codes, n)
					}
				}
			}
		}
		if o2.Check(len(codes) == 256 && len(lens) == 256, "huffmanCodes has %d entries", len(codes)) {
			seen := map[[2]int64]bool{}
			for i := range codes {
				o2.Check(codes[i] < int64(1)<<uint(lens[i]), "Huffman code %d (0x%x) does not fit its length %d", i, codes[i], lens[i])
				key := [2]int64{codes[i], lens[i]}
				o2.Check(!seen[key], "Huffman code for symbol %d duplicates another symbol's code", i)
				seen[key] = true
			}
			// prefix-freeness: no code is a prefix of another (O(n^2) over 256 constants)
			for i := range codes {
				for j := range codes {
					if i != j && lens[i] <= lens[j] && codes[j]>>uint(lens[j]-lens[i]) == codes[i] && !(lens[i] == lens[j]) {
						o2.Fail("Huffman code of symbol %d is a prefix of symbol %d's code", i, j)
					}
				}
			}
		}
	}
}

func constInt64(v interface{ ExactString() string }) (int64, bool) {
	var n int64
	s := v.ExactString()
	if len(s) == 0 {
		return 0, false
	}
	for _, ch := range s {
		if ch < '0' || ch > '9' {
			return 0, false
		}
		n = n*10 + int64(ch-'0')
	}
	return n, true
}

func hpackFuncs(c *Ctx) []*ssa.Function { return c.FuncsIn("pkg/http2/hpack") }

// R2: every function of the codec agrees in effect with its upstream sibling.
func c18r2(r *R) {
	siblingCompare(r, "C18.R2", "pkg/zz_ref_hpack", hpackFuncs(r.C), nil, "HPACK function")
}

// R3: the dynamic table never exceeds its limit; reviewed decision tables of the table primitives and of the decoder's entry points.
func c18r3(r *R) {
	c := r.C
	var rows []siteRow
	for _, nm := range [][2]string{{"dynamicTable", "add"}, {"dynamicTable", "setMaxSize"}, {"dynamicTable", "evict"}, {"headerFieldTable", "evictOldest"}, {"headerFieldTable", "addEntry"},
		{"Decoder", "parseDynamicTableSizeUpdate"}, {"Decoder", "Write"}, {"Decoder", "Close"}, {"Decoder", "parseHeaderFieldRepr"}, {"Decoder", "parseFieldLiteral"}, {"Decoder", "parseFieldIndexed"}, {"Decoder", "at"}, {"Decoder", "callEmit"}, {"Decoder", "readString"},
		{"Encoder", "WriteField"}, {"Encoder", "SetMaxDynamicTableSize"}, {"Encoder", "SetMaxDynamicTableSizeLimit"}, {"Encoder", "searchTable"}, {"Encoder", "shouldIndex"}} {
		fn := c.Method("pkg/http2/hpack", nm[0], nm[1])
		r.need(fn != nil, "hpack.%s.%s not found", nm[0], nm[1])
		rows = append(rows, effectRows(c, fn)...)
	}
	for _, nm := range []string{"readVarInt", "huffmanDecode", "appendVarInt"} {
		fn := c.Func("pkg/http2/hpack", nm)
		r.need(fn != nil, "hpack.%s not found", nm)
		rows = append(rows, effectRows(c, fn)...)
	}
	r.Ob("C18.R3", "instances").Check(len(rows) >= 120, "expected >= 120 rows, found %d", len(rows))
	checkTable(r, "C18.R3", "hpack_decisions", rows, "HPACK step")
	// explicit: size/maxSize writers and eviction after growth
	dt := c.Named("pkg/http2/hpack", "dynamicTable")
	okW := map[string]bool{"(*http2/hpack.dynamicTable).add": true, "(*http2/hpack.dynamicTable).setMaxSize": true, "(*http2/hpack.dynamicTable).evict": true}
	for _, f := range []string{"size", "maxSize"} {
		for _, a := range fieldAccesses(c.FuncsIn("pkg/http2/hpack"), dt, f) {
			if a.Kind != "read" {
				r.Ob("C18.R3", "table-size-writer:"+f+":"+funcName(a.Fn)).AtI(a.Instr).Check(okW[funcName(a.Fn)], "dynamicTable.%s is written in %s", f, funcName(a.Fn))
			}
		}
	}
	for _, nm := range []string{"add", "setMaxSize"} {
		fn := c.Method("pkg/http2/hpack", "dynamicTable", nm)
		o := r.Ob("C18.R3", "evict-after-growth:"+funcName(fn)).At(fn.Pos())
		var st ssa.Instruction
		for _, a := range fieldAccesses([]*ssa.Function{fn}, dt, map[string]string{"add": "size", "setMaxSize": "maxSize"}[nm]) {
			if a.Kind == "write" {
				st = a.Instr
			}
		}
		if o.Check(st != nil, "%s does not update the table size/limit", nm) {
			p := c.escapePath(fn, st, func(i ssa.Instruction) bool { return isCall(i, "(*http2/hpack.dynamicTable).evict") }, isReturn)
			o.Check(p == nil, "after changing the table's size/limit, %s can return without evicting down to the limit: %v", nm, p)
		}
	}
}

// R5: how the fork drives the codec: header-block assembly and the peer's HEADER_TABLE_SIZE.
func c18r5(r *R) {
	c := r.C
	var rows []siteRow
	rm := c.Method("pkg/http2", "Framer", "readMetaFrame")
	r.need(rm != nil, "readMetaFrame not found")
	rows = append(rows, effectRows(c, rm)...)
	for _, nm := range []string{"processSetting", "HeaderEncoder"} {
		fn := c.Method("pkg/http2", "serverConn", nm)
		r.need(fn != nil, "serverConn.%s not found", nm)
		rows = append(rows, effectRows(c, fn)...)
	}
	for _, nm := range []string{"encodeHeaders", "encKV"} {
		if fn := c.Func("pkg/http2", nm); fn != nil {
			rows = append(rows, effectRows(c, fn)...)
		}
	}
	checkTable(r, "C18.R5", "hpack_use_in_server", rows, "HPACK use step")
	decoderLimitMatchesAdvertisement(r)
	// the decoder is closed after every header block, whether or not the block was valid (otherwise the next block is parsed as a continuation)
	o := r.Ob("C18.R5", "decoder-closed-per-block:"+funcName(rm)).At(rm.Pos())
	cl := callsIn(rm, "(*golang.org/x/net/http2/hpack.Decoder).Close")
	if o.Check(len(cl) == 1, "readMetaFrame closes the decoder at %d sites", len(cl)) {
		// every return after the fragment loop is dominated by Close, except the early framing/decoding error returns inside the loop
		eachInstr(rm, func(i ssa.Instruction) {
			if ret, ok := i.(*ssa.Return); ok && !inLoopRegionBefore(cl[0], i) {
				e := retExpr(c, ret, 1)
				if strings.Contains(e, "invalid") || strings.Contains(e, "StreamError") {
					o.AtI(i).Check(instrDominates(cl[0], i), "a malformed-request stream error is returned without closing the HPACK decoder first: the connection's decoder would treat the next header block as a continuation")
				}
			}
		})
	}
	siblingCompare(r, "C18.R5", "pkg/zz_ref_http2", []*ssa.Function{rm, c.Method("pkg/http2", "serverConn", "processSetting"), c.Method("pkg/http2", "serverConn", "HeaderEncoder")}, nil, "HPACK driver", 3)
}

func inLoopRegionBefore(mark, i ssa.Instruction) bool {
	return !reachesAfter(mark, i) && !instrDominates(mark, i) && reachesAfter(i, mark)
}

// decoderLimitMatchesAdvertisement: the size the server's HPACK decoder is created with is the size it advertises in
// SETTINGS_HEADER_TABLE_SIZE (the same configuration field), and nothing on the server side changes the decoder's limits
// afterwards. Otherwise the dynamic table can grow beyond what was permitted and stale indices decode.
func decoderLimitMatchesAdvertisement(r *R) {
	c := r.C
	sv := c.Method("pkg/http2", "Server", "serveConn")
	serve := c.Method("pkg/http2", "serverConn", "serve")
	r.need(sv != nil && serve != nil, "Server.serveConn / serverConn.serve not found")
	o := r.Ob("C18.R5", "decoder-limit-is-advertised-limit:"+funcName(sv)).At(sv.Pos())
	fr := c.Named("pkg/http2", "Framer")
	confE := ""
	n := 0
	for _, a := range fieldAccesses(c.FuncsIn("pkg/http2"), fr, "ReadMetaHeaders") {
		if a.Kind != "write" || strings.HasPrefix(c.Pos(a.Fn.Pos()), "pkg/http2/transport.go") {
			continue
		}
		n++
		e := c.Expr(a.Instr.(*ssa.Store).Val)
		o.AtI(a.Instr)
		const pre, suf = "golang.org/x/net/http2/hpack.NewDecoder(", ".MaxDecoderHeaderTableSize, nil)"
		if o.Check(a.Fn == sv && strings.HasPrefix(e, pre) && strings.HasSuffix(e, suf), "the server's header decoder is %s (set in %s), want hpack.NewDecoder(conf.MaxDecoderHeaderTableSize, nil) in serveConn", e, funcName(a.Fn)) {
			confE = strings.TrimSuffix(strings.TrimPrefix(e, pre), suf)
		}
	}
	o.Check(n == 1, "expected one server-side store to Framer.ReadMetaHeaders, found %d", n)
	// the same conf value is handed to serve()
	for _, s := range callsIn(sv, "(*http2.serverConn).serve") {
		a := callOf(s).Args
		o.AtI(s).Check(len(a) == 2 && c.Expr(a[1]) == confE, "serve() is given %s, the decoder was sized from %s", c.Expr(a[len(a)-1]), confE)
	}
	// the initial SETTINGS literal advertises p1.MaxDecoderHeaderTableSize under id 1
	ids, vals := map[string]string{}, map[string]string{}
	eachInstr(serve, func(i ssa.Instruction) {
		if st, ok := i.(*ssa.Store); ok {
			ae := c.Expr(st.Addr)
			if strings.HasPrefix(ae, "&slicelit[") {
				k := ae[:strings.Index(ae, "]")+1]
				if strings.HasSuffix(ae, ".ID") {
					ids[k] = c.Expr(st.Val)
				} else if strings.HasSuffix(ae, ".Val") {
					vals[k] = c.Expr(st.Val)
				}
			}
		}
	})
	adv := ""
	for k, id := range ids {
		if id == "1" {
			adv = vals[k]
		}
	}
	o.Check(adv == "p1.MaxDecoderHeaderTableSize", "SETTINGS_HEADER_TABLE_SIZE advertises %q, want conf.MaxDecoderHeaderTableSize (the decoder's size)", adv)
	// nobody re-limits the decoder on the server side
	for _, fn := range c.FuncsIn("pkg/http2") {
		if strings.HasPrefix(c.Pos(fn.Pos()), "pkg/http2/transport.go") {
			continue
		}
		for _, s := range callsIn(fn, "(*golang.org/x/net/http2/hpack.Decoder).SetMaxDynamicTableSize", "(*golang.org/x/net/http2/hpack.Decoder).SetAllowedMaxDynamicTableSize") {
			o.AtI(s).Fail("%s changes the header decoder's table limit after construction (%s)", funcName(fn), calleeName(callOf(s)))
		}
	}
}

// keyedLits returns e with every positional struct literal rewritten in keyed form (a copy; e is not modified), so that
// `T{x, y}` and `T{A: x, B: y}` print alike. Other nodes are shared with e.
func keyedLits(info *types.Info, e ast.Expr) ast.Expr {
	if info == nil || e == nil {
		return e
	}
	var cp func(x ast.Expr) ast.Expr
	cps := func(xs []ast.Expr) []ast.Expr {
		out := make([]ast.Expr, len(xs))
		for i, x := range xs {
			out[i] = cp(x)
		}
		return out
	}
	cp = func(x ast.Expr) ast.Expr {
		switch n := x.(type) {
		case *ast.CompositeLit:
			c2 := *n
			c2.Elts = cps(n.Elts)
			if tv, ok := info.Types[n]; ok && tv.Type != nil {
				t := tv.Type
				if pt, ok := t.Underlying().(*types.Pointer); ok {
					t = pt.Elem()
				}
				if st, ok := t.Underlying().(*types.Struct); ok && len(c2.Elts) > 0 {
					if _, keyed := c2.Elts[0].(*ast.KeyValueExpr); !keyed && len(c2.Elts) <= st.NumFields() {
						for i, el := range c2.Elts {
							c2.Elts[i] = &ast.KeyValueExpr{Key: ast.NewIdent(st.Field(i).Name()), Value: el}
						}
					}
				}
			}
			return &c2
		case *ast.KeyValueExpr:
			k2 := *n
			k2.Value = cp(n.Value)
			return &k2
		case *ast.CallExpr:
			c2 := *n
			c2.Args = cps(n.Args)
			return &c2
		case *ast.UnaryExpr:
			u2 := *n
			u2.X = cp(n.X)
			return &u2
		case *ast.ParenExpr:
			p2 := *n
			p2.X = cp(n.X)
			return &p2
		case *ast.BinaryExpr:
			b2 := *n
			b2.X, b2.Y = cp(n.X), cp(n.Y)
			return &b2
		}
		return x
	}
	return cp(e)
}
