package main

import (
	"fmt"
	"go/ast"
	"go/token"
	"go/types"
	"os"
	"path/filepath"
	"sort"
	"strings"
	"time"

	"golang.org/x/tools/go/callgraph"
	"golang.org/x/tools/go/callgraph/cha"
	"golang.org/x/tools/go/callgraph/vta"
	"golang.org/x/tools/go/packages"
	"golang.org/x/tools/go/ssa"
	"golang.org/x/tools/go/ssa/ssautil"
)

const modPath = "github.com/wi1dcard/fingerproxy"

// LoadCfg names one build configuration.
type LoadCfg struct {
	Name    string
	Dir     string
	Deep    bool   // LoadAllSyntax: one type universe, dependency bodies available
	Tags    string // build tags
	GOOS    string
	GOARCH  string
	Overlay map[string][]byte
	// extra packages (import paths) whose SSA bodies are built in deep mode
	BuildExtra []string
	// Refs: virtual packages (module-relative dir -> source directory outside the repository) added through the source
	// overlay: an independent upstream copy of vendored code, type-checked inside the repository's module
	Refs map[string]string
}

type Ctx struct {
	Cfg         LoadCfg
	Fset        *token.FileSet
	Pkgs        []*packages.Package
	ByPath      map[string]*packages.Package
	Prog        *ssa.Program
	Funcs       []*ssa.Function // all functions with bodies in module packages (incl. anonymous)
	RefFuncs    []*ssa.Function // functions of the virtual reference packages (upstream copies)
	Built       map[*ssa.Package]bool
	cg          *callgraph.Graph
	ModMode     string
	Stats       map[string]any
	parentOf    map[*ssa.Function]*ssa.MakeClosure
	InlineNotes []string
	Renamed     map[string]string // rel|Recv.reviewedName -> current name
	IdentNow    map[string]string // rel|reviewedIdent -> current name (package-level vars, consts, types)
}

var depBuild = []string{
	"github.com/dreadl0ck/tlsx",
	"github.com/refraction-networking/utls",
	"golang.org/x/net/http2/hpack",
}

func loadOnce(cfg LoadCfg, modFlag string) ([]*packages.Package, *token.FileSet, error) {
	fset := token.NewFileSet()
	env := []string{}
	for _, e := range os.Environ() {
		if strings.HasPrefix(e, "GOFLAGS=") || strings.HasPrefix(e, "GOWORK=") || strings.HasPrefix(e, "GOOS=") ||
			strings.HasPrefix(e, "GOARCH=") || strings.HasPrefix(e, "GOPROXY=") || strings.HasPrefix(e, "GOSUMDB=") ||
			strings.HasPrefix(e, "GOTOOLCHAIN=") || strings.HasPrefix(e, "CGO_ENABLED=") {
			continue
		}
		env = append(env, e)
	}
	env = append(env, "GOFLAGS="+modFlag, "GOWORK=off", "GOPROXY=off", "GOSUMDB=off", "GOTOOLCHAIN=local", "CGO_ENABLED=0")
	if cfg.GOOS != "" {
		env = append(env, "GOOS="+cfg.GOOS)
	}
	if cfg.GOARCH != "" {
		env = append(env, "GOARCH="+cfg.GOARCH)
	}
	mode := packages.LoadSyntax
	if cfg.Deep {
		mode = packages.LoadAllSyntax
	}
	overlay := map[string][]byte{}
	for k, v := range cfg.Overlay {
		overlay[k] = v
	}
	patterns := []string{"./..."}
	var refDirs []string
	for rel := range cfg.Refs {
		refDirs = append(refDirs, rel)
	}
	sort.Strings(refDirs)
	for _, rel := range refDirs {
		src := cfg.Refs[rel]
		ents, err := os.ReadDir(src)
		if err != nil {
			continue
		}
		n := 0
		for _, e := range ents {
			nm := e.Name()
			if e.IsDir() || !strings.HasSuffix(nm, ".go") || strings.HasSuffix(nm, "_test.go") {
				continue
			}
			b, err := os.ReadFile(filepath.Join(src, nm))
			if err != nil {
				continue
			}
			overlay[filepath.Join(cfg.Dir, rel, nm)] = b
			n++
		}
		if n > 0 {
			patterns = append(patterns, "./"+rel)
		}
	}
	pc := &packages.Config{
		Mode: mode | packages.NeedModule, Dir: cfg.Dir, Fset: fset, Env: env, Tests: false,
		Overlay: overlay,
	}
	if cfg.Tags != "" {
		pc.BuildFlags = []string{"-tags=" + cfg.Tags}
	}
	pkgs, err := packages.Load(pc, patterns...)
	return pkgs, fset, err
}

// Load loads the configuration and, when the tree declares functions that are not in the reviewed table, expands their
// call sites in place (inline.go) and reloads, so that rules see the statements where the reviewed tree had them.
func Load(cfg LoadCfg) (*Ctx, error) {
	c, err := loadRaw(cfg)
	if err != nil {
		return nil, err
	}
	known := loadKnownFuncs()
	if known == nil || os.Getenv("FPCHECK_NO_INLINE") != "" {
		fieldAlias = map[*types.Var]string{}
		identSubst, renameSubst, recvAlias = nil, nil, map[string]string{}
		return c, nil
	}
	seq := 0
	expandedAny := false
	var notes []string
	notes = append(notes, detectIdentRenames(c)...)
	recvAlias = map[string]string{}
	for k, now := range c.IdentNow {
		rel := k[:strings.Index(k, "|")]
		recvAlias[rel+"|"+now] = k[strings.Index(k, "|")+1:]
	}
	identNow := c.IdentNow
	if ov, ns := restoreLockWrappers(c, known); len(ov) > 0 {
		cfg2 := c.Cfg
		cfg2.Overlay = map[string][]byte{}
		for k, v := range c.Cfg.Overlay {
			cfg2.Overlay[k] = v
		}
		for k, v := range ov {
			cfg2.Overlay[k] = v
		}
		if c2, err := loadRaw(cfg2); err == nil {
			c = c2
			c.IdentNow = identNow
			expandedAny = true
			notes = append(notes, ns...)
		} else {
			notes = append(notes, fmt.Sprintf("expanding lock wrappers abandoned (the rewritten source does not load: %.300s); analysing the tree as it is", err.Error()))
		}
	} else {
		notes = append(notes, ns...)
	}
	if ov, ns := restoreOutFields(c, known); len(ov) > 0 {
		cfg2 := c.Cfg
		cfg2.Overlay = map[string][]byte{}
		for k, v := range c.Cfg.Overlay {
			cfg2.Overlay[k] = v
		}
		for k, v := range ov {
			cfg2.Overlay[k] = v
		}
		if c2, err := loadRaw(cfg2); err == nil {
			c = c2
			c.IdentNow = identNow
			notes = append(notes, ns...)
		} else {
			notes = append(notes, fmt.Sprintf("restoring out-field methods abandoned (the rewritten source does not load: %.300s); analysing the tree as it is", err.Error()))
		}
	} else {
		notes = append(notes, ns...)
	}
	renamed, rnotes := detectRenames(c, known)
	notes = append(notes, rnotes...)
	setRenames(c, renamed)
	if len(renamed) > 0 {
		known2 := map[string]bool{}
		for k := range known {
			known2[k] = true
		}
		for nk := range renamed {
			known2[nk] = true
		}
		known = known2
	}
	if ov, ns := restoreParamOrder(c, known); len(ov) > 0 {
		cfg2 := c.Cfg
		cfg2.Overlay = map[string][]byte{}
		for k, v := range c.Cfg.Overlay {
			cfg2.Overlay[k] = v
		}
		for k, v := range ov {
			cfg2.Overlay[k] = v
		}
		if c2, err := loadRaw(cfg2); err == nil {
			c = c2
			c.IdentNow = identNow
			setRenames(c, renamed)
			notes = append(notes, ns...)
		} else {
			notes = append(notes, fmt.Sprintf("restoring the reviewed parameter order abandoned (the rewritten source does not load: %.300s); analysing the tree as it is", err.Error()))
		}
	} else {
		notes = append(notes, ns...)
	}
	for round := 0; round < 7; round++ {
		ov, ns := inlineNewHelpers(c, known, &seq)
		notes = append(notes, ns...)
		if len(ov) == 0 {
			break
		}
		cfg2 := c.Cfg
		cfg2.Overlay = map[string][]byte{}
		for k, v := range c.Cfg.Overlay {
			cfg2.Overlay[k] = v
		}
		for k, v := range ov {
			cfg2.Overlay[k] = v
		}
		c2, err := loadRaw(cfg2)
		if err != nil {
			notes = append(notes, fmt.Sprintf("expansion of new helpers abandoned in round %d (the expanded source does not load: %.300s); analysing the tree as it is", round+1, err.Error()))
			if os.Getenv("FPCHECK_DEBUG_INLINE") != "" {
				for k, v := range ov {
					os.WriteFile("/tmp/fpinline_"+filepath.Base(k), v, 0o644)
				}
			}
			break
		}
		c = c2
		expandedAny = true
		c.IdentNow = identNow
		setRenames(c, renamed)
		if os.Getenv("FPCHECK_DUMP_OVERLAY") != "" {
			for k, v := range cfg2.Overlay {
				if !strings.Contains(k, "zz_ref_") {
					os.WriteFile("/tmp/fpoverlay_"+filepath.Base(k), v, 0o644)
				}
			}
		}
	}
	notes = append(notes, detectFieldRenames(c)...)
	notes = append(notes, computeLitAliases(c)...)
	c.InlineNotes = uniq(notes)
	if seq > 0 || expandedAny {
		dropUnreferencedNewFuncs(c, known)
	}
	markNewFuncs(c, known)
	if os.Getenv("FPCHECK_DEBUG_NOTES") != "" {
		for _, n := range c.InlineNotes {
			fmt.Fprintln(os.Stderr, "NOTE:", n)
		}
	}
	return c, nil
}

// newFuncObjs: unexported functions of the module that are not in the reviewed table (and were not expanded at their
// call sites). A parameter of such a function that has one call site reads as the argument passed there.
var newFuncObjs = map[types.Object]bool{}

func markNewFuncs(c *Ctx, known map[string]bool) {
	newFuncObjs = map[types.Object]bool{}
	callSiteCache = nil
	for _, p := range c.Pkgs {
		if !(p.PkgPath == modPath || strings.HasPrefix(p.PkgPath, modPath+"/")) || p.TypesInfo == nil || strings.Contains(p.PkgPath, "/zz_ref_") {
			continue
		}
		for _, f := range p.Syntax {
			rel, err := filepath.Rel(c.Cfg.Dir, filepath.Dir(c.Fset.Position(f.Pos()).Filename))
			if err != nil {
				continue
			}
			for _, d := range f.Decls {
				if fd, ok := d.(*ast.FuncDecl); ok && fd.Body != nil && !known[funcDeclKey(rel, fd)] && !fd.Name.IsExported() {
					if o := p.TypesInfo.Defs[fd.Name]; o != nil {
						newFuncObjs[o] = true
					}
				}
			}
		}
	}
}

// callSiteCache: static call sites of the module's functions, and which functions are also used as values.
var callSiteCache *struct {
	sites   map[*ssa.Function][]*ssa.CallCommon
	escaped map[*ssa.Function]bool
}

var callSiteInstr = map[*ssa.CallCommon]ssa.Instruction{}

// uniqueCallSite: the one instruction that calls the new unexported helper fn (see uniqueCallArg), or nil.
func (c *Ctx) uniqueCallSite(fn *ssa.Function) ssa.Instruction {
	if c.uniqueCallArg(fn, 0) == nil && (fn == nil || len(fn.Params) > 0) {
		return nil
	}
	if callSiteCache == nil || callSiteCache.escaped[fn] || len(callSiteCache.sites[fn]) != 1 {
		return nil
	}
	return callSiteInstr[callSiteCache.sites[fn][0]]
}

// uniqueCallArg: if fn is a new unexported function with exactly one static call site and no use as a value, the
// argument passed for parameter number idx there.
func (c *Ctx) uniqueCallArg(fn *ssa.Function, idx int) ssa.Value {
	if fn == nil || fn.Object() == nil {
		return nil
	}
	if !newFuncObjs[fn.Object()] && !c.addedParam(fn, idx) {
		return nil
	}
	if callSiteCache == nil {
		callSiteCache = &struct {
			sites   map[*ssa.Function][]*ssa.CallCommon
			escaped map[*ssa.Function]bool
		}{map[*ssa.Function][]*ssa.CallCommon{}, map[*ssa.Function]bool{}}
		for _, f := range c.Funcs {
			eachInstr(f, func(i ssa.Instruction) {
				cc := callOf(i)
				for _, op := range i.Operands(nil) {
					if op == nil || *op == nil {
						continue
					}
					g, ok := (*op).(*ssa.Function)
					if !ok {
						continue
					}
					if cc != nil && cc.Value == ssa.Value(g) && !cc.IsInvoke() {
						continue
					}
					callSiteCache.escaped[g] = true
				}
				if cc != nil {
					if g := staticCallee(cc); g != nil {
						if forwardTarget(f) == g {
							// a literal that only forwards to g reads as g itself: g keeps its own frame
							callSiteCache.escaped[g] = true
						}
						callSiteCache.sites[g] = append(callSiteCache.sites[g], cc)
						callSiteInstr[cc] = i
						// the function value itself must not also be passed as an argument
						for _, a := range cc.Args {
							if a == ssa.Value(g) {
								callSiteCache.escaped[g] = true
							}
						}
					}
				}
			})
		}
	}
	if callSiteCache.escaped[fn] || len(callSiteCache.sites[fn]) != 1 {
		return nil
	}
	args := callSiteCache.sites[fn][0].Args
	if idx >= len(args) {
		return nil
	}
	return args[idx]
}

// renameSubst: rendered qualified names of renamed functions -> their reviewed names (applied by shorten()).
var renameSubst [][2]string

// setRenames installs the rename table: name lookups by reviewed name find the renamed declaration, and rendered names
// use the reviewed name.
func setRenames(c *Ctx, renamed map[string]string) {
	renameSubst = nil
	c.Renamed = map[string]string{}
	for nk, ok := range renamed {
		rel := nk[:strings.Index(nk, "|")]
		split := func(k string) (string, string) {
			s := k[strings.Index(k, "|")+1:]
			return s[:strings.LastIndex(s, ".")], s[strings.LastIndex(s, ".")+1:]
		}
		recv, newName := split(nk)
		_, oldName := split(ok)
		c.Renamed[rel+"|"+recv+"."+oldName] = newName
		pkgName := ""
		path := modPath
		if rel != "." && rel != "" {
			path = modPath + "/" + filepath.ToSlash(rel)
		}
		if p := c.ByPath[path]; p != nil {
			pkgName = p.Name
		}
		if pkgName == "" {
			continue
		}
		q := shortenRaw(path)
		_ = pkgName
		if recv == "" {
			renameSubst = append(renameSubst, [2]string{q + "." + newName, q + "." + oldName})
		} else {
			renameSubst = append(renameSubst, [2]string{"(*" + q + "." + recv + ")." + newName, "(*" + q + "." + recv + ")." + oldName})
			renameSubst = append(renameSubst, [2]string{"(" + q + "." + recv + ")." + newName, "(" + q + "." + recv + ")." + oldName})
		}
	}
}

// dropUnreferencedNewFuncs removes from the analysed function set those new helpers whose every call was expanded in
// place: nothing refers to them any more, they are dead code in the analysed program.
func dropUnreferencedNewFuncs(c *Ctx, known map[string]bool) {
	dead := map[types.Object]bool{}
	for _, p := range c.Pkgs {
		if !(p.PkgPath == modPath || strings.HasPrefix(p.PkgPath, modPath+"/")) || p.TypesInfo == nil || strings.Contains(p.PkgPath, "/zz_ref_") {
			continue
		}
		cand := map[types.Object]string{}
		for _, f := range p.Syntax {
			rel, err := filepath.Rel(c.Cfg.Dir, filepath.Dir(c.Fset.Position(f.Pos()).Filename))
			if err != nil {
				continue
			}
			for _, d := range f.Decls {
				if fd, ok := d.(*ast.FuncDecl); ok && fd.Body != nil && !known[funcDeclKey(rel, fd)] && !fd.Name.IsExported() {
					if o := p.TypesInfo.Defs[fd.Name]; o != nil {
						cand[o] = funcDeclKey(rel, fd)
					}
				}
			}
		}
		for _, o := range p.TypesInfo.Uses {
			delete(cand, o)
		}
		for o, k := range cand {
			dead[o] = true
			c.InlineNotes = append(c.InlineNotes, "new function "+k+" has no remaining reference after expansion and is left out of the analysed set")
		}
	}
	if len(dead) == 0 {
		return
	}
	var keep []*ssa.Function
	for _, f := range c.Funcs {
		top := f
		for top.Parent() != nil {
			top = top.Parent()
		}
		if o := top.Object(); o != nil && dead[o] {
			continue
		}
		keep = append(keep, f)
	}
	c.Funcs = keep
}

func loadRaw(cfg LoadCfg) (*Ctx, error) {
	t0 := time.Now()
	pkgs, fset, err := loadOnce(cfg, "-mod=readonly")
	mm := "readonly"
	needRetry := err != nil
	if err == nil {
		for _, p := range pkgs {
			for _, e := range p.Errors {
				if strings.Contains(e.Msg, "updates to go.mod needed") || strings.Contains(e.Msg, "go.mod file indicates") || strings.Contains(e.Msg, "missing go.sum entry") {
					needRetry = true
				}
			}
		}
	}
	if needRetry {
		pkgs, fset, err = loadOnce(cfg, "-mod=mod")
		mm = "mod"
	}
	if err != nil {
		return nil, fmt.Errorf("go/packages load: %v", err)
	}
	if len(pkgs) == 0 {
		return nil, fmt.Errorf("no packages loaded from %s", cfg.Dir)
	}
	c := &Ctx{Cfg: cfg, Fset: fset, ByPath: map[string]*packages.Package{}, ModMode: mm, Built: map[*ssa.Package]bool{}, Stats: map[string]any{}}
	var errs []string
	packages.Visit(pkgs, nil, func(p *packages.Package) {
		c.Pkgs = append(c.Pkgs, p)
		c.ByPath[p.PkgPath] = p
		if strings.HasPrefix(p.PkgPath, modPath) || cfg.Deep {
			for _, e := range p.Errors {
				errs = append(errs, e.Error())
			}
		}
	})
	if len(errs) > 0 {
		sort.Strings(errs)
		if len(errs) > 10 {
			errs = errs[:10]
		}
		return nil, fmt.Errorf("type/load errors:\n%s", strings.Join(errs, "\n"))
	}
	nrepo := 0
	for _, p := range pkgs {
		if strings.HasPrefix(p.PkgPath, modPath) && !strings.Contains(p.PkgPath, "/zz_ref_") {
			nrepo++
		}
	}
	if nrepo < 10 {
		return nil, fmt.Errorf("only %d module packages loaded", nrepo)
	}
	// dependencies that go/packages parsed without type information (it does so when export data is unusable, e.g. below an
	// overlay) must be treated as body-less by go/ssa
	for _, p := range c.Pkgs {
		if p.Syntax != nil && (p.TypesInfo == nil || len(p.TypesInfo.Defs) == 0 || (!cfg.Deep && !strings.HasPrefix(p.PkgPath, modPath))) {
			p.Syntax = nil
		}
	}
	tLoad := time.Since(t0)
	t1 := time.Now()
	prog, _ := ssautil.AllPackages(pkgs, ssa.InstantiateGenerics)
	c.Prog = prog
	build := map[string]bool{}
	for _, d := range depBuild {
		build[d] = true
	}
	for _, d := range cfg.BuildExtra {
		build[d] = true
	}
	nfuncs, ninstr := 0, 0
	for _, sp := range prog.AllPackages() {
		pp := sp.Pkg.Path()
		inMod := strings.HasPrefix(pp, modPath)
		if inMod || (cfg.Deep && build[pp]) {
			sp.Build()
			c.Built[sp] = true
		}
	}
	for fn := range ssautil.AllFunctions(prog) {
		if fn.Pkg == nil || fn.Blocks == nil {
			continue
		}
		if strings.HasPrefix(fn.Pkg.Pkg.Path(), modPath) {
			if strings.Contains(fn.Pkg.Pkg.Path(), "/zz_ref_") {
				c.RefFuncs = append(c.RefFuncs, fn)
				continue
			}
			c.Funcs = append(c.Funcs, fn)
			nfuncs++
			for _, b := range fn.Blocks {
				ninstr += len(b.Instrs)
			}
		}
	}
	sort.Slice(c.Funcs, func(i, j int) bool {
		a, b := c.Funcs[i], c.Funcs[j]
		if a.Pos() != b.Pos() {
			return a.Pos() < b.Pos()
		}
		return a.String() < b.String()
	})
	c.Stats = map[string]any{
		"config": cfg.Name, "deep": cfg.Deep, "tags": cfg.Tags, "goos": cfg.GOOS, "goarch": cfg.GOARCH,
		"packages_loaded": len(c.Pkgs), "module_packages": nrepo, "module_functions": nfuncs, "module_ssa_instructions": ninstr,
		"go_mod_mode": mm, "load_s": round2(tLoad.Seconds()), "ssa_s": round2(time.Since(t1).Seconds()),
		"overlay_files": len(cfg.Overlay),
	}
	return c, nil
}

func round2(f float64) float64 { return float64(int(f*100+0.5)) / 100 }

// CG returns the VTA call graph (built lazily).
func (c *Ctx) CG() *callgraph.Graph {
	if c.cg == nil {
		t := time.Now()
		all := ssautil.AllFunctions(c.Prog)
		c.cg = vta.CallGraph(all, cha.CallGraph(c.Prog))
		c.Stats["callgraph_nodes"] = len(c.cg.Nodes)
		c.Stats["callgraph_s"] = round2(time.Since(t).Seconds())
	}
	return c.cg
}

func (c *Ctx) Pos(p token.Pos) string {
	if !p.IsValid() {
		return "-"
	}
	ps := c.Fset.Position(p)
	f := ps.Filename
	if rel, err := filepath.Rel(c.Cfg.Dir, f); err == nil && !strings.HasPrefix(rel, "..") {
		f = rel
	}
	return fmt.Sprintf("%s:%d", f, ps.Line)
}

// Pkg returns the SSA package for a module-relative path ("" = root, "pkg/hack"), or an absolute import path.
func (c *Ctx) Pkg(rel string) *ssa.Package {
	path := rel
	if rel == "" {
		path = modPath
	} else if !strings.Contains(strings.Split(rel, "/")[0], ".") && !isStd(rel) {
		path = modPath + "/" + rel
	}
	p := c.ByPath[path]
	if p == nil || p.Types == nil {
		return nil
	}
	return c.Prog.Package(p.Types)
}

func isStd(p string) bool {
	switch strings.Split(p, "/")[0] {
	case "net", "crypto", "context", "sync", "io", "os", "fmt", "strings", "bytes", "strconv", "errors", "time", "log", "sort", "math", "encoding", "bufio", "runtime", "reflect", "syscall", "flag":
		return true
	}
	return false
}

// Func resolves a package-level function.
func (c *Ctx) Func(pkg, name string) *ssa.Function {
	p := c.Pkg(pkg)
	if p == nil {
		return nil
	}
	if f := p.Func(name); f != nil {
		return f
	}
	if nn, ok := c.Renamed[relKey(pkg)+"|."+name]; ok {
		return p.Func(nn)
	}
	return nil
}

func relKey(pkg string) string {
	if pkg == "" {
		return "."
	}
	return pkg
}

// Method resolves a method on named type T (pointer or value receiver).
func (c *Ctx) Method(pkg, typ, name string) *ssa.Function {
	if nn, ok := c.Renamed[relKey(pkg)+"|"+typ+"."+name]; ok {
		name = nn
	}
	p := c.Pkg(pkg)
	if p == nil {
		return nil
	}
	obj := p.Pkg.Scope().Lookup(c.nowName(pkg, typ))
	if obj == nil {
		return nil
	}
	tn, ok := obj.(*types.TypeName)
	if !ok {
		return nil
	}
	for _, t := range []types.Type{tn.Type(), types.NewPointer(tn.Type())} {
		ms := c.Prog.MethodSets.MethodSet(t)
		for i := 0; i < ms.Len(); i++ {
			sel := ms.At(i)
			if sel.Obj().Name() == name && len(sel.Index()) == 1 {
				// declared directly on T
				if f := c.Prog.FuncValue(sel.Obj().(*types.Func)); f != nil {
					return f
				}
			}
		}
	}
	return nil
}

// Named returns the named type pkg.T.
func (c *Ctx) Named(pkg, typ string) *types.Named {
	p := c.Pkg(pkg)
	if p == nil {
		return nil
	}
	obj := p.Pkg.Scope().Lookup(c.nowName(pkg, typ))
	if obj == nil {
		return nil
	}
	n, _ := obj.Type().(*types.Named)
	return n
}

// Global resolves a package-level variable.
func (c *Ctx) Global(pkg, name string) *ssa.Global {
	p := c.Pkg(pkg)
	if p == nil {
		return nil
	}
	g, _ := p.Members[c.nowName(pkg, name)].(*ssa.Global)
	return g
}

// FuncsIn returns all functions (incl. anonymous) of the module packages whose
// path relative to the module has one of the given prefixes; no prefixes = all.
func (c *Ctx) FuncsIn(rels ...string) []*ssa.Function {
	var out []*ssa.Function
	for _, f := range c.Funcs {
		pp := strings.TrimPrefix(strings.TrimPrefix(f.Pkg.Pkg.Path(), modPath), "/")
		if len(rels) == 0 {
			out = append(out, f)
			continue
		}
		for _, r := range rels {
			if pp == r {
				out = append(out, f)
				break
			}
		}
	}
	return out
}

// productPkgs is the import closure of ./cmd inside the module.
var productPkgs = []string{"", "cmd", "pkg/certwatcher", "pkg/debug", "pkg/fingerprint", "pkg/hack", "pkg/http2", "pkg/ja3", "pkg/ja4", "pkg/metadata", "pkg/proxyserver", "pkg/reverseproxy"}

func (c *Ctx) Product() []*ssa.Function { return c.FuncsIn(productPkgs...) }

// withAnon returns fn and all functions nested in it.
func withAnon(fn *ssa.Function) []*ssa.Function {
	out := []*ssa.Function{fn}
	for _, a := range fn.AnonFuncs {
		out = append(out, withAnon(a)...)
	}
	return out
}

// allModuleFuncs: module functions plus the package initialisers (which FuncsIn omits when they are synthetic).
func (c *Ctx) allModuleFuncs() []*ssa.Function {
	out := append([]*ssa.Function{}, c.Funcs...)
	seen := map[*ssa.Function]bool{}
	for _, f := range out {
		seen[f] = true
	}
	for sp := range c.Built {
		if f := sp.Func("init"); f != nil && !seen[f] && f.Blocks != nil {
			out = append(out, f)
		}
	}
	return out
}

// inModuleOrRef: like inModule, but the upstream reference copies count too (the sibling comparison renders both sides alike).
func (c *Ctx) inModuleOrRef(fn *ssa.Function) bool {
	if fn == nil || fn.Pkg == nil {
		return false
	}
	p := fn.Pkg.Pkg.Path()
	return p == modPath || strings.HasPrefix(p, modPath+"/")
}

// inModule: fn belongs to a package of the analysed module (not a dependency, not an upstream reference copy).
func (c *Ctx) inModule(fn *ssa.Function) bool {
	if fn == nil || fn.Pkg == nil {
		return false
	}
	p := fn.Pkg.Pkg.Path()
	return (p == modPath || strings.HasPrefix(p, modPath+"/")) && !strings.Contains(p, "zz_ref_")
}


// addedParam: fn is a reviewed unexported function and its parameter number idx (receiver counted) has a name the
// reviewed declaration did not have, while all reviewed names are still there: a value the function used to obtain
// itself is now passed in. With one call site it reads as the argument passed there.
func (c *Ctx) addedParam(fn *ssa.Function, idx int) bool {
	fd, ok := fn.Syntax().(*ast.FuncDecl)
	if !ok || fd.Name.IsExported() || knownInfo == nil {
		return false
	}
	rel, err := filepath.Rel(c.Cfg.Dir, filepath.Dir(c.Fset.Position(fd.Pos()).Filename))
	if err != nil {
		return false
	}
	info, has := knownInfo[funcDeclKey(rel, fd)]
	if !has {
		return false
	}
	names := declParamNames(fd)
	off := 0
	if fd.Recv != nil {
		off = 1
	}
	k := idx - off
	if k < 0 || k >= len(names) || names[k] == "" || names[k] == "_" || len(names) <= len(info.Params) {
		return false
	}
	old := map[string]bool{}
	for _, n := range info.Params {
		old[n] = true
	}
	cur := map[string]bool{}
	for _, n := range names {
		cur[n] = true
	}
	for n := range old {
		if n != "" && n != "_" && !cur[n] {
			return false // a reviewed parameter is gone: more than an addition
		}
	}
	return !old[names[k]]
}
