package main

import (
	"bytes"
	"fmt"
	"go/ast"
	"go/printer"
	"go/token"
	"go/types"
	"os"
	"path/filepath"
	"sort"
	"strings"
)

// Result instead of out-field. A reviewed method `func (r *T) m(args)` whose whole job is to set one field `r.F`
// may be rewritten as a function `func f(args) X` with the single call `r.F = f(args)`. The rules that read such a
// method are written over the stores to F (their values and the conditions they are made under), so the reviewed
// shape is restored at source level through the loader's overlay, before anything else looks:
//
//	func f(args) X { … return e … }      =>   func (__fpo *T) m(args) { … { __fpo.F = e; return } … }
//	r.F = f(args)                        =>   r.m(args)
//
// The two programs do the same thing: `e` is evaluated where it was, the store happens right after it with nothing
// in between, and `r` is a local variable that `f` cannot reassign. Only when f is new (not in the reviewed table),
// unexported, has no receiver, one unnamed result of exactly the field's type, no defer and no goto/labels around the
// returns; is mentioned once in its package, as the sole right-hand side of a plain assignment to `r.F`; and exactly
// one reviewed method of T has disappeared that took the same parameters, returned nothing and assigned exactly F.

// declWrites: fields of the receiver that the body assigns directly (`r.F = …`, `r.F op= …`, `r.F++`), sorted.
func declWrites(fd *ast.FuncDecl) []string {
	if fd.Recv == nil || len(fd.Recv.List) == 0 || len(fd.Recv.List[0].Names) == 0 || fd.Body == nil {
		return nil
	}
	rn := fd.Recv.List[0].Names[0].Name
	set := map[string]bool{}
	note := func(e ast.Expr) {
		if s, ok := ast.Unparen(e).(*ast.SelectorExpr); ok {
			if id, ok := ast.Unparen(s.X).(*ast.Ident); ok && id.Name == rn {
				set[s.Sel.Name] = true
			}
		}
	}
	ast.Inspect(fd.Body, func(n ast.Node) bool {
		switch x := n.(type) {
		case *ast.AssignStmt:
			for _, l := range x.Lhs {
				note(l)
			}
		case *ast.IncDecStmt:
			note(x.X)
		}
		return true
	})
	var out []string
	for k := range set {
		out = append(out, k)
	}
	sort.Strings(out)
	return out
}

func restoreOutFields(c *Ctx, known map[string]bool) (out map[string][]byte, notes []string) {
	defer func() {
		if p := recover(); p != nil {
			out = nil
			notes = append(notes, fmt.Sprintf("restoring out-field methods abandoned (internal error: %v)", p))
		}
	}()
	inMod := func(path string) bool {
		return (path == modPath || strings.HasPrefix(path, modPath+"/")) && !strings.Contains(path, "/zz_ref_")
	}
	type fileEdits struct {
		file  *ast.File
		edits []textEdit
	}
	perFile := map[string]*fileEdits{}
	for _, p := range c.Pkgs {
		if !inMod(p.PkgPath) || p.TypesInfo == nil {
			continue
		}
		text := func(n ast.Node) string {
			var buf bytes.Buffer
			printer.Fprint(&buf, c.Fset, n)
			return buf.String()
		}
		present := map[string]bool{}
		type cand struct {
			fd   *ast.FuncDecl
			file *ast.File
			rel  string
			obj  *types.Func
		}
		var fresh []cand
		relOf := map[*ast.File]string{}
		for _, f := range p.Syntax {
			rel, err := filepath.Rel(c.Cfg.Dir, filepath.Dir(c.Fset.Position(f.Pos()).Filename))
			if err != nil || strings.HasPrefix(rel, "..") {
				continue
			}
			relOf[f] = rel
			for _, d := range f.Decls {
				fd, ok := d.(*ast.FuncDecl)
				if !ok {
					continue
				}
				k := funcDeclKey(rel, fd)
				present[k] = true
				if known[k] || fd.Body == nil || fd.Recv != nil || fd.Name.IsExported() || fd.Type.TypeParams != nil {
					continue
				}
				if fd.Type.Results == nil || len(fd.Type.Results.List) < 1 || len(fd.Type.Results.List) > 2 {
					continue
				}
				named := false
				for _, rf := range fd.Type.Results.List {
					if len(rf.Names) != 0 {
						named = true
					}
				}
				if named {
					continue
				}
				obj, _ := p.TypesInfo.Defs[fd.Name].(*types.Func)
				if obj != nil {
					fresh = append(fresh, cand{fd, f, rel, obj})
				}
			}
		}
		if len(fresh) == 0 {
			continue
		}
		// uses of each candidate
		uses := map[*types.Func][]*ast.Ident{}
		for id, o := range p.TypesInfo.Uses {
			if fo, ok := o.(*types.Func); ok {
				uses[fo] = append(uses[fo], id)
			}
		}
		taken := map[string]bool{}
		for _, cd := range fresh {
			us := uses[cd.obj]
			if len(us) != 1 {
				continue
			}
			// the assignment that holds the use: `r.F = f(args)`, or `v, err := f(args); if err != nil { return … }; r.F = v`
			var asg *ast.AssignStmt
			var inFile *ast.File
			var store *ast.AssignStmt // the statement that stores the field (asg itself in the first form)
			var errLhs *ast.Ident
			for _, f := range p.Syntax {
				if us[0].Pos() < f.Pos() || us[0].End() > f.End() {
					continue
				}
				inFile = f
				ast.Inspect(f, func(n ast.Node) bool {
					var list []ast.Stmt
					switch x := n.(type) {
					case *ast.BlockStmt:
						list = x.List
					case *ast.CaseClause:
						list = x.Body
					case *ast.CommClause:
						list = x.Body
					default:
						return true
					}
					for i, st := range list {
						a, ok := st.(*ast.AssignStmt)
						if !ok || len(a.Rhs) != 1 {
							continue
						}
						call, ok := ast.Unparen(a.Rhs[0]).(*ast.CallExpr)
						if !ok {
							continue
						}
						if id, ok := ast.Unparen(call.Fun).(*ast.Ident); !ok || id != us[0] {
							continue
						}
						if a.Tok == token.ASSIGN && len(a.Lhs) == 1 {
							asg, store = a, a
							continue
						}
						if len(a.Lhs) != 2 || i+2 >= len(list) {
							continue
						}
						v, ok1 := a.Lhs[0].(*ast.Ident)
						e, ok2 := a.Lhs[1].(*ast.Ident)
						if !ok1 || !ok2 || v.Name == "_" || e.Name == "_" {
							continue
						}
						vobj := p.TypesInfo.ObjectOf(v)
						eobj := p.TypesInfo.ObjectOf(e)
						if vobj == nil || eobj == nil || p.TypesInfo.Defs[v] == nil {
							continue
						}
						// `if err != nil { …; return … }` with no else, no init, not mentioning v
						iff, ok := list[i+1].(*ast.IfStmt)
						if !ok || iff.Init != nil || iff.Else != nil || len(iff.Body.List) == 0 {
							continue
						}
						be, ok := ast.Unparen(iff.Cond).(*ast.BinaryExpr)
						if !ok || be.Op != token.NEQ {
							continue
						}
						cx, okx := ast.Unparen(be.X).(*ast.Ident)
						cy, oky := ast.Unparen(be.Y).(*ast.Ident)
						if !okx || !oky || p.TypesInfo.ObjectOf(cx) != eobj || cy.Name != "nil" || p.TypesInfo.ObjectOf(cy) != types.Universe.Lookup("nil") {
							continue
						}
						if _, isRet := iff.Body.List[len(iff.Body.List)-1].(*ast.ReturnStmt); !isRet {
							continue
						}
						st2, ok := list[i+2].(*ast.AssignStmt)
						if !ok || st2.Tok != token.ASSIGN || len(st2.Lhs) != 1 || len(st2.Rhs) != 1 {
							continue
						}
						rv, ok := ast.Unparen(st2.Rhs[0]).(*ast.Ident)
						if !ok || p.TypesInfo.ObjectOf(rv) != vobj {
							continue
						}
						nuse := 0
						for id, o := range p.TypesInfo.Uses {
							if o == vobj && id != rv {
								nuse++
							}
						}
						if nuse != 0 {
							continue
						}
						asg, store, errLhs = a, st2, e
					}
					return true
				})
			}
			if asg == nil || inFile == nil {
				continue
			}
			twoRes := errLhs != nil
			if twoRes != (len(cd.fd.Type.Results.List) == 2) {
				continue
			}
			sel, ok := ast.Unparen(store.Lhs[0]).(*ast.SelectorExpr)
			if !ok {
				continue
			}
			rid, ok := ast.Unparen(sel.X).(*ast.Ident)
			if !ok {
				continue
			}
			rv, _ := p.TypesInfo.Uses[rid].(*types.Var)
			if rv == nil || rv.Parent() == nil || rv.Parent() == p.Types.Scope() || rv.IsField() {
				continue
			}
			rt := rv.Type()
			if pt, ok := rt.(*types.Pointer); ok {
				rt = pt.Elem()
			}
			nt, ok := rt.(*types.Named)
			if !ok || nt.Obj().Pkg() != p.Types {
				continue
			}
			st, ok := nt.Underlying().(*types.Struct)
			if !ok {
				continue
			}
			fsel := p.TypesInfo.Selections[sel]
			if fsel == nil || fsel.Kind() != types.FieldVal || len(fsel.Index()) != 1 {
				continue
			}
			fld := st.Field(fsel.Index()[0])
			sig := cd.obj.Type().(*types.Signature)
			if sig.Variadic() || !types.Identical(sig.Results().At(0).Type(), fld.Type()) {
				continue
			}
			if twoRes && !types.Identical(sig.Results().At(1).Type(), types.Universe.Lookup("error").Type()) {
				continue
			}
			call := ast.Unparen(asg.Rhs[0]).(*ast.CallExpr)
			if call.Ellipsis.IsValid() || len(call.Args) != sig.Params().Len() {
				continue
			}
			// the callee's body: plain returns only
			okBody := true
			var rets []*ast.ReturnStmt
			ast.Inspect(cd.fd.Body, func(n ast.Node) bool {
				switch x := n.(type) {
				case *ast.FuncLit:
					return false
				case *ast.DeferStmt, *ast.LabeledStmt:
					okBody = false
				case *ast.BranchStmt:
					if x.Tok == token.GOTO {
						okBody = false
					}
				case *ast.ReturnStmt:
					if len(x.Results) != sig.Results().Len() {
						okBody = false
					}
					rets = append(rets, x)
				case *ast.Ident:
					if x.Name == "__fpo" {
						okBody = false
					}
				}
				return true
			})
			if !okBody || len(rets) == 0 {
				continue
			}
			// the reviewed method that has disappeared
			typeName := nt.Obj().Name()
			if a, ok := recvAlias[cd.rel+"|"+typeName]; ok {
				typeName = a
			}
			fname := fld.Name()
			params, _, okSig := sigParts(declSig(c.Fset, cd.fd))
			if !okSig {
				continue
			}
			var match []string
			for k, info := range knownInfo {
				if !strings.HasPrefix(k, cd.rel+"|"+typeName+".") || present[k] || taken[k] {
					continue
				}
				op, or, ok := sigParts(info.Sig)
				if !ok || strings.Join(op, ",") != strings.Join(params, ",") {
					continue
				}
				if (!twoRes && len(or) != 0) || (twoRes && (len(or) != 1 || or[0] != "error")) {
					continue
				}
				if len(info.Writes) == 1 && info.Writes[0] == fname {
					match = append(match, k)
				}
			}
			if len(match) != 1 {
				continue
			}
			taken[match[0]] = true
			mname := match[0][strings.LastIndex(match[0], ".")+1:]
			// edits: declaration head, returns, call site
			tf := c.Fset.File(cd.file.Pos())
			fe := perFile[tf.Name()]
			if fe == nil {
				fe = &fileEdits{file: cd.file}
				perFile[tf.Name()] = fe
			}
			fe.edits = append(fe.edits, textEdit{tf.Offset(cd.fd.Name.Pos()), tf.Offset(cd.fd.Name.End()), "(__fpo *" + nt.Obj().Name() + ") " + mname})
			// with an error result: a return of (x, nil) is the success case the caller stores; a return of a freshly made
			// error is the case in which the caller returns before the store
			type retEdit struct{ text string }
			var retTexts []string
			okRets := true
			for _, r := range rets {
				if !twoRes {
					retTexts = append(retTexts, "{ __fpo."+fld.Name()+" = "+text(r.Results[0])+"; return }")
					continue
				}
				second := ast.Unparen(r.Results[1])
				if id, ok := second.(*ast.Ident); ok && id.Name == "nil" && p.TypesInfo.ObjectOf(id) == types.Universe.Lookup("nil") {
					retTexts = append(retTexts, "{ __fpo."+fld.Name()+" = "+text(r.Results[0])+"; return nil }")
					continue
				}
				nonNil := false
				if ce, ok := second.(*ast.CallExpr); ok {
					if se, ok := ast.Unparen(ce.Fun).(*ast.SelectorExpr); ok {
						if fo, ok := p.TypesInfo.Uses[se.Sel].(*types.Func); ok && (fo.FullName() == "fmt.Errorf" || fo.FullName() == "errors.New") {
							nonNil = true
						}
					}
				}
				pure := false
				switch x := ast.Unparen(r.Results[0]).(type) {
				case *ast.Ident:
					pure = true
				case *ast.BasicLit:
					pure = true
					_ = x
				}
				if !nonNil || !pure {
					okRets = false
					break
				}
				retTexts = append(retTexts, "return "+text(r.Results[1]))
			}
			if !okRets {
				delete(taken, match[0])
				continue
			}
			if twoRes {
				fe.edits = append(fe.edits, textEdit{tf.Offset(cd.fd.Type.Results.Pos()), tf.Offset(cd.fd.Type.Results.End()), "error"})
			} else {
				fe.edits = append(fe.edits, textEdit{tf.Offset(cd.fd.Type.Results.Pos()), tf.Offset(cd.fd.Type.Results.End()), ""})
			}
			for i, r := range rets {
				fe.edits = append(fe.edits, textEdit{tf.Offset(r.Pos()), tf.Offset(r.End()), retTexts[i]})
			}
			tf2 := c.Fset.File(inFile.Pos())
			fe2 := perFile[tf2.Name()]
			if fe2 == nil {
				fe2 = &fileEdits{file: inFile}
				perFile[tf2.Name()] = fe2
			}
			var args []string
			for _, a := range call.Args {
				args = append(args, text(a))
			}
			callText := rid.Name + "." + mname + "(" + strings.Join(args, ", ") + ")"
			if twoRes {
				op := " = "
				if p.TypesInfo.Defs[errLhs] != nil {
					op = " := "
				}
				fe2.edits = append(fe2.edits, textEdit{tf2.Offset(asg.Pos()), tf2.Offset(asg.End()), errLhs.Name + op + callText})
				fe2.edits = append(fe2.edits, textEdit{tf2.Offset(store.Pos()), tf2.Offset(store.End()), ""})
			} else {
				fe2.edits = append(fe2.edits, textEdit{tf2.Offset(asg.Pos()), tf2.Offset(asg.End()), callText})
			}
			notes = append(notes, fmt.Sprintf("%s|%s returns what the reviewed method %s stored in %s.%s; the reviewed shape (method storing the field) is restored", cd.rel, cd.fd.Name.Name, match[0], typeName, fname))
		}
	}
	if len(perFile) == 0 {
		return nil, nil
	}
	out = map[string][]byte{}
	for fname, fe := range perFile {
		src := c.Cfg.Overlay[fname]
		if src == nil {
			b, err := os.ReadFile(fname)
			if err != nil {
				return nil, []string{"cannot read " + fname}
			}
			src = b
		}
		res, err := applyEdits(src, fe.edits, nil, fe.file, c.Fset)
		if err != nil {
			return nil, []string{fmt.Sprintf("restoring out-field methods abandoned: %s: %v", fname, err)}
		}
		out[fname] = res
	}
	sort.Strings(notes)
	return out, notes
}
