package main

import (
	"go/token"
	"encoding/json"
	"fmt"
	"go/types"
	"os"
	"path/filepath"
	"sort"
	"strings"

	"golang.org/x/tools/go/ssa"
)

// A "site table" pins reviewed facts about labelled sites of the vendored HTTP/2 code: for each key (the
// repository's own label for the check, e.g. the CountError label) the error kind/code raised and the
// conditions under which the site is reached. The tables under /verif/spec were generated from the tree,
// read against RFC 7540/7541 and committed; a run compares the current tree with them.

type siteRow struct {
	Key   string
	Attrs []string
	I     ssa.Instruction
}

var specDir = "/verif/spec"
var genSpec = os.Getenv("FPCHECK_GEN_SPEC") != ""

func loadSpec(name string) (map[string][]string, error) {
	b, err := os.ReadFile(filepath.Join(specDir, name+".json"))
	if err != nil {
		return nil, err
	}
	m := map[string][]string{}
	if err := json.Unmarshal(b, &m); err != nil {
		return nil, err
	}
	return m, nil
}

// checkTable compares rows with the stored spec; one obligation per key.
// renumberRows makes the "#n" ordinals of rows that share a base key independent of source order: rows are numbered
// in the order of their attribute sets, so swapping two branches of an if/switch does not permute the keys.
func renumberRows(rows []siteRow, norm func([]string) []string) []siteRow {
	type ent struct {
		idx  int
		sort string
	}
	base := func(k string) (string, bool) {
		j := strings.LastIndex(k, "#")
		if j < 0 || j == len(k)-1 {
			return k, false
		}
		for _, ch := range k[j+1:] {
			if ch < '0' || ch > '9' {
				return k, false
			}
		}
		return k[:j], true
	}
	// identical reads of the same map entry (same writers before them) are one row
	{
		seen := map[string]bool{}
		var kept []siteRow
		for _, row := range rows {
			if b, ok := base(row.Key); ok && strings.Contains(b, " reads-map ") {
				k := b + "|" + strings.Join(row.Attrs, ";")
				if seen[k] {
					continue
				}
				seen[k] = true
			}
			kept = append(kept, row)
		}
		rows = kept
	}
	groups := map[string][]ent{}
	var order []string
	for i, row := range rows {
		b, ok := base(row.Key)
		if !ok {
			continue
		}
		if _, seen := groups[b]; !seen {
			order = append(order, b)
		}
		at := row.Attrs
		if norm != nil {
			at = norm(at)
		}
		at = append([]string{}, at...)
		sort.Strings(at)
		groups[b] = append(groups[b], ent{i, strings.Join(at, " ; ")})
	}
	out := append([]siteRow{}, rows...)
	drop := map[int]bool{}
	for _, b := range order {
		g := groups[b]
		sort.SliceStable(g, func(i, j int) bool { return g[i].sort < g[j].sort })
		// exits (returns, panics) with the same value: where the source has one `return x` under `a || b` or two
		// returns under `a` and `!a && b` is a matter of style; state them as one row with the disjunction
		if len(g) > 1 && (strings.Contains(b, " returns (") || strings.Contains(b, " panics ")) {
			// every row as a disjunction of conjunctions (its literals, crossed with the alternatives of its OR{…}
			// attributes); the union of all rows' alternatives, simplified, is the condition of the merged row
			var all [][]string
			okDNF := true
			for _, e := range g {
				alts := [][]string{{}}
				for _, a := range uniq(append([]string{}, out[e.idx].Attrs...)) {
					if strings.HasPrefix(a, "OR{") {
						sub, ok := parseOR(a)
						if !ok {
							okDNF = false
							break
						}
						var nx [][]string
						for _, x := range alts {
							for _, y := range sub {
								nx = append(nx, append(append([]string{}, x...), y...))
							}
						}
						alts = nx
					} else {
						for i := range alts {
							alts[i] = append(alts[i], a)
						}
					}
					if len(alts) > 32 {
						okDNF = false
						break
					}
				}
				if !okDNF {
					break
				}
				all = append(all, alts...)
			}
			if okDNF {
				attrs := renderDNF(all)
				out[g[0].idx].Key = b + "#1"
				out[g[0].idx].Attrs = attrs
				for _, e := range g[1:] {
					drop[e.idx] = true
				}
				continue
			}
		}
		for n, e := range g {
			out[e.idx].Key = fmt.Sprintf("%s#%d", b, n+1)
		}
	}
	if len(drop) > 0 {
		var kept []siteRow
		for i, r := range out {
			if !drop[i] {
				kept = append(kept, r)
			}
		}
		out = kept
	}
	return out
}

func checkTable(r *R, rule, name string, rows []siteRow, what string) {
	rows = renumberRows(rows, nil)
	if genSpec {
		m := map[string][]string{}
		for _, row := range rows {
			m[row.Key] = row.Attrs
		}
		b, _ := json.MarshalIndent(m, "", " ")
		os.MkdirAll(specDir, 0o755)
		os.WriteFile(filepath.Join(specDir, name+".json"), append(b, '\n'), 0o644)
		r.note("generated spec %s with %d rows", name, len(rows))
		return
	}
	spec, err := loadSpec(name)
	r.need(err == nil, "cannot read reviewed table %s: %v", name, err)
	seen := map[string]bool{}
	for _, row := range rows {
		seen[row.Key] = true
		o := r.Ob(rule, name+":"+row.Key).AtI(row.I)
		want, ok := spec[row.Key]
		if !ok {
			o.Fail("%s %q is not in the reviewed table %s (attributes: %s)", what, row.Key, name, strings.Join(row.Attrs, " ; "))
			continue
		}
		miss, extra := diffSets(want, row.Attrs)
		if len(miss) > 0 || len(extra) > 0 {
			o.Fail("%s %q deviates from the reviewed table: no longer holds/requires: %s; new: %s", what, row.Key, strings.Join(miss, " ; "), strings.Join(extra, " ; "))
		}
	}
	var keys []string
	for k := range spec {
		keys = append(keys, k)
	}
	sort.Strings(keys)
	for _, k := range keys {
		if !seen[k] {
			r.Ob(rule, name+":"+k).Fail("%s %q of the reviewed table %s no longer exists in the code (the check it stood for was removed or merged)", what, k, name)
		}
	}
}

func diffSets(want, got []string) (miss, extra []string) {
	w := map[string]int{}
	for _, x := range want {
		w[x]++
	}
	for _, x := range got {
		if w[x] > 0 {
			w[x]--
		} else {
			extra = append(extra, x)
		}
	}
	for k, n := range w {
		for i := 0; i < n; i++ {
			miss = append(miss, k)
		}
	}
	sort.Strings(miss)
	sort.Strings(extra)
	return
}

// reachConds: conditions under which block b is reached — the dominating branch conditions, plus, for a join of
// several branch edges, the disjunction of the joining edges.
func (c *Ctx) reachConds(b *ssa.BasicBlock) []string {
	out := c.guardStrs(b)
	if !useDomGuards && os.Getenv("FPCHECK_OLD_REACH") == "" {
		// the conditions under which b is reached, as a disjunction of conjunctions: what every path has in common,
		// and the alternatives in which the paths differ (simplified, see renderDNF)
		if alts := c.pathAlts(b); len(alts) > 0 {
			return renderDNF(alts)
		}
		return out
	}
	if len(b.Preds) == 1 && !useDomGuards && branchesOnFlag(b.Preds[0]) {
		// one incoming edge but several ways of getting there (the branch before it tested a flag that stands for a
		// disjunction): the alternatives themselves
		if _, residual := pathGuards(b); len(residual) > 1 {
			var alts []string
			for _, set := range residual {
				var lits []string
				for _, g := range set {
					lits = append(lits, c.guardStr(g))
				}
				sort.Strings(lits)
				alts = append(alts, "("+strings.Join(uniq(lits), " & ")+")")
			}
			sort.Strings(alts)
			alts = uniq(alts)
			trivial := false
			set := map[string]bool{}
			for _, a := range alts {
				set[a] = true
				if a == "()" {
					trivial = true
				}
			}
			for _, a := range alts {
				if !strings.Contains(a, " & ") && len(a) > 2 && set["("+negGuard(a[1:len(a)-1])+")"] {
					trivial = true
				}
			}
			if !trivial && len(alts) > 1 {
				out = append(out, "OR{"+strings.Join(alts, " | ")+"}")
			}
		}
		return out
	}
	if len(b.Preds) > 1 {
		base := map[string]bool{}
		for _, g := range out {
			base[g] = true
		}
		var alts []string
		for _, p := range b.Preds {
			var lits []string
			// what holds on the edge p→b (a branch on a flag reads as the conditions the flag stands for)
			for _, g := range edgeGuards(c, p, b) {
				if !base[g] {
					lits = append(lits, g)
				}
			}
			lits = uniq(lits)
			sort.Strings(lits)
			alts = append(alts, "("+strings.Join(lits, " & ")+")")
		}
		sort.Strings(alts)
		alts = uniq(alts)
		trivial := false
		set := map[string]bool{}
		for _, a := range alts {
			set[a] = true
			if a == "()" {
				trivial = true
			}
		}
		for _, a := range alts {
			if !strings.Contains(a, " & ") && len(a) > 2 && set["("+negGuard(a[1:len(a)-1])+")"] {
				trivial = true
			}
		}
		if !trivial {
			out = append(out, "OR{"+strings.Join(alts, " | ")+"}")
		}
	}
	return out
}

var _ = fmt.Sprint

// fieldWriteRows: every store to the given fields of named struct nt in fns, with stored value and reach conditions.
func fieldWriteRows(c *Ctx, fns []*ssa.Function, pkg, typ string, fields []string) []siteRow {
	nt := c.Named(pkg, typ)
	if nt == nil {
		return nil
	}
	var rows []siteRow
	count := map[string]int{}
	for _, f := range fields {
		acc := fieldAccesses(fns, nt, f)
		sort.SliceStable(acc, func(i, j int) bool { return acc[i].Instr.Pos() < acc[j].Instr.Pos() })
		for _, a := range acc {
			if a.Kind == "read" {
				continue
			}
			k := typ + "." + f + "@" + funcName(a.Fn)
			count[k]++
			key := fmt.Sprintf("%s#%d", k, count[k])
			var attrs []string
			if st, ok := a.Instr.(*ssa.Store); ok && a.Kind == "write" {
				attrs = append(attrs, "value "+c.Expr(st.Val), "target "+c.Expr(st.Addr))
			} else {
				attrs = append(attrs, "escapes "+a.Kind)
			}
			attrs = append(attrs, c.reachConds(a.Instr.Block())...)
			rows = append(rows, siteRow{key, attrs, a.Instr})
		}
	}
	return rows
}

// returnRows: every return of fn with its result expressions and reach conditions (pins a pure validation function's decision table).
func returnRows(c *Ctx, fn *ssa.Function) []siteRow {
	var rows []siteRow
	count := map[string]int{}
	for _, f := range withAnon(fn) {
		if f.Recover != nil {
			// skip synthetic recover block
		}
		eachInstr(f, func(i ssa.Instruction) {
			ret, ok := i.(*ssa.Return)
			if !ok || i.Block() == f.Recover {
				return
			}
			var emit func(vals []string, conds []string)
			emit = func(vals []string, conds []string) {
				// a returned min(x, y) / max(x, y) of two operands is the two returns it stands for (`if y < x { return y };
				// return x`): which of the spellings a function uses is not a difference
				if len(vals) == 1 {
					for _, kind := range []string{"min", "max"} {
						if strings.HasPrefix(vals[0], kind+"(") && strings.HasSuffix(vals[0], ")") {
							if ops := splitTop(vals[0][len(kind)+1 : len(vals[0])-1]); len(ops) == 2 {
								x, y := ops[0], ops[1]
								if kind == "max" {
									x, y = y, x
								}
								emit([]string{x}, append(append([]string{}, conds...), canonGuard(true, "("+x+" < "+y+")")))
								emit([]string{y}, append(append([]string{}, conds...), canonGuard(true, "("+y+" <= "+x+")")))
								return
							}
						}
					}
				}
				k := normRef(funcName(f) + " returns (" + strings.Join(vals, ", ") + ")")
				if len(k) > 300 {
					k = k[:300]
				}
				count[k]++
				key := fmt.Sprintf("%s#%d", k, count[k])
				rows = append(rows, siteRow{key, conds, i})
			}
			// a named result of a function with deferred calls lives in a cell: `n = a; break …` in one branch, `n = b` in
			// another, one `return n` — stated per store, like the separate `return a` / `return b` it stands for. Only
			// when the stores exclude each other and every way to the return passes one of them.
			nRet := 0
			for _, bb := range f.Blocks {
				if bb != f.Recover && len(bb.Instrs) > 0 {
					if _, isR := bb.Instrs[len(bb.Instrs)-1].(*ssa.Return); isR {
						nRet++
					}
				}
			}
			if len(ret.Results) >= 1 && nRet == 1 {
				cellAt := -1
				var cell *ssa.Alloc
				for k := range ret.Results {
					if u, ok := ret.Results[k].(*ssa.UnOp); ok && u.Op == token.MUL {
						if al, ok := u.X.(*ssa.Alloc); ok && k < f.Signature.Results().Len() && f.Signature.Results().At(k).Name() != "" && al.Comment == f.Signature.Results().At(k).Name() {
							var sts []*ssa.Store
							for _, rf := range *al.Referrers() {
								if st, ok := rf.(*ssa.Store); ok && st.Addr == ssa.Value(al) {
									sts = append(sts, st)
								}
							}
							if len(sts) >= 2 {
								if cellAt >= 0 {
									cellAt = -2
									break
								}
								cellAt, cell = k, al
							}
						}
					}
				}
				if os.Getenv("FPCHECK_DEBUG_CELL") != "" && strings.Contains(f.String(), os.Getenv("FPCHECK_DEBUG_CELL")) {
					println("CELL", f.String(), "cellAt", cellAt, "nRet", nRet, c.Expr(ret.Results[0]))
				}
				if cellAt >= 0 {
					var sts []*ssa.Store
					for _, rf := range *cell.Referrers() {
						if st, ok := rf.(*ssa.Store); ok && st.Addr == ssa.Value(cell) {
							sts = append(sts, st)
						}
					}
					// the zero value go/ssa stores on entry is what the others overwrite
					var real []*ssa.Store
					for _, st := range sts {
						if k, isC := st.Val.(*ssa.Const); isC && st.Block().Index == 0 && (k.Value == nil || k.IsNil() || constStr(k) == "0" || constStr(k) == `""` || constStr(k) == "false") {
							continue
						}
						if ld, isLoad := st.Val.(*ssa.UnOp); isLoad && ld.Op == token.MUL && ld.X == ssa.Value(cell) {
							continue // `return n` of the named result itself: stores what is there
						}
						real = append(real, st)
					}
					sts = real
					excl := len(sts) >= 2
					for a := range sts {
						for b := range sts {
							if a != b && (reachesAfter(sts[a], sts[b]) || sts[a].Block() == sts[b].Block()) {
								excl = false
							}
						}
					}
					isSt := func(j ssa.Instruction) bool {
						for _, st := range sts {
							if j == ssa.Instruction(st) {
								return true
							}
						}
						return false
					}
					if os.Getenv("FPCHECK_DEBUG_CELL") != "" && strings.Contains(f.String(), os.Getenv("FPCHECK_DEBUG_CELL")) {
						for _, st := range sts {
							println("CELL store", st.Block().Index, st.Block().Comment, c.Expr(st.Val))
						}
						println("CELL excl", excl, "nsts", len(sts), "esc", fmt.Sprint(c.escapePath(f, nil, isSt, func(j ssa.Instruction) bool { return j == i })))
					}
					if excl && c.escapePath(f, nil, isSt, func(j ssa.Instruction) bool { return j == i }) == nil {
						for _, st := range sts {
							var vals []string
							for k := range ret.Results {
								if k == cellAt {
									vals = append(vals, c.ExprAt(st.Val, st.Block()))
								} else {
									vals = append(vals, c.Expr(retValue(ret, k)))
								}
							}
							conds := c.reachConds(st.Block())
							sort.Strings(conds)
							emit(vals, uniq(conds))
						}
						return
					}
				}
			}
			// a result chosen on the way into the return block (`r := a; if c { r = b }; return r`) is stated per
			// incoming edge, like the separate `return a` / `return b` it stands for
			blk := i.Block()
			hasPhi := false
			for k := range ret.Results {
				if mentionsPhiOf(retValue(ret, k), blk, 0) {
					hasPhi = true
				}
			}
			if hasPhi && len(blk.Preds) > 1 {
				for pk, p := range blk.Preds {
					var vals []string
					for k := range ret.Results {
						vals = append(vals, c.ExprOnEdge(retValue(ret, k), blk, pk))
					}
					conds := c.edgeConds(p, blk)
					sort.Strings(conds)
					emit(vals, uniq(conds))
				}
				return
			}
			// a result that is a phi of a dominating block (`err := check(); if err != nil { return err }` after check
			// was expanded): one row per value it can have here, under the conditions of that value
			phiAt := -1
			for k := range ret.Results {
				if phi, ok := retValue(ret, k).(*ssa.Phi); ok && phi.Block() != blk && isThreaded(phi.Block()) {
					if phiAt >= 0 {
						phiAt = -2
						break
					}
					phiAt = k
				}
			}
			if phiAt >= 0 {
				cases := c.valueCases(retValue(ret, phiAt), blk)
				allResolved := len(cases) > 1
				for _, vc := range cases {
					if _, still := vc.V.(*ssa.Phi); still {
						allResolved = false
					}
				}
				if allResolved {
					for _, vc := range cases {
						var vals []string
						for k := range ret.Results {
							if k == phiAt {
								vals = append(vals, vc.E)
							} else {
								vals = append(vals, retExpr(c, ret, k))
							}
						}
						conds := append([]string{}, vc.Guards...)
						if vc.Conds != nil {
							conds = append([]string{}, vc.Conds...)
						}
						sort.Strings(conds)
						emit(vals, uniq(conds))
					}
					return
				}
			}
			var vals []string
			for k := range ret.Results {
				vals = append(vals, retExpr(c, ret, k))
			}
			emit(vals, c.reachConds(i.Block()))
		})
	}
	return rows
}

// callSiteRows: every call of the named functions inside fns, with rendered arguments and reach conditions.
func callSiteRows(c *Ctx, fns []*ssa.Function, callees ...string) []siteRow {
	var rows []siteRow
	count := map[string]int{}
	want := map[string]bool{}
	for _, n := range callees {
		want[n] = true
	}
	sorted := append([]*ssa.Function{}, fns...)
	sort.Slice(sorted, func(i, j int) bool { return funcName(sorted[i]) < funcName(sorted[j]) })
	for _, fn := range sorted {
		eachInstr(fn, func(i ssa.Instruction) {
			cc := callOf(i)
			if cc == nil || !want[calleeName(cc)] {
				return
			}
			k := calleeName(cc) + " called in " + funcName(fn)
			count[k]++
			var args []string
			for _, a := range callArgs(cc) {
				args = append(args, c.Expr(a))
			}
			kind := "call"
			switch i.(type) {
			case *ssa.Defer:
				kind = "defer"
			case *ssa.Go:
				kind = "go"
			}
			attrs := append([]string{kind + " args (" + strings.Join(args, ", ") + ")"}, c.reachConds(i.Block())...)
			// is the (boolean / error) result checked?
			if v, ok := i.(ssa.Value); ok && v.Referrers() != nil {
				used := false
				for _, rf := range *v.Referrers() {
					if _, isDbg := rf.(*ssa.DebugRef); !isDbg {
						used = true
					}
				}
				if sig := cc.Signature(); sig != nil && sig.Results().Len() > 0 {
					if used {
						attrs = append(attrs, "result used")
					} else {
						attrs = append(attrs, "result ignored")
					}
				}
			}
			rows = append(rows, siteRow{fmt.Sprintf("%s#%d", k, count[k]), attrs, i})
		})
	}
	return rows
}

// effectRows: the observable effects of fn — returns, stores to fields / elements / maps, calls into the module, panics —
// each with its operands and reach conditions. Used to pin reviewed data-structure surgery (scheduler queues, priority tree).
func effectRows(c *Ctx, fn *ssa.Function) []siteRow {
	rows := returnRows(c, fn)
	count := map[string]int{}
	add := func(kind, what string, i ssa.Instruction, extra ...string) {
		k := normRef(funcName(fn) + " " + kind + " " + what)
		if len(k) > 260 {
			k = k[:260]
		}
		count[k]++
		attrs := append(append([]string{}, extra...), c.reachConds(i.Block())...)
		if inLoop(i.Block()) {
			attrs = append(attrs, "in loop")
		}
		rows = append(rows, siteRow{fmt.Sprintf("%s#%d", k, count[k]), attrs, i})
	}
	for _, f := range withAnon(fn) {
		eachInstr(f, func(i ssa.Instruction) {
			switch x := i.(type) {
			case *ssa.Store:
				root := addrRoot(x.Addr)
				if al, ok := root.(*ssa.Alloc); ok && (al.Comment == "varargs" || !al.Heap && uniqueStore(al) != nil) {
					return
				}
				if _, ok := root.(*ssa.Alloc); ok {
					if _, isFA := x.Addr.(*ssa.FieldAddr); !isFA {
						if _, isIA := x.Addr.(*ssa.IndexAddr); !isIA {
							return // plain local variable
						}
					}
				}
				add("stores", c.Expr(x.Addr), i, "value "+c.ExprAt(x.Val, i.Block()))
			case *ssa.Lookup:
				if _, isMap := x.X.Type().Underlying().(*types.Map); !isMap {
					return
				}
				// a map read matters relative to what may have changed that map before it: record which preceding calls (or
				// direct updates) can write the same map, so that hoisting the read above such a step is visible, while
				// reading once into a local instead of three times, or earlier where nothing writes in between, is not
				mk := mapFieldKey(x.X)
				var before []string
				seenB := map[string]bool{}
				eachInstr(f, func(j ssa.Instruction) {
					if !reachesAfter(j, i) {
						return
					}
					n := ""
					switch y := j.(type) {
					case *ssa.MapUpdate:
						if mapFieldKey(y.Map) == mk {
							n = "map-set"
						}
					default:
						cc := callOf(j)
						if cc == nil {
							return
						}
						if calleeName(cc) == "builtin.delete" && mapFieldKey(cc.Args[0]) == mk {
							n = "map-delete"
						} else if g := staticCallee(cc); g != nil && mk != "" && mayWriteMap(c, g, mk, 0) {
							n = calleeName(cc)
						}
					}
					if n != "" && !seenB[n] {
						seenB[n] = true
						before = append(before, n)
					}
				})
				sort.Strings(before)
				k := normRef(funcName(fn) + " reads-map " + c.Expr(x.X) + "[" + c.Expr(x.Index) + "]")
				if len(k) > 260 {
					k = k[:260]
				}
				count[k]++
				rows = append(rows, siteRow{fmt.Sprintf("%s#%d", k, count[k]), []string{"may run after writers: " + strings.Join(before, ", ")}, i})
			case *ssa.MapUpdate:
				add("map-set", c.Expr(x.Map), i, "key "+c.Expr(x.Key), "value "+c.Expr(x.Value))
			case *ssa.Panic:
				add("panics", panicMessage(c, x), i)
			case *ssa.Call, *ssa.Defer, *ssa.Go:
				cc := callOf(i)
				n := calleeName(cc)
				if n == "builtin.delete" {
					add("map-delete", c.Expr(cc.Args[0]), i, "key "+c.Expr(cc.Args[1]))
					return
				}
				if n == "builtin.copy" {
					add("copies", c.Expr(cc.Args[0]), i, "from "+c.Expr(cc.Args[1]))
					return
				}
				if strings.HasPrefix(n, "builtin.") {
					return
				}
				if n == "" {
					n = "dyn:" + c.Expr(cc.Value)
				}
				if isLoggingCall(n) {
					return // diagnostics have no protocol effect: adding or rewording a log line is not a deviation
				}
				if debugTextOnly(normRef(n)) {
					return // String() of a frame/setting type: its value shows in the text it is used in
				}
				if _, isCall := i.(*ssa.Call); isCall && isPureStdValueCall(n) {
					return // computes a value from its arguments and nothing else: the value is rendered where it is used
				}
				if _, isCall := i.(*ssa.Call); isCall {
					if g := staticCallee(cc); g != nil && observerPure(c, g, 0) {
						return // a side-effect-free accessor: its value appears in the conditions and arguments that use it
					}
				}
				var args []string
				for _, a := range callArgs(cc) {
					args = append(args, c.ExprAt(a, i.Block()))
				}
				// a helper that only forwards to another function stands for that call
				if g := staticCallee(cc); g != nil {
					if n2, args2, ok := forwardedCall(c, g, args); ok {
						n, args = n2, args2
					}
				}
				add("calls", n, i, "args ("+strings.Join(args, ", ")+")")
			}
		})
	}
	return rows
}

func isLoggingCall(n string) bool {
	n = normRef(n)
	for _, suf := range []string{").vlogf", ").logf", ").condlogf", ".vlogf", ".logf"} {
		if strings.HasSuffix(n, suf) {
			return true
		}
	}
	switch n {
	case "log.Printf", "log.Println", "log.Print", "(*log.Logger).Printf", "(*log.Logger).Println", "(*log.Logger).Print", "http2.summarizeFrame":
		return true
	}
	return false
}

var observerPureMemo = map[*ssa.Function]int{}

// observerPure: a module function that only reads: no stores outside its own locals, no map updates, sends, goroutines,
// defers or panics, and it calls nothing but functions of the same kind (and len/cap/append-free builtins).
func observerPure(c *Ctx, g *ssa.Function, depth int) bool {
	if g == nil || g.Blocks == nil || !c.inModuleOrRef(g) || depth > 3 {
		return false
	}
	if v, ok := observerPureMemo[g]; ok {
		return v == 1
	}
	observerPureMemo[g] = 0
	pure := true
	eachInstr(g, func(i ssa.Instruction) {
		if !pure {
			return
		}
		switch x := i.(type) {
		case *ssa.Store:
			if _, ok := addrRoot(x.Addr).(*ssa.Alloc); !ok {
				pure = false
			}
		case *ssa.MapUpdate, *ssa.Send, *ssa.Go, *ssa.Defer, *ssa.Panic, *ssa.Select, *ssa.RunDefers:
			pure = false
		case *ssa.UnOp:
			if x.Op == token.ARROW {
				pure = false
			}
		case *ssa.Call:
			n := calleeName(&x.Call)
			switch n {
			case "builtin.len", "builtin.cap", "builtin.min", "builtin.max":
				return
			}
			if nn := normRef(n); nn == "(http2.goroutineLock).check" || nn == "(http2.goroutineLock).checkNotOn" {
				return // the debug-only goroutine assertion (DEBUG_HTTP2_GOROUTINES): no effect on the protocol
			}
			h := staticCallee(&x.Call)
			if h == nil || !observerPure(c, h, depth+1) {
				pure = false
			}
		}
	})
	if pure {
		observerPureMemo[g] = 1
	}
	return pure
}

// forwardedCall: g's body is one call whose arguments are g's parameters or constants (and nothing else happens):
// returns the inner callee and the arguments as seen from g's caller.
func forwardedCall(c *Ctx, g *ssa.Function, outerArgs []string) (string, []string, bool) {
	if g == nil || len(g.Blocks) != 1 || !c.inModuleOrRef(g) {
		return "", nil, false
	}
	var call *ssa.Call
	for _, i := range g.Blocks[0].Instrs {
		switch x := i.(type) {
		case *ssa.Call:
			if call != nil {
				return "", nil, false
			}
			call = x
		case *ssa.Return, *ssa.DebugRef, *ssa.Extract:
		default:
			return "", nil, false
		}
	}
	if call == nil || call.Call.IsInvoke() {
		return "", nil, false
	}
	n := calleeName(&call.Call)
	if n == "" || strings.HasPrefix(n, "builtin.") || isLoggingCall(n) {
		return "", nil, false
	}
	var args []string
	for _, a := range call.Call.Args {
		switch x := a.(type) {
		case *ssa.Parameter:
			idx := -1
			for k, p := range g.Params {
				if p == x {
					idx = k
				}
			}
			if idx < 0 || idx >= len(outerArgs) {
				return "", nil, false
			}
			args = append(args, outerArgs[idx])
		case *ssa.Const:
			args = append(args, c.Expr(x))
		default:
			return "", nil, false
		}
	}
	return n, args, true
}

// mapFieldKey: identity of a map held in a struct field (type and field name), "" for other maps.
func mapFieldKey(v ssa.Value) string {
	if u, ok := v.(*ssa.UnOp); ok && u.Op == token.MUL {
		if fa, ok := u.X.(*ssa.FieldAddr); ok {
			return normRef(typeName(deref(fa.X.Type()))) + "." + fieldName(fa.X.Type(), fa.Field)
		}
	}
	return ""
}

var mayWriteMapMemo = map[string]bool{}

// mayWriteMap: g, or a function it calls statically (depth 4), updates or deletes from the map field mk.
func mayWriteMap(c *Ctx, g *ssa.Function, mk string, depth int) bool {
	if g == nil || g.Blocks == nil || depth > 4 {
		return false
	}
	key := fmt.Sprintf("%p|%s", g, mk)
	if v, ok := mayWriteMapMemo[key]; ok {
		return v
	}
	mayWriteMapMemo[key] = false
	res := false
	for _, f := range withAnon(g) {
		eachInstr(f, func(i ssa.Instruction) {
			if res {
				return
			}
			switch y := i.(type) {
			case *ssa.MapUpdate:
				if mapFieldKey(y.Map) == mk {
					res = true
				}
			default:
				if cc := callOf(i); cc != nil {
					if calleeName(cc) == "builtin.delete" && mapFieldKey(cc.Args[0]) == mk {
						res = true
					} else if h := staticCallee(cc); h != nil && c.inModuleOrRef(h) && mayWriteMap(c, h, mk, depth+1) {
						res = true
					}
				}
			}
		})
	}
	mayWriteMapMemo[key] = res
	return res
}


// branchesOnFlag: the block ends in a branch on one of its own boolean phis (`a && b` evaluated as a value, a flag
// set on several paths).
func branchesOnFlag(p *ssa.BasicBlock) bool {
	if _, ok := boolPhiBranch(p); ok {
		return true
	}
	return isThreaded(p)
}


// isPureStdValueCall: a standard-library function that only computes a value from its arguments (no state, no I/O, no
// writes through its arguments). Such a call is not an effect of the function that makes it; which spelling of a
// conversion or comparison is used (`binary.BigEndian.AppendUint16` or two appended bytes, `strings.EqualFold` …)
// shows in the rendered value, not as a row.
func isPureStdValueCall(n string) bool {
	for _, p := range []string{
		"(encoding/binary.bigEndian).Uint", "(encoding/binary.bigEndian).AppendUint",
		"(encoding/binary.littleEndian).Uint", "(encoding/binary.littleEndian).AppendUint",
		"strings.", "strconv.", "unicode.", "unicode/utf8.", "math.", "math/bits.", "slices.Contains", "slices.Index", "slices.Equal",
		"bytes.Equal", "bytes.HasPrefix", "bytes.HasSuffix", "bytes.Index", "bytes.Contains", "bytes.Trim", "bytes.ToLower", "bytes.ToUpper", "bytes.Compare",
		"fmt.Sprintf", "fmt.Sprint", "fmt.Sprintln", "fmt.Errorf", "errors.New", "errors.Is", "errors.Unwrap",
		"net/http.CanonicalHeaderKey", "net/textproto.CanonicalMIMEHeaderKey", "net/textproto.TrimString",
	} {
		if strings.HasPrefix(n, p) {
			return true
		}
	}
	return false
}


// parseOR splits "OR{(a & b) | (c)}" into its alternatives and their literals (parenthesis-aware: literals contain
// parentheses, " & " and " | " of their own).
func parseOR(attr string) ([][]string, bool) {
	if !strings.HasPrefix(attr, "OR{") || !strings.HasSuffix(attr, "}") {
		return nil, false
	}
	body := attr[3 : len(attr)-1]
	var out [][]string
	i := 0
	for i < len(body) {
		if body[i] != '(' {
			return nil, false
		}
		depth, j := 0, i
		for ; j < len(body); j++ {
			switch body[j] {
			case '(', '[', '{':
				depth++
			case ')', ']', '}':
				depth--
			}
			if depth == 0 {
				break
			}
		}
		if j >= len(body) {
			return nil, false
		}
		group := body[i+1 : j]
		var lits []string
		d, from := 0, 0
		for k := 0; k < len(group); k++ {
			switch group[k] {
			case '(', '[', '{':
				d++
			case ')', ']', '}':
				d--
			}
			if d == 0 && strings.HasPrefix(group[k:], " & ") {
				lits = append(lits, group[from:k])
				from = k + 3
				k += 2
			}
		}
		if from <= len(group) && group[from:] != "" {
			lits = append(lits, group[from:])
		}
		out = append(out, lits)
		i = j + 1
		if strings.HasPrefix(body[i:], " | ") {
			i += 3
		} else if i < len(body) {
			return nil, false
		}
	}
	return out, len(out) > 0
}


// edgeConds: the conditions under which control takes the edge pred→succ, as common literals plus an OR{…} over what
// the alternatives differ in (the edge's counterpart of reachConds).
func (c *Ctx) edgeConds(pred, succ *ssa.BasicBlock) []string {
	alts := c.pathEdgeAlts(pred, succ)
	if len(alts) == 0 || useDomGuards {
		return edgeGuards(c, pred, succ)
	}
	return renderDNF(alts)
}

// renderDNF states a disjunction of conjunctions of rendered literals as attributes: the literals common to all
// alternatives, then one OR{(…) | (…)} over what is left of each. Before that each alternative loses what its own
// equalities imply (`5 == x` makes `2 != x` redundant: which other cases a switch tried first does not matter), and
// the disjunction is simplified (absorbAlts). An alternative that ends up empty makes the whole condition "always".
func renderDNF(in [][]string) []string {
	var alts [][]string
	for _, a := range in {
		x := dropImplied(uniq(append([]string{}, a...)))
		sort.Strings(x)
		alts = append(alts, x)
	}
	alts = absorbAlts(alts)
	if len(alts) == 0 {
		return nil
	}
	for _, a := range alts {
		if len(a) == 0 {
			return nil
		}
	}
	cnt := map[string]int{}
	for _, a := range alts {
		for _, l := range a {
			cnt[l]++
		}
	}
	var out []string
	for l, n := range cnt {
		if n == len(alts) {
			out = append(out, l)
		}
	}
	sort.Strings(out)
	var rests []string
	trivial := false
	for _, a := range alts {
		var rest []string
		for _, l := range a {
			if cnt[l] != len(alts) {
				rest = append(rest, l)
			}
		}
		if len(rest) == 0 {
			trivial = true
		}
		rests = append(rests, "("+strings.Join(rest, " & ")+")")
	}
	sort.Strings(rests)
	rests = uniq(rests)
	if !trivial && len(rests) > 1 {
		out = append(out, "OR{"+strings.Join(rests, " | ")+"}")
	}
	return out
}

// dropImplied removes from a conjunction the disequalities with constants that an equality with another constant
// in the same conjunction implies.
func dropImplied(lits []string) []string {
	isConst := func(t string) bool {
		if t == "" {
			return false
		}
		if t[0] == '"' || t == "nil" || t == "true" || t == "false" {
			return true
		}
		for i, ch := range t {
			if !(ch >= '0' && ch <= '9') && !(i == 0 && ch == '-') {
				return false
			}
		}
		return true
	}
	eq := map[string]string{} // expression -> constant it equals
	for _, l := range lits {
		if !strings.HasPrefix(l, "+") {
			continue
		}
		if a, op, b, ok := splitCmp(l[1:]); ok && op == "==" {
			if isConst(a) && !isConst(b) {
				eq[b] = a
			} else if isConst(b) && !isConst(a) {
				eq[a] = b
			}
		}
	}
	if len(eq) == 0 {
		return lits
	}
	var out []string
	for _, l := range lits {
		if strings.HasPrefix(l, "+") {
			if a, op, b, ok := splitCmp(l[1:]); ok && op == "!=" {
				if isConst(a) && !isConst(b) {
					if k, has := eq[b]; has && k != a && k != "nil" {
						continue
					}
				} else if isConst(b) && !isConst(a) {
					if k, has := eq[a]; has && k != b && k != "nil" {
						continue
					}
				}
			}
		}
		out = append(out, l)
	}
	return out
}
