package main

import (
	"bytes"
	"go/ast"
	"go/printer"
	"go/token"
	"path/filepath"
	"sort"
	"strconv"
	"strings"
)

// Function literals. go/ssa names them parent$1, parent$2, … in the order it meets them, and the reviewed tables, the
// reviewed channel operations and some anchors carry those names. A literal added in front of a reviewed one (a deferred
// logging closure, a helper with a closure expanded in place) would shift every later number. The reviewed table
// therefore records, per declaration, the literals in source order (signature and a fingerprint of what they call); when
// the literals of the tree at hand do not pair off one to one with the reviewed ones, they are aligned (longest common
// subsequence over "same signature, similar fingerprint"): a literal that pairs with reviewed literal j keeps the name
// parent$j, a literal that pairs with none is named parent$n1, parent$n2, …

type knownLit struct {
	Sig   string     `json:"sig"`
	Calls []string   `json:"calls,omitempty"`
	Lits  []knownLit `json:"lits,omitempty"`
}

// directLits: the function literals in n that are not nested in another literal, in source order.
func directLits(n ast.Node) []*ast.FuncLit {
	var out []*ast.FuncLit
	if n == nil {
		return nil
	}
	ast.Inspect(n, func(x ast.Node) bool {
		if fl, ok := x.(*ast.FuncLit); ok {
			out = append(out, fl)
			return false
		}
		return true
	})
	sort.SliceStable(out, func(i, j int) bool { return out[i].Pos() < out[j].Pos() })
	return out
}

// litSig: the literal's parameter and result types (names left out: renaming a parameter does not make another literal).
func litSig(fset *token.FileSet, fl *ast.FuncLit) string {
	part := func(l *ast.FieldList) string {
		if l == nil {
			return ""
		}
		var ts []string
		for _, f := range l.List {
			var buf bytes.Buffer
			printer.Fprint(&buf, fset, f.Type)
			t := strings.Join(strings.Fields(buf.String()), " ")
			n := len(f.Names)
			if n == 0 {
				n = 1
			}
			for i := 0; i < n; i++ {
				ts = append(ts, t)
			}
		}
		return strings.Join(ts, ",")
	}
	return "(" + part(fl.Type.Params) + ")(" + part(fl.Type.Results) + ")"
}

func litCalls(fl *ast.FuncLit) []string {
	return declCalls(&ast.FuncDecl{Name: ast.NewIdent("_"), Type: fl.Type, Body: fl.Body})
}

func declLits(fset *token.FileSet, body ast.Node) []knownLit {
	var out []knownLit
	for _, fl := range directLits(body) {
		out = append(out, knownLit{Sig: litSig(fset, fl), Calls: litCalls(fl), Lits: declLits(fset, fl.Body)})
	}
	return out
}

// litAlias: literal -> the part of its name after the parent's "$" (only for literals whose number would differ).
var litAlias = map[*ast.FuncLit]string{}

func computeLitAliases(c *Ctx) (notes []string) {
	litAlias = map[*ast.FuncLit]string{}
	if knownInfo == nil {
		return nil
	}
	for _, p := range c.Pkgs {
		if !(p.PkgPath == modPath || strings.HasPrefix(p.PkgPath, modPath+"/")) || strings.Contains(p.PkgPath, "/zz_ref_") {
			continue
		}
		for _, f := range p.Syntax {
			rel, err := filepath.Rel(c.Cfg.Dir, filepath.Dir(c.Fset.Position(f.Pos()).Filename))
			if err != nil || strings.HasPrefix(rel, "..") {
				continue
			}
			for _, d := range f.Decls {
				fd, ok := d.(*ast.FuncDecl)
				if !ok || fd.Body == nil {
					continue
				}
				info, has := knownInfo[funcDeclKey(rel, fd)]
				if !has {
					continue
				}
				if alignLits(c.Fset, fd.Body, info.Lits) {
					notes = append(notes, "function literals of "+funcDeclKey(rel, fd)+" do not pair off with the reviewed ones in order; they keep their reviewed numbers where they pair, new ones are named $n…")
				}
			}
		}
	}
	sort.Strings(notes)
	return notes
}

// alignLits names the direct literals of body after the reviewed ones; reports whether any name differs from the default.
func alignLits(fset *token.FileSet, body ast.Node, rev []knownLit) bool {
	cur := directLits(body)
	if len(cur) == 0 {
		return false
	}
	jac := func(a, b []string) float64 {
		if len(a) == 0 && len(b) == 0 {
			return 1
		}
		set := map[string]bool{}
		for _, x := range a {
			set[x] = true
		}
		inter := 0
		for _, x := range b {
			if set[x] {
				inter++
			}
		}
		return float64(inter) / float64(len(a)+len(b)-inter)
	}
	sigs := make([]string, len(cur))
	calls := make([][]string, len(cur))
	for i, fl := range cur {
		sigs[i], calls[i] = litSig(fset, fl), litCalls(fl)
	}
	match := func(i, j int) bool { return sigs[i] == rev[j].Sig && jac(calls[i], rev[j].Calls) >= 0.5 }
	pair := make([]int, len(cur)) // reviewed index or -1
	identity := len(cur) == len(rev)
	for i := range cur {
		pair[i] = -1
		if identity && !match(i, i) {
			identity = false
		}
	}
	changed := false
	if identity {
		for i := range cur {
			pair[i] = i
		}
	} else {
		// longest common subsequence
		n, m := len(cur), len(rev)
		L := make([][]int, n+1)
		for i := range L {
			L[i] = make([]int, m+1)
		}
		for i := n - 1; i >= 0; i-- {
			for j := m - 1; j >= 0; j-- {
				if match(i, j) {
					L[i][j] = L[i+1][j+1] + 1
				} else if L[i+1][j] >= L[i][j+1] {
					L[i][j] = L[i+1][j]
				} else {
					L[i][j] = L[i][j+1]
				}
			}
		}
		for i, j := 0, 0; i < n && j < m; {
			if match(i, j) && L[i][j] == L[i+1][j+1]+1 {
				pair[i] = j
				i++
				j++
			} else if L[i+1][j] >= L[i][j+1] {
				i++
			} else {
				j++
			}
		}
		fresh := 0
		for i, fl := range cur {
			if pair[i] >= 0 {
				if pair[i] != i {
					litAlias[fl] = strconv.Itoa(pair[i] + 1)
					changed = true
				}
			} else {
				fresh++
				litAlias[fl] = "n" + strconv.Itoa(fresh)
				changed = true
			}
		}
	}
	for i, fl := range cur {
		var sub []knownLit
		if pair[i] >= 0 {
			sub = rev[pair[i]].Lits
		}
		if alignLits(fset, fl.Body, sub) {
			changed = true
		}
	}
	return changed
}
