package main

import (
	"go/types"
	"strings"

	"golang.org/x/tools/go/ssa"
)

var h2frameFields = []string{"Settings", "WindowUpdateIncrement", "Priorities", "Headers"}

func init() {
	register("C07", false,
		ruleDef{"C07.R1", c07r1},
		ruleDef{"C07.R2", c07r2},
		ruleDef{"C07.R3", c07r3},
		ruleDef{"C07.R4", c07r4},
		// lower bound of the window: the header is rendered for each request when it is forwarded, never remembered from an earlier one
		ruleDef{"C07.R5", func(r *R) { injectedValueProvenance(r, "C07.R5") }},
		ruleDef{"C07.R6", func(r *R) { lockNotReentered(r, "C07.R6", false) }},
		// upper bound of the window: a request's own HEADERS frame is recorded before the handler that serves it can
		// be started (shared with C03)
		ruleDef{"C03.R1", c03r1},
	)
}

// lockKeyFor: the mutex access path guarding a field address of HTTP2FingerprintingFrames.
// The struct embeds its mutex, so for field address X.F the lock is X.RWMutex (or X.<mutex field>).
func h2framesMutexField(r *R) string {
	nt := r.C.Named("pkg/metadata", "HTTP2FingerprintingFrames")
	r.need(nt != nil, "metadata.HTTP2FingerprintingFrames not found")
	st := nt.Underlying()
	for i := 0; i < structNumFields(st); i++ {
		f := structField(st, i)
		tn := typeName(f.Type())
		if tn == "sync.RWMutex" || tn == "sync.Mutex" {
			return f.Name()
		}
	}
	return ""
}

func c07r1(r *R) {
	c := r.C
	nt := c.Named("pkg/metadata", "HTTP2FingerprintingFrames")
	r.need(nt != nil, "metadata.HTTP2FingerprintingFrames not found")
	mf := h2framesMutexField(r)
	if mf == "" {
		r.Ob("C07.R1", "mutex-field").At(nt.Obj().Pos()).Fail("HTTP2FingerprintingFrames has no mutex: its fields are written by the serve goroutine (processFrame) and read by handler goroutines (Marshal) without synchronisation")
	}
	held := map[*ssa.Function]map[ssa.Instruction]lockSet{}
	n := 0
	// every field of the shared per-connection struct (not only the four known today): a scratch buffer or cache added
	// to it is connection data read and written by concurrent handlers just the same
	fields := append([]string{}, h2frameFields...)
	if st, ok := nt.Underlying().(*types.Struct); ok {
		for i := 0; i < st.NumFields(); i++ {
			fn := fieldName(nt, i)
			known := false
			for _, k := range fields {
				if k == fn {
					known = true
				}
			}
			if !known && fn != mf && !strings.HasSuffix(typeName(st.Field(i).Type()), "sync.RWMutex") && !strings.HasSuffix(typeName(st.Field(i).Type()), "sync.Mutex") {
				fields = append(fields, fn)
			}
		}
	}
	for _, f := range fields {
		for _, a := range fieldAccesses(c.FuncsIn(), nt, f) {
			if strings.HasPrefix(a.Kind, "addr:") && a.Kind != "addr:stored" {
				// address passed to a call etc.: treat as read+write escape
			}
			n++
			base := "?"
			switch x := a.Addr.(type) {
			case *ssa.FieldAddr:
				base = c.Expr(x.X)
			}
			if a.Addr == nil {
				if fl, ok := a.Instr.(*ssa.Field); ok {
					base = c.Expr(fl.X)
				}
			}
			key := base + "." + mf
			if held[a.Fn] == nil {
				held[a.Fn] = c.locksHeld(a.Fn)
			}
			ls := held[a.Fn][a.Instr]
			o := r.Ob("C07.R1", "guarded:"+funcName(a.Fn)+":"+f+":"+a.Kind).AtI(a.Instr)
			mode := ls[key]
			need := "R"
			if a.Kind != "read" {
				need = "W"
			}
			ok := mode == "W" || (need == "R" && mode == "R")
			if !ok && base == "p0" {
				// one level of summary: every caller holds the lock on the receiver
				ok = callersHold(c, a.Fn, mf, need)
			}
			if !ok {
				o.Fail("%s of HTTP2Frames.%s without holding %s (%s needed); locks held here: %v", a.Kind, f, key, map[string]string{"R": "shared or exclusive", "W": "exclusive"}[need], ls)
			}
		}
	}
	r.Ob("C07.R1", "instances").Check(n >= 10, "expected >= 10 accesses to the captured-frame fields in the module, found %d", n)
}

// callersHold: every static call site of fn passes a receiver whose mutex is held in mode >= need.
func callersHold(c *Ctx, fn *ssa.Function, mf, need string) bool {
	n := 0
	ok := true
	for _, g := range c.FuncsIn() {
		var hl map[ssa.Instruction]lockSet
		eachInstr(g, func(i ssa.Instruction) {
			cc := callOf(i)
			if cc == nil || staticCallee(cc) != fn || len(cc.Args) == 0 {
				return
			}
			n++
			if hl == nil {
				hl = c.locksHeld(g)
			}
			m := hl[i][c.Expr(cc.Args[0])+"."+mf]
			if !(m == "W" || (need == "R" && m == "R")) {
				ok = false
			}
		})
	}
	return ok && n > 0
}

func isUnlockCall(i ssa.Instruction) bool {
	if _, ok := i.(*ssa.Call); !ok {
		return false
	}
	return isCall(i, "(*sync.RWMutex).Unlock", "(*sync.RWMutex).RUnlock", "(*sync.Mutex).Unlock")
}

func c07r2(r *R) {
	c := r.C
	pf := c.Method("pkg/http2", "serverConn", "processFrame")
	r.need(pf != nil, "processFrame not found")
	nt := c.Named("pkg/metadata", "HTTP2FingerprintingFrames")
	var sH, sP []ssa.Instruction
	for _, a := range fieldAccesses([]*ssa.Function{pf}, nt, "Headers") {
		if a.Kind == "write" {
			sH = append(sH, a.Instr)
		}
	}
	for _, a := range fieldAccesses([]*ssa.Function{pf}, nt, "Priorities") {
		if a.Kind == "write" {
			sP = append(sP, a.Instr)
		}
	}
	o := r.Ob("C07.R2", "headers+priority-one-critical-section:"+funcName(pf)).AtI(sH...)
	o.Check(len(sH) >= 1 && len(sP) >= 2, "expected the Headers store and two Priorities stores in processFrame, found %d/%d", len(sH), len(sP))
	for _, h := range sH {
		for _, p := range sP {
			if !reachesAfter(h, p) {
				continue
			}
			o.AtI(p)
			o.Check(!reachesAfterUnlock(pf, h, p), "the lock can be released between recording a HEADERS frame's fields (%s) and its priority (%s): a reader can see a torn mixture of two instants", c.Pos(instrPos(h)), c.Pos(instrPos(p)))
		}
	}
	// Marshal reads everything within one shared section: one lock acquisition, no explicit unlock before the last read
	m := c.Method("pkg/metadata", "HTTP2FingerprintingFrames", "Marshal")
	r.need(m != nil, "Marshal not found")
	o2 := r.Ob("C07.R2", "marshal-one-section:"+funcName(m)).At(m.Pos())
	nLock := 0
	var lockI ssa.Instruction
	eachInstr(m, func(i ssa.Instruction) {
		if _, ok := i.(*ssa.Call); ok && isCall(i, "(*sync.RWMutex).RLock", "(*sync.RWMutex).Lock", "(*sync.Mutex).Lock") {
			nLock++
			lockI = i
		}
	})
	if o2.Check(nLock == 1, "Marshal acquires the lock %d times (want one section covering all reads)", nLock) {
		o2.AtI(lockI)
		var reads []ssa.Instruction
		for _, f := range h2frameFields {
			for _, a := range fieldAccesses([]*ssa.Function{m}, nt, f) {
				reads = append(reads, a.Instr)
			}
		}
		for _, rd := range reads {
			p := c.escapePath(m, lockI, func(i ssa.Instruction) bool { return i == rd }, isUnlockCall)
			// an explicit unlock that can happen before this read
			if p != nil && reachesAfterUnlock(m, lockI, rd) {
				o2.AtI(rd).Fail("field read at %s can happen after an explicit unlock", c.Pos(instrPos(rd)))
			}
		}
		o2.Check(len(reads) >= 4, "expected reads of all four fields in Marshal, found %d", len(reads))
	}
}

// reachesAfterUnlock: exists an explicit unlock u with lock→u→rd ordering.
func reachesAfterUnlock(fn *ssa.Function, lock, rd ssa.Instruction) bool {
	found := false
	eachInstr(fn, func(i ssa.Instruction) {
		if isUnlockCall(i) && reachesAfter(lock, i) && reachesAfter(i, rd) {
			found = true
		}
	})
	return found
}

func c07r3(r *R) {
	c := r.C
	nt := c.Named("pkg/metadata", "HTTP2FingerprintingFrames")
	r.need(nt != nil, "type not found")
	writers := map[*ssa.Function]bool{}
	for _, f := range h2frameFields {
		for _, a := range fieldAccesses(c.Product(), nt, f) {
			if a.Kind != "read" {
				writers[a.Fn] = true
			}
		}
	}
	serve := c.Method("pkg/http2", "serverConn", "serve")
	r.need(serve != nil, "serverConn.serve not found")
	roots := goroutineRoots(c, proxyFuncs(c))
	reach := map[string]map[*ssa.Function]reachInfo{}
	for _, g := range roots {
		reach[g.key()] = c.reachable([]*ssa.Function{g.Fn}, false, nil)
	}
	n := 0
	for w := range writers {
		n++
		o := r.Ob("C07.R3", "writer-on-serve-goroutine:"+funcName(w)).At(w.Pos())
		// uses the repository's own annotation
		hasCheck := false
		eachInstr(w, func(i ssa.Instruction) {
			if isCall(i, "(http2.goroutineLock).check") {
				hasCheck = true
			}
		})
		o.Check(hasCheck, "%s writes the captured frames but does not assert sc.serveG.check()", funcName(w))
		for _, g := range roots {
			if _, ok := reach[g.key()][w]; ok {
				_, alsoServe := reach[g.key()][serve]
				o.Check(alsoServe, "writer %s is reachable from goroutine %s, which is not the connection's serve goroutine: %s", funcName(w), g.key(), c.pathTo(reach[g.key()], w))
			}
		}
	}
	r.Ob("C07.R3", "instances").Check(n >= 1, "no writer of the captured-frame fields found")
}

func c07r4(r *R) {
	c := r.C
	n := 0
	o := r.Ob("C07.R4", "no-in-place-mutation")
	for _, fn := range c.FuncsIn() {
		eachInstr(fn, func(i ssa.Instruction) {
			st, ok := i.(*ssa.Store)
			if !ok {
				return
			}
			ia, ok := st.Addr.(*ssa.IndexAddr)
			if !ok {
				// field of an element: &slice[i].F
				if fa, ok2 := st.Addr.(*ssa.FieldAddr); ok2 {
					ia, ok = fa.X.(*ssa.IndexAddr)
				}
				if !ok {
					return
				}
			}
			n++
			e := c.Expr(ia.X)
			for _, f := range []string{"Settings", "Priorities", "Headers"} {
				if strings.HasSuffix(e, ".HTTP2Frames."+f) || (strings.HasSuffix(e, "."+f) && strings.Contains(typeName(ia.X.Type()), "metadata.")) {
					o.AtI(i).Fail("element of the published slice HTTP2Frames.%s is overwritten in place in %s; readers holding the old slice header see it change", f, funcName(fn))
				}
			}
		})
	}
	o.OK("%d indexed stores scanned, none into a published capture slice", n)
	// published slices are fresh allocations or pure appends to the same field (append writes beyond len only)
	nt := c.Named("pkg/metadata", "HTTP2FingerprintingFrames")
	r.need(nt != nil, "type not found")
	for _, f := range []string{"Settings", "Priorities", "Headers"} {
		for _, a := range fieldAccesses(c.Product(), nt, f) {
			st, ok := a.Instr.(*ssa.Store)
			if a.Kind != "write" || !ok {
				continue
			}
			o2 := r.Ob("C07.R4", "fresh-or-append:"+f+":"+funcName(a.Fn)).AtI(st)
			if why := sliceProvenanceDefect(c, st.Val, f, 0, map[ssa.Value]bool{}, false); why != "" {
				o2.Fail("the slice published as HTTP2Frames.%s %s; a handler reading the previously published slice would see its elements overwritten", f, why)
			}
		}
	}
}

// sliceProvenanceDefect walks the definition of a slice value: ok if every origin is a fresh allocation / nil,
// or a load of the same field reached only through append (accumulate). Returns "" or the defect.
func sliceProvenanceDefect(c *Ctx, v ssa.Value, field string, depth int, seen map[ssa.Value]bool, sliced bool) string {
	if depth > 25 || seen[v] {
		return ""
	}
	seen[v] = true
	switch x := v.(type) {
	case *ssa.Const:
		return ""
	case *ssa.MakeSlice:
		return ""
	case *ssa.Alloc:
		return ""
	case *ssa.Phi:
		for _, e := range x.Edges {
			if d := sliceProvenanceDefect(c, e, field, depth+1, seen, sliced); d != "" {
				return d
			}
		}
		return ""
	case *ssa.Slice:
		if _, isAlloc := x.X.(*ssa.Alloc); isAlloc {
			return ""
		}
		return sliceProvenanceDefect(c, x.X, field, depth+1, seen, true)
	case *ssa.Call:
		if calleeName(&x.Call) == "builtin.append" {
			return sliceProvenanceDefect(c, x.Call.Args[0], field, depth+1, seen, sliced)
		}
		return "comes from call " + c.Expr(x)
	case *ssa.UnOp:
		e := c.Expr(x)
		if strings.HasSuffix(e, ".HTTP2Frames."+field) || strings.HasSuffix(e, "."+field) {
			if sliced {
				return "re-slices the previously published slice (" + e + "[...]) and so reuses its backing array"
			}
			return ""
		}
		return "aliases " + e
	case *ssa.ChangeType:
		return sliceProvenanceDefect(c, x.X, field, depth+1, seen, sliced)
	}
	return ""
}

// lockNotReentered: while a function of the product holds a mutex (read or write), it does not call — directly or
// through same-module callees — code that acquires the same mutex again. sync.RWMutex read locks are not re-entrant:
// a writer queued between the two RLock calls blocks the second one forever, and with it the connection's serve loop.
func lockNotReentered(r *R, rule string, withTransport bool) {
	c := r.C
	nHeld, nCalls := 0, 0
	for _, fn := range c.Product() {
		// the HTTP/2 client transport is not on any proxy path (the reverse proxy uses net/http's); only C12 speaks about it
		if f := c.Pos(fn.Pos()); !withTransport && (strings.HasPrefix(f, "pkg/http2/transport.go") || strings.HasPrefix(f, "pkg/http2/client_conn_pool.go")) {
			continue
		}
		var classOf map[string]string
		eachInstr(fn, func(i ssa.Instruction) {
			if call, ok := i.(*ssa.Call); ok {
				if op, ok := lockOps[calleeName(&call.Call)]; ok && op[0] == '+' {
					if classOf == nil {
						classOf = map[string]string{}
					}
					classOf[c.Expr(call.Call.Args[0])] = lockClass(c, &call.Call)
				}
			}
		})
		if classOf == nil {
			continue
		}
		nHeld++
		held := c.locksHeld(fn)
		eachInstr(fn, func(i ssa.Instruction) {
			call, ok := i.(*ssa.Call)
			if !ok || len(held[i]) == 0 {
				return
			}
			var acqs []lockAcq
			if op, ok := lockOps[calleeName(&call.Call)]; ok {
				if op[0] != '+' {
					return
				}
				acqs = []lockAcq{{Class: lockClass(c, &call.Call), Mode: op[1:], At: i, Via: funcName(fn)}}
			} else if g := staticCallee(&call.Call); g != nil && c.inModule(g) {
				acqs = c.mayAcquire(g, 4, map[*ssa.Function]bool{})
			} else {
				return
			}
			nCalls++
			for k, mode := range held[i] {
				for _, a := range acqs {
					if a.Class != "" && a.Class == classOf[k] {
						r.Ob(rule, "lock-reentry:"+funcName(fn)+":"+a.Class).AtI(i, a.At).Fail("%s holds %s (%s) and calls %s, which acquires the same mutex again (%s at %s): a writer queued in between deadlocks both, the connection's goroutines and socket are never released", funcName(fn), k, mode, a.Via, a.Mode, c.Pos(a.At.Pos()))
					}
				}
			}
		})
	}
	o := r.Ob(rule, "lock-reentry:instances")
	o.Check(nHeld >= 3, "expected >= 3 product functions that take a mutex, found %d", nHeld)
	o.OK("%d functions take a mutex; %d calls made while holding one were followed (depth 4), none re-acquires the held mutex", nHeld, nCalls)
}
