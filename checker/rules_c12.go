package main

import (
	"strings"

	"golang.org/x/tools/go/ssa"
)

func init() {
	register("C12", false,
		ruleDef{"C12.R1", c12r1},
		ruleDef{"C12.R2", c12r2},
		ruleDef{"C12.R3", c12r3},
		ruleDef{"C12.R5", c12r5},
		ruleDef{"C12.R6", c12r6},
		// a flow-control error edge must not re-acquire the connection mutex it is decided under (finding D7)
		ruleDef{"C12.R8", func(r *R) { lockNotReentered(r, "C12.R8", true) }},
	)
}

var flowFuncs = []string{"(*http2.outflow).take", "(*http2.outflow).add", "(*http2.outflow).available", "(*http2.outflow).setConnFlow",
	"(*http2.inflow).init", "(*http2.inflow).add", "(*http2.inflow).take", "http2.takeInflows"}

// R1: the window counters are encapsulated, and the counter primitives have the reviewed decision tables.
func c12r1(r *R) {
	c := r.C
	fns := c.FuncsIn("pkg/http2")
	rows := fieldWriteRows(c, fns, "pkg/http2", "outflow", []string{"n", "conn"})
	rows = append(rows, fieldWriteRows(c, fns, "pkg/http2", "inflow", []string{"avail", "unsent"})...)
	// who may write: only the primitives
	okWriter := map[string]bool{"(*http2.outflow).take": true, "(*http2.outflow).add": true, "(*http2.outflow).setConnFlow": true,
		"(*http2.inflow).init": true, "(*http2.inflow).add": true, "(*http2.inflow).take": true, "http2.takeInflows": true}
	for _, row := range rows {
		fn := row.I.Parent()
		if strings.HasPrefix(row.Key, "outflow.conn@") && (funcName(fn) == "(*http2.serverConn).newStream" || funcName(fn) == "(*http2.ClientConn).addStreamLocked") {
			continue // linking a new stream's window to its connection's window
		}
		r.Ob("C12.R1", "counter-writer:"+row.Key).AtI(row.I).Check(okWriter[funcName(fn)], "a flow-control window counter is written in %s, outside the take/add primitives (%s): the accounting the peer relies on can no longer be audited there", funcName(fn), strings.Join(row.Attrs[:2], "; "))
	}
	r.Ob("C12.R1", "instances").Check(len(rows) >= 8, "expected >= 8 counter writes, found %d", len(rows))
	for _, n := range flowFuncs {
		fn := lookupByName(c, n)
		r.need(fn != nil, "%s not found", n)
		rows = append(rows, returnRows(c, fn)...)
	}
	checkTable(r, "C12.R1", "h2_flow_primitives", rows, "flow-control primitive step")
}

func lookupByName(c *Ctx, full string) *ssa.Function {
	for _, f := range c.Funcs {
		if funcName(f) == full {
			return f
		}
	}
	return nil
}

// R2: DATA leaves only window-limited.
func c12r2(r *R) {
	c := r.C
	cons := c.Method("pkg/http2", "FrameWriteRequest", "Consume")
	r.need(cons != nil, "FrameWriteRequest.Consume not found")
	o := r.Ob("C12.R2", "consume-limits:"+funcName(cons)).At(cons.Pos())
	takes := callsIn(cons, "(*http2.outflow).take")
	if o.Check(len(takes) == 2, "Consume charges the window at %d sites, want 2 (whole frame / split frame)", len(takes)) {
		for _, t := range takes {
			o.AtI(t)
			amt := c.Expr(callOf(t).Args[1])
			rcv := c.Expr(callOf(t).Args[0])
			o.Check(strings.HasSuffix(rcv, ".stream.flow"), "window charged is %s, want the frame's own stream window (which chains to the connection window)", rcv)
			gs := c.guardStrs(t.Block())
			o.Check(hasGuardContaining(gs, "-", "<= 0)") || hasGuardContaining(gs, "+", "(0 < "), "DATA is charged although the allowance may be zero; guards %v", gs)
			_ = amt
		}
	}
	// the allowance is the minimum of the stream's available window (min of stream and conn), n, and maxFrameSize
	rows := returnRows(c, cons)
	rows = append(rows, callSiteRows(c, []*ssa.Function{cons}, "(*http2.outflow).take", "(*http2.outflow).available")...)
	av := c.Method("pkg/http2", "outflow", "available")
	r.need(av != nil, "outflow.available not found")
	rows = append(rows, returnRows(c, av)...)
	checkTable(r, "C12.R2", "h2_consume", rows, "DATA release step")
	// who may call outflow.take: Consume (server) and awaitFlowControl (transport)
	o2 := r.Ob("C12.R2", "who-charges-send-window")
	for _, fn := range c.FuncsIn("pkg/http2") {
		for _, s := range callsIn(fn, "(*http2.outflow).take") {
			ok := fn == cons || funcName(fn) == "(*http2.clientStream).awaitFlowControl"
			o2.AtI(s).Check(ok, "the send window is charged in %s", funcName(fn))
		}
	}
	// startFrameWrite only writes what the scheduler popped
	sfw := c.Method("pkg/http2", "serverConn", "scheduleFrameWrite")
	r.need(sfw != nil, "scheduleFrameWrite not found")
	o3 := r.Ob("C12.R2", "data-only-via-scheduler").At(sfw.Pos())
	for _, fn := range c.FuncsIn("pkg/http2") {
		for _, s := range callsIn(fn, "(*http2.serverConn).startFrameWrite") {
			o3.AtI(s).Check(fn == sfw, "startFrameWrite is called from %s", funcName(fn))
			e := c.Expr(callOf(s).Args[1])
			okSrc := strings.Contains(e, "(http2.WriteScheduler).Pop(") || strings.Contains(e, "writeSettingsAck") || strings.Contains(e, "writeGoAway") || strings.Contains(e, "&complit")
			o3.Check(okSrc, "startFrameWrite writes %s", e)
		}
	}
}

// R3/R4: peer overruns and window arithmetic results are checked.
func c12r3(r *R) {
	c := r.C
	var fns []*ssa.Function
	for _, f := range c.FuncsIn("pkg/http2") {
		if !strings.Contains(funcName(f), "outflow") && !strings.Contains(funcName(f), "inflow") && funcName(f) != "http2.takeInflows" {
			fns = append(fns, f)
		}
	}
	rows := callSiteRows(c, fns, "(*http2.inflow).take", "http2.takeInflows", "(*http2.outflow).add", "(*http2.inflow).add", "(*http2.inflow).init", "(*http2.outflow).setConnFlow")
	n := 0
	for _, row := range rows {
		peerOperand := strings.Contains(row.Key, "processWindowUpdate") || strings.Contains(row.Key, "(*http2.serverConn).processSettingInitialWindowSize")
		if strings.Contains(row.Key, ").take called") || strings.Contains(row.Key, "takeInflows called") || (strings.Contains(row.Key, "outflow).add called") && peerOperand) {
			n++
			used := false
			for _, a := range row.Attrs {
				if a == "result used" {
					used = true
				}
			}
			r.Ob("C12.R3", "result-checked:"+row.Key).AtI(row.I).Check(used, "the result of %s is ignored: an overrun of the advertised window / an overflowing window update would go unnoticed", row.Key)
		}
	}
	r.Ob("C12.R3", "instances").Check(n >= 8, "expected >= 8 take/add sites outside the primitives, found %d", n)
	checkTable(r, "C12.R3", "h2_flow_call_sites", rows, "flow-control call site")
}

// R5: every byte charged is refunded — call sites of the refund primitives with their amounts and conditions.
func c12r5(r *R) {
	c := r.C
	fns := c.FuncsIn("pkg/http2")
	rows := callSiteRows(c, fns, "(*http2.serverConn).sendWindowUpdate", "(*http2.serverConn).sendWindowUpdate32", "(*http2.serverConn).noteBodyRead", "(*http2.serverConn).noteBodyReadFromHandler")
	for _, nm := range []string{"sendWindowUpdate", "sendWindowUpdate32", "noteBodyRead", "noteBodyReadFromHandler", "processData", "processWindowUpdate", "processSettingInitialWindowSize"} {
		fn := c.Method("pkg/http2", "serverConn", nm)
		r.need(fn != nil, "serverConn.%s not found", nm)
		rows = append(rows, returnRows(c, fn)...)
	}
	rb := c.Method("pkg/http2", "requestBody", "Read")
	r.need(rb != nil, "requestBody.Read not found")
	rows = append(rows, returnRows(c, rb)...)
	// body pipe writes in processData
	pd := c.Method("pkg/http2", "serverConn", "processData")
	rows = append(rows, callSiteRows(c, []*ssa.Function{pd}, "(*http2.pipe).Write")...)
	r.Ob("C12.R5", "instances").Check(len(rows) >= 30, "expected >= 30 refund/accounting rows, found %d", len(rows))
	checkTable(r, "C12.R5", "h2_flow_refunds", rows, "window refund step")
	// path rule: in processData, on every path from the successful connection-level charge to a nil-error return, the bytes are either
	// refunded at connection level or handed to the body pipe
	o := r.Ob("C12.R5", "charged-bytes-are-refunded-or-delivered:"+funcName(pd)).At(pd.Pos())
	charges := callsIn(pd, "(*http2.inflow).take", "http2.takeInflows")
	o.Check(len(charges) >= 2, "expected >= 2 charge sites in processData")
	isRefund := func(i ssa.Instruction) bool {
		if isCall(i, "(*http2.serverConn).sendWindowUpdate", "(*http2.serverConn).sendWindowUpdate32") {
			return c.Expr(callOf(i).Args[1]) == "nil"
		}
		return isCall(i, "(*http2.pipe).Write")
	}
	for _, ch := range charges {
		o.AtI(ch)
		p := c.escapePath(pd, ch, isRefund, func(i ssa.Instruction) bool {
			ret, ok := i.(*ssa.Return)
			if !ok {
				return false
			}
			// only successful returns matter; and only on the edge where the charge succeeded
			if c.Expr(ret.Results[0]) != "nil" {
				return false
			}
			gs := c.guardStrs(i.Block())
			charged := hasGuardContaining(gs, "+", "take(") || hasGuardContaining(gs, "+", "takeInflows(")
			if !charged {
				return false
			}
			// zero-length frames charge nothing
			if hasGuard(gs, "-(0 < p1.FrameHeader.Length)") {
				return false
			}
			return true
		})
		o.Check(p == nil, "DATA bytes charged against the connection window are neither refunded nor delivered on a path that returns success: %v", p)
	}
}

// R6: the client transport's side of the same accounting.
func c12r6(r *R) {
	c := r.C
	var rows []siteRow
	for _, nm := range [][2]string{{"clientStream", "awaitFlowControl"}, {"clientConnReadLoop", "processData"}, {"clientConnReadLoop", "processWindowUpdate"}, {"clientConnReadLoop", "processSettingsNoWrite"}, {"transportResponseBody", "Read"}, {"transportResponseBody", "Close"}} {
		fn := c.Method("pkg/http2", nm[0], nm[1])
		r.need(fn != nil, "%s.%s not found", nm[0], nm[1])
		rows = append(rows, returnRows(c, fn)...)
		rows = append(rows, callSiteRows(c, withAnon(fn), "(*http2.inflow).take", "(*http2.inflow).add", "http2.takeInflows", "(*http2.outflow).take", "(*http2.outflow).add", "(*http2.Framer).WriteWindowUpdate",
			// writers parked on the window are woken when credit arrives: every waiter, on every credit
			"(*sync.Cond).Broadcast", "(*sync.Cond).Signal", "(*sync.Cond).Wait")...)
	}
	r.Ob("C12.R6", "instances").Check(len(rows) >= 30, "expected >= 30 transport flow-control rows, found %d", len(rows))
	checkTable(r, "C12.R6", "h2_flow_transport", rows, "transport flow-control step")
}

func init() {
	p := registry["C12"]
	p.Rules = append(p.Rules, ruleDef{"C12.R7", func(r *R) {
		forkSiblingRule(r, "C12.R7", "flow.go", "writesched.go", "server.go", "transport.go")
	}})
	wantRefs("C12")
}
