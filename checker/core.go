package main

import (
	"encoding/json"
	"fmt"
	"go/token"
	"os"
	"path/filepath"
	"runtime/debug"
	"sort"
	"strings"
	"time"

	"golang.org/x/tools/go/ssa"
)

// Verdict of one obligation.
type Verdict string

const (
	VOK        Verdict = "holds"
	VViolated  Verdict = "violated"
	VUndecided Verdict = "undecided"
)

// Ob is one obligation: a rule applied to one construct.
type Ob struct {
	Rule      string   `json:"rule"`
	Construct string   `json:"construct"`
	Verdict   Verdict  `json:"verdict"`
	Sites     []string `json:"sites,omitempty"`
	Detail    string   `json:"detail,omitempty"`
	Config    string   `json:"config,omitempty"`
	Known     bool     `json:"known_finding,omitempty"`
	r         *R
}

// R is the state of one property run over one configuration.
type R struct {
	C       *Ctx
	Prop    string
	Obs     []*Ob
	curRule string
	Notes   []string
	Assume  map[string]bool
}

type undecided struct{ msg string }

// Ob creates (or returns) the obligation rule×construct.
func (r *R) Ob(rule, construct string) *Ob {
	for _, o := range r.Obs {
		if o.Rule == rule && o.Construct == construct {
			return o
		}
	}
	o := &Ob{Rule: rule, Construct: construct, Verdict: VOK, r: r, Config: r.C.Cfg.Name}
	r.Obs = append(r.Obs, o)
	return o
}

func (o *Ob) At(pos ...token.Pos) *Ob {
	for _, p := range pos {
		if p.IsValid() {
			s := o.r.C.Pos(p)
			dup := false
			for _, e := range o.Sites {
				if e == s {
					dup = true
				}
			}
			if !dup {
				o.Sites = append(o.Sites, s)
			}
		}
	}
	return o
}

func (o *Ob) AtI(ins ...ssa.Instruction) *Ob {
	for _, i := range ins {
		if i != nil {
			o.At(instrPos(i))
		}
	}
	return o
}

func (o *Ob) OK(format string, a ...any) *Ob {
	if o.Verdict == VOK {
		if o.Detail != "" {
			o.Detail += "; "
		}
		o.Detail += fmt.Sprintf(format, a...)
	}
	return o
}

func (o *Ob) Fail(format string, a ...any) *Ob {
	msg := fmt.Sprintf(format, a...)
	if o.Verdict != VViolated {
		o.Verdict = VViolated
		o.Detail = msg
	} else {
		o.Detail += " | " + msg
	}
	return o
}

// Check fails the obligation unless cond holds.
func (o *Ob) Check(cond bool, format string, a ...any) bool {
	if !cond {
		o.Fail(format, a...)
	}
	return cond
}

func (o *Ob) Undecided(format string, a ...any) *Ob {
	if o.Verdict == VOK {
		o.Verdict = VUndecided
		o.Detail = fmt.Sprintf(format, a...)
	}
	return o
}

// need aborts the current rule as undecided (anchor missing etc).
func (r *R) need(cond bool, format string, a ...any) {
	if !cond {
		panic(undecided{fmt.Sprintf(format, a...)})
	}
}

func (r *R) note(format string, a ...any) {
	r.Notes = append(r.Notes, fmt.Sprintf(format, a...))
}

func (r *R) assume(s string) {
	if r.Assume == nil {
		r.Assume = map[string]bool{}
	}
	r.Assume[s] = true
}

// run executes one rule under recover; a panic in the rule or a missing
// anchor makes the rule undecided, which is reported as a violation (the
// property could not be established on this tree).
func (r *R) run(rule string, f func()) {
	r.curRule = rule
	defer func() {
		if x := recover(); x != nil {
			if u, ok := x.(undecided); ok {
				r.Ob(rule, "anchor").Undecided("%s", u.msg)
				return
			}
			st := string(debug.Stack())
			if len(st) > 1500 {
				st = st[:1500]
			}
			r.Ob(rule, "checker").Undecided("checker panic: %v\n%s", x, st)
		}
	}()
	f()
}

// ---------------------------------------------------------------- findings

type knownFinding struct {
	Status, Prop, Rule, Construct, Text string
}

func loadKnown(path string) []knownFinding {
	b, err := os.ReadFile(path)
	if err != nil {
		return nil
	}
	var out []knownFinding
	for _, ln := range strings.Split(string(b), "\n") {
		ln = strings.TrimSpace(ln)
		if ln == "" || strings.HasPrefix(ln, "#") {
			continue
		}
		var k knownFinding
		switch {
		case strings.HasPrefix(ln, "open:"):
			k.Status = "open"
			ln = strings.TrimSpace(ln[5:])
		case strings.HasPrefix(ln, "fixed:"):
			k.Status = "fixed"
			ln = strings.TrimSpace(ln[6:])
		default:
			continue
		}
		rest := []string{}
		for _, f := range strings.Fields(ln) {
			switch {
			case strings.HasPrefix(f, "property=") && k.Prop == "":
				k.Prop = f[9:]
			case strings.HasPrefix(f, "rule=") && k.Rule == "":
				k.Rule = f[5:]
			case strings.HasPrefix(f, "construct=") && k.Construct == "":
				k.Construct = f[10:]
			default:
				rest = append(rest, f)
			}
		}
		k.Text = strings.Join(rest, " ")
		out = append(out, k)
	}
	return out
}

// ---------------------------------------------------------------- evidence

type Evidence struct {
	PropertyID  string         `json:"property_id"`
	Tier        string         `json:"tier"`
	Seed        int            `json:"seed"`
	Level       string         `json:"level"`
	Coverage    map[string]any `json:"coverage"`
	Assumptions []string       `json:"assumptions"`
	WallS       float64        `json:"wall_s"`
	Violations  int            `json:"violations"`
}

type runResult struct {
	Prop    string
	Obs     []*Ob
	Notes   []string
	Assume  []string
	Configs []map[string]any
	Extra   map[string]any
	Start   time.Time
	Fatal   string
}

func writeJSON(path string, v any) error {
	b, err := json.MarshalIndent(v, "", " ")
	if err != nil {
		return err
	}
	os.MkdirAll(filepath.Dir(path), 0o755)
	return os.WriteFile(path, append(b, '\n'), 0o644)
}

// finish writes evidence, prints VIOLATION / KNOWN-FINDING lines and returns the exit code.
func finish(res *runResult, verifDir, tier string, seed int) int {
	known := loadKnown(filepath.Join(verifDir, "known_findings.txt"))
	evDir := filepath.Join(verifDir, "evidence")
	vioDir := filepath.Join(evDir, "violations")
	os.MkdirAll(vioDir, 0o755)
	// remove stale violation files for this property
	if ms, _ := filepath.Glob(filepath.Join(vioDir, res.Prop+"-*.json")); ms != nil {
		for _, m := range ms {
			os.Remove(m)
		}
	}
	sort.SliceStable(res.Obs, func(i, j int) bool {
		a, b := res.Obs[i], res.Obs[j]
		if a.Rule != b.Rule {
			return a.Rule < b.Rule
		}
		if a.Construct != b.Construct {
			return a.Construct < b.Construct
		}
		return a.Config < b.Config
	})
	nViol := 0
	nKnown := 0
	discharged := 0
	distinct := map[string]bool{}
	printedKnown := map[string]bool{}
	printedViol := map[string]string{}
	exit := 0
	for _, o := range res.Obs {
		key := o.Rule + "|" + o.Construct
		if len(o.Sites) > 0 || o.Verdict != VOK {
			distinct[key] = true
		}
		if o.Verdict == VOK {
			discharged++
			continue
		}
		// known finding?
		matched := false
		if o.Verdict == VViolated {
			for _, k := range known {
				if k.Status == "open" && k.Prop == res.Prop && k.Rule == o.Rule && k.Construct == o.Construct {
					matched = true
					o.Known = true
					if !printedKnown[key] {
						printedKnown[key] = true
						fmt.Printf("KNOWN-FINDING: property=%s rule=%s construct=%s %s\n", res.Prop, o.Rule, o.Construct, k.Text)
					}
				}
			}
		}
		if matched {
			nKnown++
			continue
		}
		nViol++
		exit = 1
		if p, ok := printedViol[key]; ok {
			_ = p
			continue
		}
		p := filepath.Join(vioDir, fmt.Sprintf("%s-%d.json", res.Prop, len(printedViol)+1))
		printedViol[key] = p
		writeJSON(p, map[string]any{
			"property": res.Prop, "rule": o.Rule, "construct": o.Construct, "verdict": o.Verdict,
			"sites": o.Sites, "detail": o.Detail, "config": o.Config,
			"explain": fmt.Sprintf("bin/fpcheck -property %s -explain %s", res.Prop, p),
		})
		site := ""
		if len(o.Sites) > 0 {
			site = o.Sites[0]
		}
		fmt.Printf("VIOLATION property=%s replay=%s\n", res.Prop, p)
		fmt.Printf("  rule=%s construct=%s verdict=%s at %s\n  %s\n", o.Rule, o.Construct, o.Verdict, site, firstLines(o.Detail, 12))
	}
	if res.Fatal != "" {
		exit = 1
		nViol++
		p := filepath.Join(vioDir, fmt.Sprintf("%s-fatal.json", res.Prop))
		writeJSON(p, map[string]any{"property": res.Prop, "rule": "loader", "verdict": "undecided", "detail": res.Fatal})
		fmt.Printf("VIOLATION property=%s replay=%s\n  undecided: %s\n", res.Prop, p, firstLines(res.Fatal, 12))
	}
	// samples: up to 40 obligations, violated first
	samples := []any{}
	for _, o := range res.Obs {
		if o.Verdict != VOK {
			samples = append(samples, o)
		}
	}
	for _, o := range res.Obs {
		if o.Verdict == VOK && len(samples) < 60 {
			samples = append(samples, o)
		}
	}
	if res.Assume == nil {
		res.Assume = []string{}
	}
	if res.Notes == nil {
		res.Notes = []string{}
	}
	rules := map[string]int{}
	for _, o := range res.Obs {
		rules[o.Rule]++
	}
	cov := map[string]any{
		"explanation": "Static analysis of /repo's current source (go/packages + go/types + go/ssa, VTA call graph). " +
			"Each obligation is one rule applied to one construct (function, call site, field, table row) of the resolved program; " +
			"a rule decides a structural necessary condition of the property over all CFG/call-graph paths of the named functions. " +
			"Nothing is executed. See DESIGN.md section for " + res.Prop + " for what is and is not decided.",
		"obligations":         len(res.Obs),
		"discharged":          discharged,
		"known_findings":      nKnown,
		"evaluations":         len(res.Obs),
		"distinct_nontrivial": len(distinct),
		"rule":                "obligation = rule x construct x build configuration; non-trivial = the rule's anchor resolved to at least one site in the analysed program (or the obligation failed); distinct = distinct rule x construct",
		"samples":             samples,
		"obligations_by_rule": rules,
		"configurations":      res.Configs,
		"notes":               res.Notes,
		"checker_cmd":         fmt.Sprintf("bin/fpcheck -property %s -tier %s", res.Prop, tier),
		"trusted_base":        res.Assume,
		"exhaustive":          false,
	}
	for k, v := range res.Extra {
		cov[k] = v
	}
	ev := Evidence{
		PropertyID: res.Prop, Tier: tier, Seed: seed, Level: "other", Coverage: cov,
		Assumptions: res.Assume, WallS: time.Since(res.Start).Seconds(), Violations: nViol,
	}
	if ev.Assumptions == nil {
		ev.Assumptions = []string{}
	}
	if err := writeJSON(filepath.Join(evDir, res.Prop+".json"), ev); err != nil {
		fmt.Fprintf(os.Stderr, "cannot write evidence: %v\n", err)
		return 2
	}
	fmt.Printf("%s tier=%s obligations=%d discharged=%d known=%d violations=%d wall=%.1fs\n",
		res.Prop, tier, len(res.Obs), discharged, nKnown, nViol, ev.WallS)
	return exit
}

func firstLines(s string, n int) string {
	ls := strings.Split(s, "\n")
	if len(ls) > n {
		ls = append(ls[:n], "...")
	}
	return strings.Join(ls, "\n  ")
}

// Must is Check returning the obligation for chaining.
func (o *Ob) Must(cond bool, format string, a ...any) *Ob {
	o.Check(cond, format, a...)
	return o
}
