package main

import (
	"go/token"
	"go/types"
	"sort"
	"strings"

	"golang.org/x/tools/go/ssa"
)

// analysedDep: packages outside the module whose bodies are built in deep mode.
func analysedPkg(p *types.Package) bool {
	if p == nil {
		return false
	}
	if strings.HasPrefix(p.Path(), modPath) {
		return true
	}
	for _, d := range depBuild {
		if p.Path() == d {
			return true
		}
	}
	return false
}

type purity struct {
	Funcs     []*ssa.Function // analysed functions in the closure
	Leaves    []string        // functions outside the analysed packages that are called
	LeafSites map[string]ssa.Instruction
	Reach     map[*ssa.Function]reachInfo
}

// purityClosure computes the call-graph closure of root restricted to analysed packages; cut names are not entered.
func purityClosure(c *Ctx, root *ssa.Function, cut map[string]bool) *purity {
	info := c.reachable([]*ssa.Function{root}, true, func(f *ssa.Function) bool {
		if cut[funcName(f)] {
			return true
		}
		if f.Pkg == nil {
			return f.Blocks == nil
		}
		return !analysedPkg(f.Pkg.Pkg)
	})
	p := &purity{Reach: info, LeafSites: map[string]ssa.Instruction{}}
	leaf := map[string]bool{}
	for f, ri := range info {
		if cut[funcName(f)] {
			continue
		}
		pkg := f.Package()
		var tp *types.Package
		if pkg != nil {
			tp = pkg.Pkg
		} else if f.Object() != nil {
			tp = f.Object().Pkg()
		}
		if f.Blocks != nil && (tp == nil || analysedPkg(tp)) {
			p.Funcs = append(p.Funcs, f)
			continue
		}
		n := funcName(f)
		if !leaf[n] {
			leaf[n] = true
			p.Leaves = append(p.Leaves, n)
			if ri.Site != nil {
				p.LeafSites[n] = ri.Site
			}
		}
	}
	sort.Slice(p.Funcs, func(i, j int) bool { return funcName(p.Funcs[i]) < funcName(p.Funcs[j]) })
	sort.Strings(p.Leaves)
	return p
}

// leafPkg extracts the package path of a rendered function name such as "(*bytes.Buffer).Write" or "strconv.AppendInt".
func leafPkg(n string) string {
	n = strings.TrimPrefix(n, "(")
	n = strings.TrimPrefix(n, "*")
	if i := strings.Index(n, ")"); i >= 0 {
		n = n[:i]
	}
	if i := strings.LastIndex(n, "."); i >= 0 {
		n = n[:i]
	}
	// generic instances etc.
	if i := strings.Index(n, "["); i >= 0 {
		n = n[:i]
	}
	return n
}

// deterministic, side-effect-free (w.r.t. the fingerprint) packages a fingerprint computation may call into
var purePkgs = map[string]string{
	"strconv": "S7", "bytes": "S7", "strings": "S7", "sort": "S7", "fmt": "S7 (Sprintf/Errorf/Sprint)", "errors": "S7", "crypto/md5": "S7",
	"crypto/sha256": "S7", "encoding/hex": "S7", "encoding/binary": "S7", "io": "S7 (in-memory readers/errors)", "hash": "S7", "unicode/utf8": "S7",
	"math/bits": "S7", "sync": "sync.Once / pools guarding one-time table construction", "golang.org/x/crypto/cryptobyte": "pure byte-string parser", "unicode": "S7", "slices": "S7", "cmp": "S7 (ordered comparison helpers used by slices.Sort)", "maps": "S7", "math": "S7",
	"crypto": "hash registry constants", "crypto/tls": "constants / pure helpers", "crypto/x509": "not expected", "internal/byteorder": "S7", "reflect": "type switches in fmt", "bufio": "in-memory", "golang.org/x/crypto/cryptobyte/asn1": "constants",
	"crypto/subtle": "S7", "crypto/hmac": "S7", "crypto/sha512": "S7", "crypto/sha1": "S7", "golang.org/x/crypto/hkdf": "S7", "crypto/cipher": "S7", "crypto/aes": "S7", "golang.org/x/crypto/chacha20poly1305": "S7",
	"crypto/ecdh": "key parsing", "math/big": "S7 (arbitrary-precision arithmetic)", "github.com/quic-go/quic-go/quicvarint": "pure varint encoder", "crypto/elliptic": "constants", "crypto/internal/boring": "unused", "runtime": "panics/assertions", "builtin": "",
}

// purityDefects scans the analysed functions of a closure for sources of state or nondeterminism.
type purityDefect struct {
	Fn   *ssa.Function
	I    ssa.Instruction
	What string
}

func purityScan(c *Ctx, p *purity, allowMetaField string) []purityDefect {
	var out []purityDefect
	md := c.Named("pkg/metadata", "Metadata")
	for _, fn := range p.Funcs {
		eachInstr(fn, func(i ssa.Instruction) {
			switch x := i.(type) {
			case *ssa.Go:
				out = append(out, purityDefect{fn, i, "starts a goroutine"})
			case *ssa.Send:
				out = append(out, purityDefect{fn, i, "channel send"})
			case *ssa.Select:
				out = append(out, purityDefect{fn, i, "select"})
			case *ssa.UnOp:
				if x.Op == token.ARROW {
					out = append(out, purityDefect{fn, i, "channel receive"})
				}
			case *ssa.Range:
				if _, isMap := x.X.Type().Underlying().(*types.Map); isMap {
					out = append(out, purityDefect{fn, i, "ranges over a map (iteration order is random)"})
				}
			case *ssa.FieldAddr:
				if md != nil && namedOf(x.X.Type()) != nil && namedOf(x.X.Type()).Obj() == md.Obj() {
					if fld := fieldName(x.X.Type(), x.Field); fld != allowMetaField {
						out = append(out, purityDefect{fn, i, "reads connection data other than the ClientHello bytes: Metadata." + fld})
					}
				}
			case *ssa.Store:
				if g := rootGlobal(x.Addr); g != nil && !isInitFn(fn) {
					out = append(out, purityDefect{fn, i, "writes package-level variable " + g.Pkg.Pkg.Name() + "." + g.Name()})
				}
			case *ssa.MapUpdate:
				if g := rootGlobal(x.Map); g != nil && !isInitFn(fn) {
					out = append(out, purityDefect{fn, i, "updates package-level map " + g.Pkg.Pkg.Name() + "." + g.Name()})
				}
			}
		})
	}
	return out
}

// globalsRead lists package-level variables loaded (or whose address is used) in the closure.
func globalsRead(p *purity) map[*ssa.Global][]ssa.Instruction {
	out := map[*ssa.Global][]ssa.Instruction{}
	for _, fn := range p.Funcs {
		eachInstr(fn, func(i ssa.Instruction) {
			var ops []*ssa.Value
			for _, op := range i.Operands(ops) {
				if g, ok := (*op).(*ssa.Global); ok {
					out[g] = append(out[g], i)
				}
			}
		})
	}
	return out
}

// allBuilt returns every function with a body in the program (module + analysed deps).
func (c *Ctx) allBuilt() []*ssa.Function {
	var out []*ssa.Function
	seen := map[*ssa.Function]bool{}
	var add func(f *ssa.Function)
	add = func(f *ssa.Function) {
		if f == nil || seen[f] || f.Blocks == nil {
			return
		}
		seen[f] = true
		out = append(out, f)
		for _, a := range f.AnonFuncs {
			add(a)
		}
	}
	for sp := range c.Built {
		for _, m := range sp.Members {
			switch x := m.(type) {
			case *ssa.Function:
				add(x)
			case *ssa.Type:
				for _, t := range []types.Type{x.Type(), types.NewPointer(x.Type())} {
					ms := c.Prog.MethodSets.MethodSet(t)
					for k := 0; k < ms.Len(); k++ {
						add(c.Prog.MethodValue(ms.At(k)))
					}
				}
			}
		}
	}
	return out
}
