package main

import (
	"os"
	"go/token"
	"strings"

	"golang.org/x/tools/go/ssa"
)

func init() {
	register("C03", false,
		ruleDef{"C03.R1", c03r1},
		ruleDef{"C03.R2", c03r2},
		ruleDef{"C03.R3", c03r3},
		ruleDef{"C03.R4", c03r4},
		ruleDef{"C03.R5", c03r5},
		ruleDef{"C03.R6", c03r6},
		ruleDef{"C03.R7", func(r *R) { injectedValueProvenance(r, "C03.R7") }},
		ruleDef{"C05.R1", c05r1}, ruleDef{"C05.R4", c05r4},
		// the record a fingerprint is rendered from is this connection's own, freshly allocated one
		ruleDef{"C06.R1", c06r1},
	)
}

const mdFrames = "metadata.FromContext(p0.baseCtx)#0.HTTP2Frames"

type capStore struct {
	Field string
	St    *ssa.Store
}

func captureStores(r *R) (*ssa.Function, []capStore) {
	c := r.C
	pf := c.Method("pkg/http2", "serverConn", "processFrame")
	r.need(pf != nil, "processFrame not found")
	nt := c.Named("pkg/metadata", "HTTP2FingerprintingFrames")
	r.need(nt != nil, "HTTP2FingerprintingFrames not found")
	var out []capStore
	for _, f := range h2frameFields {
		for _, a := range fieldAccesses(c.FuncsIn("pkg/http2"), nt, f) {
			if a.Kind == "write" {
				r.need(a.Fn == pf, "HTTP2Frames.%s is written in %s, outside processFrame", f, funcName(a.Fn))
				out = append(out, capStore{f, a.Instr.(*ssa.Store)})
			}
		}
	}
	return pf, out
}

// frameCase: which type-switch case a block belongs to (the positively asserted frame type).
func frameCase(c *Ctx, b *ssa.BasicBlock) string {
	for _, g := range c.guardStrs(b) {
		if strings.HasPrefix(g, "+assert[*http2.") && strings.HasSuffix(g, "](p1)#1") {
			return strings.TrimSuffix(strings.TrimPrefix(g, "+assert[*http2."), "](p1)#1")
		}
	}
	return ""
}

func c03r1(r *R) {
	c := r.C
	pf, stores := captureStores(r)
	r.Ob("C03.R1", "instances").Check(len(stores) >= 5, "expected >= 5 capture stores (Settings, Headers, Priorities x2, WindowUpdateIncrement), found %d", len(stores))
	procOf := map[string]string{"SettingsFrame": "processSettings", "MetaHeadersFrame": "processHeaders", "WindowUpdateFrame": "processWindowUpdate", "PriorityFrame": "processPriority"}
	seenCases := map[string]bool{}
	for _, cs := range stores {
		fc := frameCase(c, cs.St.Block())
		seenCases[fc] = true
		o := r.Ob("C03.R1", "capture-before-processing:"+fc+":"+cs.Field).AtI(cs.St)
		pn, ok := procOf[fc]
		if !o.Check(ok, "capture of %s happens in the case of frame type %q", cs.Field, fc) {
			continue
		}
		procs := callsIn(pf, "(*http2.serverConn)."+pn)
		if o.Check(len(procs) == 1, "expected one %s call", pn) {
			o.AtI(procs[0])
			// the store can only happen before the frame is processed (so a handler started by processHeaders sees its own HEADERS)
			o.Check(reachesAfter(cs.St, procs[0]) && !reachesAfter(procs[0], cs.St), "the capture of %s is not ordered before %s: a request's fingerprint could miss its own frame", cs.Field, pn)
			// processing happens whether or not there is a record (capture is a side effect only)
			p := c.escapePath(pf, nil, func(i ssa.Instruction) bool { return i == procs[0] }, func(i ssa.Instruction) bool {
				return isReturn(i) && frameCase(c, i.Block()) == fc
			})
			o.Check(p == nil, "a %s can return from processFrame without being processed: %v", fc, p)
		}
		// capture is after the first-settings and GOAWAY-discard checks
		gs := c.guardStrs(cs.St.Block())
		o.Check(hasGuard(gs, "+metadata.FromContext(p0.baseCtx)#1"), "capture without a record check; guards %v", gs)
		if os.Getenv("FPCHECK_DEBUG_C03") != "" {
			println("C03 capture", fc, cs.Field, strings.Join(gs, " ; "))
		}
		// and on nothing else: every frame of the type is recorded (the frame-type dispatch, the record lookup, the
		// end of the copy loop; SETTINGS acks carry nothing, only the first WINDOW_UPDATE counts, HEADERS priority only
		// when the frame has one)
		for _, g := range gs {
			ok := strings.HasPrefix(g[1:], "assert[*http2.") && strings.HasSuffix(g, "Frame](p1)#1") ||
				g == "+metadata.FromContext(p0.baseCtx)#1" ||
				(strings.HasSuffix(g, " <= "+rngIdx+")") && (strings.Contains(g, "NumSettings(") || strings.Contains(g, ".Fields)"))) ||
				(fc == "SettingsFrame" && strings.HasPrefix(g, "-(*http2.SettingsFrame).IsAck(")) ||
				(fc == "WindowUpdateFrame" && g == "+(0 == metadata.FromContext(p0.baseCtx)#0.HTTP2Frames.WindowUpdateIncrement)") ||
				(fc == "MetaHeadersFrame" && cs.Field == "Priorities" && strings.HasPrefix(g, "+(*http2.HeadersFrame).HasPriority("))
			o.Check(ok, "the capture of %s is additionally conditional on %s: frames outside that condition would be missing from the fingerprint", cs.Field, g)
		}
	}
	for k := range procOf {
		r.Ob("C03.R1", "case-captures:"+k).Check(seenCases[k], "no capture in the %s case of processFrame", k)
	}
	// discard-after-GOAWAY precedes the dispatch: capture blocks are not reachable on the discard edge
	o := r.Ob("C03.R1", "discard-check-precedes-capture").At(pf.Pos())
	var discardRet ssa.Instruction
	eachInstr(pf, func(i ssa.Instruction) {
		if isReturn(i) {
			gs := c.guardStrs(i.Block())
			if hasGuard(gs, "+p0.inGoAway") && frameCase(c, i.Block()) == "" {
				discardRet = i
			}
		}
	})
	o.Check(discardRet != nil, "the GOAWAY discard return was not found (rule needs re-anchoring)")
	for _, cs := range stores {
		if discardRet != nil {
			o.Check(!reachesAfter(cs.St, discardRet), "a capture can happen before the GOAWAY discard check")
		}
	}
}

// appendedLiteral: for v = append(base, T{...}) returns base and the literal's fields (field -> rendered value).
func appendedLiteral(c *Ctx, v ssa.Value) (ssa.Value, map[string]string) {
	call, ok := v.(*ssa.Call)
	if !ok || calleeName(&call.Call) != "builtin.append" || len(call.Call.Args) != 2 {
		return nil, nil
	}
	els := variadicElems(call.Call.Args[1])
	if len(els) != 1 {
		return call.Call.Args[0], nil
	}
	fields := map[string]string{}
	if u, ok := els[0].(*ssa.UnOp); ok && u.Op == token.MUL {
		if al, ok := u.X.(*ssa.Alloc); ok {
			for k, fv := range complitFields(al) {
				fields[k] = c.Expr(fv)
			}
			return call.Call.Args[0], fields
		}
	}
	fields["*"] = c.Expr(els[0])
	return call.Call.Args[0], fields
}

func c03r2(r *R) {
	c := r.C
	_, stores := captureStores(r)
	for _, cs := range stores {
		fc := frameCase(c, cs.St.Block())
		gs := c.guardStrs(cs.St.Block())
		o := r.Ob("C03.R2", "capture-rule:"+fc+":"+cs.Field).AtI(cs.St)
		val := cs.St.Val
		switch {
		case cs.Field == "Settings":
			o.Check(fc == "SettingsFrame", "Settings captured from %s", fc)
			o.Check(hasGuard(gs, "-(*http2.SettingsFrame).IsAck(assert[*http2.SettingsFrame](p1)#0)"), "SETTINGS capture is not restricted to non-ACK frames (an ACK would wipe the recorded settings); guards %v", gs)
			// loop-built slice: phi(fresh literal | append(phi, {Id, Val}))
			phi, ok := val.(*ssa.Phi)
			if !o.Check(ok, "Settings is assigned %s, want a slice built from the frame's settings in order", c.Expr(val)) {
				continue
			}
			okShape := false
			for _, e := range phi.Edges {
				if base, fields := appendedLiteral(c, e); base == ssa.Value(phi) {
					okShape = true
					set := "(*http2.SettingsFrame).Setting(assert[*http2.SettingsFrame](p1)#0, "
					o.Check(strings.HasPrefix(fields["Id"], set) && strings.HasSuffix(fields["Id"], ").ID"), "recorded setting Id is %s", fields["Id"])
					o.Check(strings.HasPrefix(fields["Val"], set) && strings.HasSuffix(fields["Val"], ").Val"), "recorded setting Val is %s", fields["Val"])
					// same index for both
					o.Check(strings.TrimSuffix(fields["Id"], ".ID") == strings.TrimSuffix(fields["Val"], ".Val"), "Id and Val come from different settings")
					// loop bound NumSettings, index starts at 0, step 1
					call := e.(*ssa.Call)
					lg := c.guardStrs(call.Block())
					o.Check(hasGuardContaining(lg, "+", " < (*http2.SettingsFrame).NumSettings(assert[*http2.SettingsFrame](p1)#0))"), "settings loop is not bounded by NumSettings(); guards %v", lg)
					o.Check(strings.Contains(fields["Id"], "(1 + phi((1 + phi@)|-1))"), "settings loop index is %s, want 0,1,2,… (wire order, none skipped)", fields["Id"])
				}
			}
			o.Check(okShape, "Settings is not built by appending one {Id, Val} per frame setting")
		case cs.Field == "Headers":
			o.Check(fc == "MetaHeadersFrame", "Headers captured from %s", fc)
			phi, ok := val.(*ssa.Phi)
			if !o.Check(ok, "Headers is assigned %s, want a fresh slice of this header block's fields (replace)", c.Expr(val)) {
				continue
			}
			okShape := false
			for _, e := range phi.Edges {
				if base, fields := appendedLiteral(c, e); base == ssa.Value(phi) {
					okShape = true
					o.Check(strings.HasPrefix(fields["*"], "assert[*http2.MetaHeadersFrame](p1)#0.Fields[") && strings.Contains(fields["*"], "phi((1 + phi@)|-1)"), "recorded header field is %s, want f.Fields[i] for every i in order", fields["*"])
				}
			}
			o.Check(okShape, "Headers is not built by appending every field of the header block")
			for _, g := range gs {
				o.Check(!strings.Contains(g, "HasPriority"), "Headers capture depends on %s", g)
			}
		case cs.Field == "WindowUpdateIncrement":
			o.Check(fc == "WindowUpdateFrame", "WindowUpdateIncrement captured from %s", fc)
			o.Check(c.Expr(val) == "assert[*http2.WindowUpdateFrame](p1)#0.Increment", "recorded increment is %s, want the frame's Increment", c.Expr(val))
			o.Check(hasGuard(gs, "+(0 == "+mdFrames+".WindowUpdateIncrement)"), "WINDOW_UPDATE capture is not first-only (no `== 0` test of the recorded value); guards %v", gs)
		case cs.Field == "Priorities":
			base, fields := appendedLiteral(c, val)
			if !o.Check(base != nil && c.Expr(base) == mdFrames+".Priorities", "Priorities is assigned %s, want append(<recorded priorities>, …) (accumulate in arrival order)", c.Expr(val)) {
				continue
			}
			o.Check(len(fields) == 4, "priority entry has fields %v", fields)
			if fc == "MetaHeadersFrame" {
				o.Check(hasGuard(gs, "+(*http2.HeadersFrame).HasPriority(assert[*http2.MetaHeadersFrame](p1)#0.HeadersFrame)"), "HEADERS priority is recorded without HasPriority(); guards %v", gs)
			} else {
				o.Check(fc == "PriorityFrame", "Priorities captured from %s", fc)
			}
		}
		// stream-independent: no guard mentions a stream id or stream state
		for _, g := range gs {
			o.Check(!strings.Contains(g, "StreamID") && !strings.Contains(g, "p0.streams"), "capture depends on the stream: %s", g)
		}
	}
}

func c03r3(r *R) {
	c := r.C
	_, stores := captureStores(r)
	n := 0
	for _, cs := range stores {
		if cs.Field != "Priorities" {
			continue
		}
		n++
		fc := frameCase(c, cs.St.Block())
		_, f := appendedLiteral(c, cs.St.Val)
		o := r.Ob("C03.R3", "priority-literal:"+fc).AtI(cs.St)
		var src, prm string
		switch fc {
		case "MetaHeadersFrame":
			src, prm = "assert[*http2.MetaHeadersFrame](p1)#0.HeadersFrame", "assert[*http2.MetaHeadersFrame](p1)#0.HeadersFrame.Priority"
		case "PriorityFrame":
			src, prm = "assert[*http2.PriorityFrame](p1)#0", "assert[*http2.PriorityFrame](p1)#0.PriorityParam"
		default:
			o.Fail("priority captured in case %q", fc)
			continue
		}
		o.Check(f["StreamId"] == src+".FrameHeader.StreamID", "StreamId <- %s, want the frame's own stream id", f["StreamId"])
		o.Check(f["StreamDep"] == prm+".StreamDep", "StreamDep <- %s", f["StreamDep"])
		o.Check(f["Exclusive"] == prm+".Exclusive", "Exclusive <- %s", f["Exclusive"])
		o.Check(f["Weight"] == prm+".Weight", "Weight <- %s", f["Weight"])
	}
	r.Ob("C03.R3", "instances").Check(n == 2, "expected two priority capture sites (PRIORITY, HEADERS with priority), found %d", n)
}

// bufWrite: one write into Marshal's output buffer.
type bufWrite struct {
	I     ssa.Instruction
	Text  string   // constant text or Sprintf format
	Vals  []ssa.Value // Sprintf args as values
	Args  []string // Sprintf args
	Types []string // static types of the Sprintf args
	Byte  string   // WriteByte operand
	Const bool
}

func marshalWrites(c *Ctx, m *ssa.Function) []bufWrite {
	var out []bufWrite
	eachInstr(m, func(i ssa.Instruction) {
		call, ok := i.(*ssa.Call)
		if !ok {
			return
		}
		// a strings.Builder is written to exactly like a bytes.Buffer
		name := strings.Replace(calleeName(&call.Call), "(*strings.Builder).", "(*bytes.Buffer).", 1)
		switch name {
		case "(*bytes.Buffer).WriteString":
			// the string written, piece by piece: a concatenation is the sequence of its operands
			var pieces func(a ssa.Value, depth int)
			pieces = func(a ssa.Value, depth int) {
				if s, ok := constString(a); ok {
					out = append(out, bufWrite{I: i, Text: s, Const: true})
					return
				}
				if bo, ok := a.(*ssa.BinOp); ok && bo.Op == token.ADD && isStringT(bo.Type()) && depth < 16 {
					pieces(bo.X, depth+1)
					pieces(bo.Y, depth+1)
					return
				}
				if sp, ok := a.(*ssa.Call); ok && calleeName(&sp.Call) == "fmt.Sprintf" {
					f, _ := constString(sp.Call.Args[0])
					w := bufWrite{I: i, Text: f}
					for _, e := range variadicElems(sp.Call.Args[1]) {
						w.Vals = append(w.Vals, unwrapIface(e))
						w.Args = append(w.Args, c.Expr(e))
						w.Types = append(w.Types, typeName(unwrapIface(e).Type()))
					}
					out = append(out, w)
					return
				}
				// a decimal number through strconv is the same text as %d
				if sp, ok := a.(*ssa.Call); ok {
					switch calleeName(&sp.Call) {
					case "strconv.Itoa":
						out = append(out, bufWrite{I: i, Text: "%d", Vals: []ssa.Value{sp.Call.Args[0]}, Args: []string{c.Expr(sp.Call.Args[0])}, Types: []string{typeName(sp.Call.Args[0].Type())}})
						return
					case "strconv.FormatUint", "strconv.FormatInt":
						if base, ok := constInt(sp.Call.Args[1]); ok && base == 10 {
							v := sp.Call.Args[0]
							for {
								if cv, ok := v.(*ssa.Convert); ok && convPreserves(cv) {
									v = cv.X
									continue
								}
								break
							}
							out = append(out, bufWrite{I: i, Text: "%d", Vals: []ssa.Value{v}, Args: []string{c.Expr(v)}, Types: []string{typeName(v.Type())}})
							return
						}
					}
				}
				out = append(out, bufWrite{I: i, Text: "?" + c.Expr(a)})
			}
			pieces(call.Call.Args[1], 0)
		case "fmt.Fprintf":
			// fmt.Fprintf(&buf, format, args...) is the same write as buf.WriteString(fmt.Sprintf(format, args...))
			if c.Expr(call.Call.Args[0]) != "&buf" {
				out = append(out, bufWrite{I: i, Text: "?" + shortInstr(i)})
				return
			}
			f, ok := constString(call.Call.Args[1])
			if !ok {
				out = append(out, bufWrite{I: i, Text: "?" + shortInstr(i)})
				return
			}
			w := bufWrite{I: i, Text: f}
			for _, e := range variadicElems(call.Call.Args[2]) {
				w.Vals = append(w.Vals, unwrapIface(e))
				w.Args = append(w.Args, c.Expr(e))
				w.Types = append(w.Types, typeName(unwrapIface(e).Type()))
			}
			out = append(out, w)
		case "(*bytes.Buffer).WriteByte":
			if k, ok := constInt(call.Call.Args[1]); ok && k >= 32 && k < 127 {
				out = append(out, bufWrite{I: i, Text: string(rune(k)), Const: true}) // WriteByte(';') is WriteString(";")
				return
			}
			out = append(out, bufWrite{I: i, Byte: c.Expr(call.Call.Args[1])})
		case "(*bytes.Buffer).Write", "(*bytes.Buffer).WriteRune", "fmt.Fprint", "fmt.Fprintln":
			out = append(out, bufWrite{I: i, Text: "?" + shortInstr(i)})
		}
	})
	return out
}

func c03r4(r *R) {
	c := r.C
	m := c.Method("pkg/metadata", "HTTP2FingerprintingFrames", "Marshal")
	r.need(m != nil, "Marshal not found")
	ws := marshalWrites(c, m)
	if os.Getenv("FPCHECK_DEBUG_C03") != "" {
		for _, w := range ws {
			println("C03 write:", w.Text, "|", strings.Join(w.Args, ","), "|", w.Byte, w.Const)
		}
	}
	o := r.Ob("C03.R4", "four-parts:"+funcName(m)).At(m.Pos())
	// every write, as atoms (see outlang.go)
	atomsOf := map[ssa.Instruction][]olAtom{}
	var atoms []olAtom
	var digitCases []olAtom // the cases of digits chosen by a phi, with their own conditions
	for _, w := range ws {
		var as []olAtom
		switch {
		case strings.HasPrefix(w.Text, "?"):
			o.AtI(w.I).Fail("output write of unknown shape: %s", w.Text)
			as = []olAtom{{Sym: "?write", I: w.I}}
		case w.Byte != "":
			as = []olAtom{{Sym: "byte(" + w.Byte + ")", I: w.I}}
		case w.Const:
			for k := 0; k < len(w.Text); k++ {
				as = append(as, olAtom{Sym: "'" + w.Text[k:k+1] + "'", I: w.I})
			}
		default:
			as = formatAtoms(w.I, w.Text, w.Args)
			// a %d of a value that is one constant digit per branch (`x := 0; if c { x = 1 }`) writes that digit: one
			// alternative per case, each under the conditions of its case
			k := 0
			var out2 []olAtom
			for _, a := range as {
				if strings.HasPrefix(a.Sym, "num(") && k < len(w.Vals) {
					v := w.Vals[k]
					k++
					if _, isPhi := v.(*ssa.Phi); isPhi {
						cases := c.valueCases(v, w.I.Block())
						allDigits := len(cases) > 1
						for _, vc := range cases {
							d, ok := constInt(vc.V)
							if _, isC := vc.V.(*ssa.Const); !ok || !isC || d < 0 || d > 9 {
								allDigits = false
							}
						}
						if allDigits {
							alt := olAtom{Sym: a.Sym, I: w.I}
							for _, vc := range cases {
								d, _ := constInt(vc.V)
								sym := "'" + string(rune('0'+d)) + "'"
								alt.Alts = append(alt.Alts, sym)
								digitCases = append(digitCases, olAtom{Sym: sym, I: w.I, G: vc.Guards})
							}
							out2 = append(out2, alt)
							continue
						}
					}
				} else if strings.HasPrefix(a.Sym, "num02(") {
					k++
				}
				out2 = append(out2, a)
			}
			as = out2
		}
		for _, a := range as {
			o.AtI(w.I).Check(!strings.HasPrefix(a.Sym, "?fmt"), "format %q uses something else than %%d / %%02d: %s", w.Text, a.Sym)
		}
		atomsOf[w.I] = append(atomsOf[w.I], as...) // the pieces of one concatenated write follow each other
		for _, a := range as {
			if len(a.Alts) == 0 {
				atoms = append(atoms, a)
			}
		}
	}
	atoms = append(atoms, digitCases...)
	idx := "(1 + phi((1 + phi@)|-1))"
	minE := "min(builtin.len(p0.Priorities), p1)" // the if-idiom and the builtin both render so (selPhi)
	pIdx := "p0.Priorities[" + idx + "]"
	name := "p0.Headers[" + idx + "].Name"
	symSId, symSVal := "num(p0.Settings["+idx+"].Id)", "num(p0.Settings["+idx+"].Val)"
	symWU := "num02(p0.WindowUpdateIncrement)"
	symPSid, symPDep, symPW := "num("+pIdx+".StreamId)", "num("+pIdx+".StreamDep)", "num((1 + "+pIdx+".Weight))"
	symH := "byte(" + name + "[1])"
	// the shape S[;S…]|WU|P[,P…]#|PS[,PS…] as languages over atoms
	build := func(exact bool) *olNFA {
		n := newNFA()
		list := func(sep string, item func() olFrag) olFrag {
			if exact {
				// item (sep item)*, or nothing
				return n.opt(n.seq(item(), n.star(n.seq(n.lits(sep), item()))))
			}
			// condition-blind reading of `for … { if i != 0 { sep }; item }`
			return n.star(n.seq(n.opt(n.lits(sep)), item()))
		}
		setting := func() olFrag { return n.seq(n.sym(symSId), n.lits(":"), n.sym(symSVal)) }
		prio := func() olFrag {
			return n.seq(n.sym(symPSid), n.lits(":"), n.alt(n.lits("1"), n.lits("0")), n.lits(":"), n.sym(symPDep), n.lits(":"), n.sym(symPW))
		}
		hdr := func() olFrag { return n.sym(symH) }
		var prios olFrag
		if exact {
			prios = n.alt(n.lits("0"), n.seq(prio(), n.star(n.seq(n.lits(","), prio()))))
		} else {
			prios = n.alt(n.lits("0"), list(",", prio))
		}
		return n.finish(n.seq(list(";", setting), n.lits("|"), n.sym(symWU), n.lits("|"), prios, n.lits("|"), list(",", hdr)))
	}
	got := cfgNFA(m, func(i ssa.Instruction) []olAtom { return atomsOf[i] })
	if ok, word := olIncluded(got, build(false)); !ok {
		o.Fail("Marshal can output the sequence %s, which is not of the form S[;S…]|WU|P[,P…]|PS[,PS…] with S=id:value, WU=%%02d of the window increment, P=stream:excl:dep:weight+1 or 0, PS=second byte of a pseudo-header name", strings.Join(word, " "))
	}
	if ok, word := olIncluded(build(true), got); !ok {
		o.Fail("no path through Marshal outputs the sequence %s, which the format requires to be producible", strings.Join(word, " "))
	}
	// conditions of individual atoms
	find := func(sym string) []olAtom {
		var out []olAtom
		for _, a := range atoms {
			if a.Sym == sym {
				out = append(out, a)
			}
		}
		return out
	}
	gsOf := func(a olAtom) []string {
		if a.G != nil {
			return a.G
		}
		return c.guardStrs(a.I.Block())
	}
	// ---- S part
	oS := r.Ob("C03.R4", "settings-part").At(m.Pos())
	setW := append(find(symSId), find(symSVal)...)
	oS.Check(len(setW) >= 2, "settings are not rendered as id:value of every recorded setting (s.Id, s.Val) in order")
	for _, a := range setW {
		oS.AtI(a.I)
		oS.Check(inLoop(a.I.Block()), "settings write is not in the loop over f.Settings")
		bad := onlyGuards(c, a.I.Block(), "+("+idx+" < builtin.len(p0.Settings))")
		oS.Check(bad == "", "a setting is rendered only under %s", bad)
	}
	semi := find("';'")
	oS.Check(len(semi) >= 1, "no ';' separator is written")
	for _, a := range semi {
		gs := gsOf(a)
		oS.AtI(a.I).Check(idxNonZero(gs, idx) && hasGuard(gs, "+("+idx+" < builtin.len(p0.Settings))") && len(gs) == 2, "';' is written under %v, want exactly `i != 0` inside the settings loop", gs)
	}
	// ---- WU part
	oW := r.Ob("C03.R4", "window-update-part").At(m.Pos())
	wu := find(symWU)
	oW.Check(len(wu) >= 1, "the window update is not rendered as %%02d of f.WindowUpdateIncrement")
	for _, a := range wu {
		oW.AtI(a.I).Check(!inLoop(a.I.Block()), "window update write is repeated")
	}
	// ---- P part
	oP := r.Ob("C03.R4", "priority-part").At(m.Pos())
	// the number of entries rendered is min(len(Priorities), max): the slice bound of the priorities loop
	okMin := false
	eachInstr(m, func(i ssa.Instruction) {
		if sl, ok := i.(*ssa.Slice); ok && sl.High != nil && c.Expr(sl.X) == "p0.Priorities" && sl.Low == nil {
			okMin = c.ExprAt(sl.High, sl.Block()) == minE
			oP.AtI(i)
		}
	})
	oP.Check(okMin, "the number of priority entries rendered is not min(len(f.Priorities), maxPriorityFrames)")
	inPrioLoop := func(gs []string) bool {
		return hasGuardContaining(gs, "+", " < "+minE+")") && hasGuard(gs, "-(0 == "+minE+")")
	}
	prioAtoms := append(append(find(symPSid), find(symPDep)...), find(symPW)...)
	oP.Check(len(prioAtoms) >= 3, "priority entries are not rendered as p.StreamId : p.Exclusive : p.StreamDep : int(p.Weight)+1 of f.Priorities[:min][i]")
	for _, a := range prioAtoms {
		gs := gsOf(a)
		oP.AtI(a.I).Check(inPrioLoop(gs), "a priority entry is rendered under %v, want inside the loop over f.Priorities[:min] with min != 0", gs)
		for _, g := range gs {
			oP.Check(g == canonStr("-(0 == "+minE+")") || strings.HasSuffix(g, " < "+minE+")") || strings.Contains(g, "builtin.len(p0.Settings)"), "a priority entry is additionally conditional on %s", g)
		}
	}
	for _, w := range ws {
		for k, a := range w.Args {
			if a == "(1 + "+pIdx+".Weight)" {
				oP.AtI(w.I).Check(k < len(w.Types) && w.Types[k] == "int", "weight+1 is computed in type %v: in uint8 arithmetic wire weight 255 (meaning 256) wraps to 0", w.Types)
			}
		}
	}
	nZero, nEx0, nEx1 := 0, 0, 0
	for _, a := range find("'0'") {
		gs := gsOf(a)
		switch {
		case hasGuard(gs, "-"+pIdx+".Exclusive") && inPrioLoop(gs):
			nEx0++
		case hasGuard(gs, "+(0 == "+minE+")"):
			nZero++
		default:
			oP.AtI(a.I).Fail("a '0' is written under %v: neither the exclusive bit of a non-exclusive priority nor the placeholder for `min(len(Priorities), max) == 0`", gs)
		}
	}
	for _, a := range find("'1'") {
		gs := gsOf(a)
		if oP.AtI(a.I).Check(hasGuard(gs, "+"+pIdx+".Exclusive") && inPrioLoop(gs), "a '1' is written under %v, want the true edge of p.Exclusive", gs) {
			nEx1++
		}
	}
	oP.Check(nZero >= 1 && nEx0 >= 1 && nEx1 >= 1, "missing one of: '0' placeholder for no priorities (%d), exclusive bit '0' (%d), exclusive bit '1' (%d)", nZero, nEx0, nEx1)
	// ---- PS part
	oH := r.Ob("C03.R4", "pseudo-header-part").At(m.Pos())
	hb := find(symH)
	oH.Check(len(hb) >= 1, "no pseudo-header initial (h.Name[1]) is written")
	for _, a := range hb {
		gs := gsOf(a)
		isLenName := func(x string) bool { return x == "builtin.len("+name+")" }
		oH.AtI(a.I).Check(intRel(gs, isLenName, ">=", 2) && hasGuard(gs, "+(58 == "+name+"[0])"), "pseudo-header letter is written under %v, want len(Name) >= 2 && Name[0] == ':'", gs)
		for _, g := range gs {
			ok := intRel([]string{g}, isLenName, ">=", 2) || g == "+(58 == "+name+"[0])" || strings.Contains(g, "builtin.len(p0.Headers)") || strings.Contains(g, "builtin.len(p0.Settings)") || strings.Contains(g, minE)
			oH.Check(ok, "pseudo-header letter additionally conditional on %s", g)
		}
	}
	nPC, nHC := 0, 0
	for _, a := range find("','") {
		gs := gsOf(a)
		switch {
		case inPrioLoop(gs):
			nPC++
			oP.AtI(a.I).Check(idxNonZero(gs, idx), "priority ',' is written under %v, want `i != 0`", gs)
		case hasGuardContaining(gs, "+", " < builtin.len(p0.Headers))"):
			nHC++
			oH.AtI(a.I).Check(hasGuard(gs, "+phi(false|phi@|true)") && hasGuard(gs, "+(58 == "+name+"[0])"), "pseudo-header ',' is written under %v, want `a pseudo-header was already written`", gs)
		default:
			o.AtI(a.I).Fail("a ',' is written under %v: neither between priority entries nor between pseudo-header letters", gs)
		}
	}
	oP.Check(nPC >= 1, "no ',' between priority entries")
	oH.Check(nHC >= 1, "no ',' between pseudo-header letters")
	// '|' never depends on data
	for _, a := range find("'|'") {
		o.AtI(a.I).Check(!inLoop(a.I.Block()), "a '|' is written inside a loop")
	}
	// result is the buffer's content
	eachInstr(m, func(i ssa.Instruction) {
		if ret, ok := i.(*ssa.Return); ok && i.Block() != m.Recover {
			o.Check(retExpr(c, ret, 0) == "(*bytes.Buffer).String(&buf)" || retExpr(c, ret, 0) == "(*strings.Builder).String(&buf)", "Marshal returns %s", retExpr(c, ret, 0))
		}
	})
	// total number of writes frozen as vacuity guard
	r.Ob("C03.R4", "instances").Check(len(atoms) >= 20, "expected >= 20 output atoms in Marshal, found %d", len(atoms))
}

func c03r5(r *R) {
	c := r.C
	fn := c.Method("pkg/fingerprint", "HTTP2FingerprintParam", "HTTP2Fingerprint")
	r.need(fn != nil, "HTTP2Fingerprint not found")
	o := r.Ob("C03.R5", "h2-only:"+funcName(fn)).At(fn.Pos())
	h2g := `("h2" == p1.ConnectionState.NegotiatedProtocol)`
	ms := callsIn(fn, "(*metadata.HTTP2FingerprintingFrames).Marshal")
	if o.Check(len(ms) == 1, "expected one Marshal call, found %d", len(ms)) {
		gs := c.guardStrs(ms[0].Block())
		o.AtI(ms[0]).Check(hasGuard(gs, "+"+h2g), "the HTTP/2 fingerprint is produced without checking NegotiatedProtocol == \"h2\"; guards %v", gs)
		a := callOf(ms[0]).Args
		o.Check(c.Expr(a[0]) == "p1.HTTP2Frames" && c.Expr(a[1]) == "p0.MaxPriorityFrames", "Marshal(%s, %s): want this record's frames and the configured limit", c.Expr(a[0]), c.Expr(a[1]))
	}
	eachInstr(fn, func(i ssa.Instruction) {
		ret, ok := i.(*ssa.Return)
		if !ok {
			return
		}
		gs := c.guardStrs(i.Block())
		e0, e1 := c.Expr(ret.Results[0]), c.Expr(ret.Results[1])
		if hasGuard(gs, "+"+h2g) {
			o.AtI(i).Check(strings.HasPrefix(e0, "(*metadata.HTTP2FingerprintingFrames).Marshal(") && e1 == "nil", "h2 edge returns (%s, %s)", e0, e1)
		} else {
			o.AtI(i).Check(e0 == `""` && e1 == "nil", "non-h2 edge returns (%s, %s), want (\"\", nil): no HTTP/2 fingerprint on other protocols", e0, e1)
		}
	})
}

func c03r6(r *R) {
	c := r.C
	di := c.Func("", "DefaultHeaderInjectors")
	r.need(di != nil, "DefaultHeaderInjectors not found")
	o := r.Ob("C03.R6", "limit-wiring:"+funcName(di)).At(di.Pos())
	pt := c.Named("pkg/fingerprint", "HTTP2FingerprintParam")
	n := 0
	for _, a := range fieldAccesses(c.FuncsIn(appPkgs...), pt, "MaxPriorityFrames") {
		if a.Kind != "write" {
			continue
		}
		st := a.Instr.(*ssa.Store)
		o.AtI(st)
		for _, vc := range c.valueCases(st.Val, st.Block()) {
			n++
			gs, e := vc.Guards, vc.E
			switch {
			case hasGuard(gs, "+(fingerproxy.flagMaxHTTP2PriorityFrames == nil)"):
				o.Check(e == "18446744073709551615" || e == "4294967295", "without CLI flags the limit is %s, want math.MaxUint (unlimited)", e)
			case hasGuard(gs, "-(fingerproxy.flagMaxHTTP2PriorityFrames == nil)"):
				o.Check(e == "fingerproxy.flagMaxHTTP2PriorityFrames", "with CLI flags the limit is %s, want *flagMaxHTTP2PriorityFrames", e)
			default:
				o.Fail("MaxPriorityFrames is set to %s under %v", e, gs)
			}
		}
		o.Check(a.Fn == di, "MaxPriorityFrames is written in %s", funcName(a.Fn))
	}
	o.Check(n == 2, "expected two cases for MaxPriorityFrames (flags initialised / not), found %d", n)
	initFlags := c.Func("", "initFlags")
	if o.Check(initFlags != nil, "initFlags not found") {
		o.Check(flagRegisteredAs(c, initFlags, "flagMaxHTTP2PriorityFrames") == "max-h2-priority-frames", "flagMaxHTTP2PriorityFrames registered as %q", flagRegisteredAs(c, initFlags, "flagMaxHTTP2PriorityFrames"))
	}
	// the limit is copied out of the flag when the injectors are built: in Run that happens after the command line was
	// parsed (built earlier, the copy holds the default and `-max-h2-priority-frames N` is silently ignored)
	if run := c.Func("", "Run"); run != nil {
		o2 := r.Ob("C03.R6", "limit-read-after-parse:"+funcName(run)).At(run.Pos())
		var parse ssa.Instruction
		for _, s := range callsIn(run, "fingerproxy.parseFlags") {
			parse = s
		}
		if o2.Check(parse != nil, "Run does not call parseFlags") {
			n := 0
			eachInstr(run, func(i ssa.Instruction) {
				cc := callOf(i)
				if cc == nil {
					return
				}
				builds := calleeName(cc) == "fingerproxy.DefaultHeaderInjectors"
				if cc.Value != nil && !cc.IsInvoke() && strings.HasSuffix(c.Expr(cc.Value), "fingerproxy.GetHeaderInjectors") {
					builds = true
				}
				if builds {
					n++
					o2.AtI(i).Check(instrDominates(parse, i), "the header injectors (and with them the HTTP/2 priority-frame limit) are built before the command line is parsed")
				}
			})
			o2.Check(n >= 1, "Run does not build the header injectors")
		}
	}
	// the X-HTTP2-Fingerprint injector is bound to that parameter object's method
	checkInjectorRow(r, "C03.R6", "X-Http2-Fingerprint", "(*fingerprint.HTTP2FingerprintParam).HTTP2Fingerprint")
}

// checkInjectorRow: DefaultHeaderInjectors binds header name (canonical form) to the given fingerprint function.
func checkInjectorRow(r *R, rule, canonName, fnName string) {
	c := r.C
	di := c.Func("", "DefaultHeaderInjectors")
	r.need(di != nil, "DefaultHeaderInjectors not found")
	o := r.Ob(rule, "injector-row:"+canonName).At(di.Pos())
	rows := map[string]string{}
	for _, s := range callsIn(di, "fingerprint.NewFingerprintHeaderInjector") {
		a := callOf(s).Args
		nm, _ := constString(a[0])
		f := c.Expr(a[1])
		rows[canonicalMIME(nm)] = strings.TrimPrefix(strings.TrimPrefix(f, "closure:"), "func:")
		o.AtI(s)
	}
	o.Check(rows[canonName] == fnName, "header %s is bound to %q, want %s (rows: %v)", canonName, rows[canonName], fnName, rows)
	o.Check(len(rows) == 3, "expected three default injectors, found %d", len(rows))
	// each injector built is returned (in the slice literal)
	eachInstr(di, func(i ssa.Instruction) {
		if ret, ok := i.(*ssa.Return); ok {
			els := variadicElems(ret.Results[0])
			o.Check(len(els) == 3, "DefaultHeaderInjectors returns %d injectors", len(els))
		}
	})
	// the constructor keeps name and function
	nf := c.Func("pkg/fingerprint", "NewFingerprintHeaderInjector")
	if o.Check(nf != nil, "NewFingerprintHeaderInjector not found") {
		eachInstr(nf, func(i ssa.Instruction) {
			if al, ok := i.(*ssa.Alloc); ok && allocOfStruct(al, "FingerprintHeaderInjector") {
				f := complitFields(al)
				o.Check(f["HeaderName"] != nil && c.Expr(f["HeaderName"]) == "p0" && f["FingerprintFunc"] != nil && c.Expr(f["FingerprintFunc"]) == "p1", "constructor stores (HeaderName=%s, FingerprintFunc=%s)", exprOrNil(c, f["HeaderName"]), exprOrNil(c, f["FingerprintFunc"]))
			}
		})
	}
	gn := c.Method("pkg/fingerprint", "FingerprintHeaderInjector", "GetHeaderName")
	if o.Check(gn != nil, "GetHeaderName not found") {
		eachInstr(gn, func(i ssa.Instruction) {
			if ret, ok := i.(*ssa.Return); ok {
				o.Check(c.Expr(ret.Results[0]) == "p0.HeaderName", "GetHeaderName returns %s", c.Expr(ret.Results[0]))
			}
		})
	}
	// Run uses GetHeaderInjectors(), whose initial value is DefaultHeaderInjectors and which product code never reassigns
	g := c.Global("", "GetHeaderInjectors")
	if o.Check(g != nil, "GetHeaderInjectors not found") {
		for _, w := range globalWriters(c.Product(), g) {
			if isInitFn(w.Fn) {
				o.Check(c.Expr(w.Instr.(*ssa.Store).Val) == "func:fingerproxy.DefaultHeaderInjectors", "GetHeaderInjectors defaults to %s", c.Expr(w.Instr.(*ssa.Store).Val))
			} else {
				o.AtI(w.Instr).Fail("GetHeaderInjectors is reassigned in %s", funcName(w.Fn))
			}
		}
	}
	run := c.Func("", "Run")
	if o.Check(run != nil, "Run not found") {
		ok := false
		for _, s := range callsIn(run, "fingerproxy.defaultReverseProxyHTTPHandler") {
			ok = c.Expr(callOf(s).Args[1]) == "dyn:fingerproxy.GetHeaderInjectors()"
			o.AtI(s).Check(ok, "Run passes %s as injectors", c.Expr(callOf(s).Args[1]))
		}
		o.Check(ok, "Run does not hand GetHeaderInjectors() to the handler")
	}
	dh := c.Func("", "defaultReverseProxyHTTPHandler")
	if o.Check(dh != nil, "defaultReverseProxyHTTPHandler not found") {
		for _, s := range callsIn(dh, "reverseproxy.NewHTTPHandler") {
			o.Check(c.Expr(callOf(s).Args[2]) == "p1", "NewHTTPHandler gets injectors %s", c.Expr(callOf(s).Args[2]))
		}
	}
	nh := c.Func("pkg/reverseproxy", "NewHTTPHandler")
	if o.Check(nh != nil, "NewHTTPHandler not found") {
		eachInstr(nh, func(i ssa.Instruction) {
			if al, ok := i.(*ssa.Alloc); ok && allocOfStruct(al, "HTTPHandler") {
				f := complitFields(al)
				o.Check(f["HeaderInjectors"] != nil && c.Expr(f["HeaderInjectors"]) == "p2", "handler's HeaderInjectors is %s", exprOrNil(c, f["HeaderInjectors"]))
			}
		})
	}
}

// idxNonZero: the literals say that the (non-negative) loop index is not zero — `i != 0` or `i > 0`.
func idxNonZero(gs []string, idx string) bool {
	is := func(x string) bool { return x == idx }
	return intRel(gs, is, "!=", 0) || intRel(gs, is, ">", 0)
}
