package main

import (
	"fmt"
	"go/token"
	"sort"
	"strings"

	"golang.org/x/tools/go/ssa"
)

func init() {
	register("C11", false,
		ruleDef{"C11.R1", c11r1},
		ruleDef{"C11.R2", c11r2},
		ruleDef{"C11.R3", c11r3},
		ruleDef{"C11.R4", c11r4},
		ruleDef{"C11.R5", c11r5},
		ruleDef{"C11.R6", c11r6},
		ruleDef{"C11.R7", c11r7},
		ruleDef{"C11.R9", func(r *R) { lockNotReentered(r, "C11.R9", false) }},
		// a lock leaked on an error path parks every later handshake (GetCertificate) or request forever
		ruleDef{"C11.R10", func(r *R) {
			locksReleased(r, "C11.R10", "pkg/certwatcher", "pkg/metadata", "pkg/proxyserver", "pkg/hack", "pkg/fingerprint", "pkg/reverseproxy")
		}},
	)
}

// escapeFromBlock is escapePath starting at the first instruction of block b.
func (c *Ctx) escapeFromBlock(fn *ssa.Function, b *ssa.BasicBlock, via, bad func(ssa.Instruction) bool) []string {
	if len(b.Instrs) == 0 {
		return nil
	}
	first := b.Instrs[0]
	if via(first) {
		return nil
	}
	if bad(first) {
		return []string{c.Pos(instrPos(first))}
	}
	return c.escapePath(fn, first, via, bad)
}

func deferOf(fn *ssa.Function, pred func(*ssa.Defer) bool) *ssa.Defer {
	var out *ssa.Defer
	eachInstr(fn, func(i ssa.Instruction) {
		if d, ok := i.(*ssa.Defer); ok && out == nil && pred(d) {
			out = d
		}
	})
	return out
}

// deferredCall: a `defer recv.M()` in fn whose callee is `callee` and whose receiver (or first argument) satisfies ok —
// written directly, or as a deferred function literal that makes that call on every path through it (there the receiver
// is a captured variable and reads outer(…)).
func deferredCall(c *Ctx, fn *ssa.Function, callee string, ok func(recv string) bool) *ssa.Defer {
	recvOf := func(cc *ssa.CallCommon) string {
		if cc.IsInvoke() {
			return c.Expr(cc.Value)
		}
		if len(cc.Args) > 0 {
			return c.Expr(cc.Args[0])
		}
		return ""
	}
	return deferOf(fn, func(d *ssa.Defer) bool {
		if calleeName(&d.Call) == callee && ok(recvOf(&d.Call)) {
			return true
		}
		D := staticCallee(&d.Call)
		if D == nil || D.Parent() != fn || len(D.Blocks) == 0 {
			return false
		}
		is := func(j ssa.Instruction) bool {
			cc := callOf(j)
			if cc == nil || calleeName(cc) != callee {
				return false
			}
			rv := recvOf(cc)
			return strings.HasPrefix(rv, "outer(") && strings.HasSuffix(rv, ")") && ok(rv[len("outer("):len(rv)-1])
		}
		n := 0
		eachInstr(D, func(j ssa.Instruction) {
			if is(j) {
				n++
			}
		})
		return n > 0 && c.escapePath(D, nil, is, isReturn) == nil
	})
}

func c11r1(r *R) {
	c := r.C
	serve, _, sc := serveLoop(r)
	// serveConn: defer conn.Close() before anything that can block or fail
	o := r.Ob("C11.R1", "defer-close-conn:"+funcName(sc)).At(sc.Pos())
	d := deferredCall(c, sc, "(net.Conn).Close", func(rv string) bool { return rv == "p1" })
	if o.Check(d != nil, "no `defer conn.Close()` on the accepted connection in %s", funcName(sc)) {
		o.AtI(d)
		o.Check(d.Block().Index == 0, "the deferred Close of the accepted connection is conditional")
		for _, i := range d.Block().Instrs {
			if i == ssa.Instruction(d) {
				break
			}
			if _, isCall := i.(*ssa.Call); isCall {
				o.Fail("call %s happens before the connection's Close is deferred; an early exit or panic there leaks the socket", shortInstr(i))
			}
		}
	}
	o2 := r.Ob("C11.R1", "defer-close-tlsconn:"+funcName(sc))
	d2 := deferredCall(c, sc, "(*crypto/tls.Conn).Close", func(rv string) bool { return strings.HasPrefix(rv, "crypto/tls.Server(") })
	if o2.Check(d2 != nil, "no `defer tlsConn.Close()` in %s", funcName(sc)) {
		o2.AtI(d2)
		for _, hs := range callsIn(sc, "(*proxyserver.Server).tlsHandshakeWithTimeout", "(*crypto/tls.Conn).HandshakeContext", "(*crypto/tls.Conn).Handshake") {
			o2.Check(instrDominates(d2, hs), "the TLS connection's Close is deferred only after the handshake started")
		}
	}
	o3 := r.Ob("C11.R1", "defer-close-listener:"+funcName(serve)).At(serve.Pos())
	d3 := deferredCall(c, serve, "(net.Listener).Close", func(rv string) bool { return rv == "p1" })
	if o3.Check(d3 != nil, "Serve does not defer ln.Close()") {
		o3.AtI(d3).Check(d3.Block().Index == 0, "deferred listener Close is conditional")
	}
	// wrappers close what they wrap
	h := c.Method("pkg/hack", "HijackClientHelloConn", "Close")
	o4 := r.Ob("C11.R1", "wrapper-close-delegates:HijackClientHelloConn")
	if h != nil {
		o4.At(h.Pos())
	}
	dd := delegationDefect(c, h, "tlsConn", "Close", nil)
	o4.Check(dd == "", "HijackClientHelloConn.Close does not close the wrapped connection: %s", dd)
	t := c.Method("pkg/hack", "TLSClientHelloConn", "Close")
	o5 := r.Ob("C11.R1", "wrapper-close-delegates:TLSClientHelloConn")
	if t != nil {
		o5.At(t.Pos())
	}
	dd = delegationDefect(c, t, "Conn", "Close", func(i ssa.Instruction) bool {
		cc := callOf(i)
		return cc != nil && calleeName(cc) == "" && c.Expr(cc.Value) == "p0.Done"
	})
	o5.Check(dd == "", "TLSClientHelloConn.Close does not close the wrapped TLS connection: %s", dd)
}

func c11r2(r *R) {
	c := r.C
	t := c.Method("pkg/hack", "TLSClientHelloConn", "Close")
	r.need(t != nil, "TLSClientHelloConn.Close not found")
	o := r.Ob("C11.R2", "close-fires-done:"+funcName(t)).At(t.Pos())
	isDone := func(i ssa.Instruction) bool {
		cc := callOf(i)
		if _, ok := i.(*ssa.Call); !ok || cc == nil {
			return false
		}
		return calleeName(cc) == "" && c.Expr(cc.Value) == "p0.Done"
	}
	p := c.escapePath(t, nil, isDone, isReturn)
	o.Check(p == nil, "a path through TLSClientHelloConn.Close does not call Done: the per-connection goroutine waiting for the HTTP/1.1 server would never finish: %v", p)
	// Done is wired to the context serveConn waits on: reuse C16.R3's check
	c16r3link(r, "C11.R2")
}

// c16r3link re-checks (under another rule id) that serveConn waits on the context cancelled by the wrapper's Done.
func c16r3link(r *R, rule string) {
	c := r.C
	_, _, sc := serveLoop(r)
	o := r.Ob(rule, "h1-wait-is-wrapper-done")
	found := false
	eachInstr(sc, func(i ssa.Instruction) {
		al, ok := i.(*ssa.Alloc)
		if !ok || !allocOfStruct(al, "hack.TLSClientHelloConn") {
			return
		}
		f := complitFields(al)
		if d := f["Done"]; d != nil {
			o.AtI(i)
			de := c.Expr(d)
			if strings.HasPrefix(de, "context.WithCancel(") && strings.HasSuffix(de, "#1") {
				ctx := strings.TrimSuffix(de, "#1") + "#0"
				eachInstr(sc, func(j ssa.Instruction) {
					if u, ok := j.(*ssa.UnOp); ok && u.Op == token.ARROW && c.Expr(u) == "recv((context.Context).Done("+ctx+"))" {
						found = true
						o.AtI(j)
					}
				})
			}
		}
		if cn := f["Conn"]; cn != nil {
			o.Check(strings.HasPrefix(c.Expr(cn), "crypto/tls.Server("), "wrapper's Conn is %s, not this connection's tls.Conn", c.Expr(cn))
		}
	})
	o.Check(found, "serveConn does not wait on the Done channel of the context whose cancel func is the wrapper's Done")
}

func c11r3(r *R) {
	c := r.C
	n := 0
	for _, fn := range c.FuncsIn(appPkgs...) {
		for _, s := range callsIn(fn, "(*crypto/tls.Conn).Handshake") {
			r.Ob("C11.R3", "handshake-without-context:"+funcName(fn)).AtI(s).Fail("tls.Conn.Handshake() without a context: neither the handshake timeout nor server shutdown can abort it")
		}
		for _, s := range callsIn(fn, "(*crypto/tls.Conn).HandshakeContext") {
			// one call per branch, or one call with the context chosen per branch
			for _, vc := range c.valueCases(callOf(s).Args[1], s.Block()) {
				n++
				e, gs := vc.E, vc.Guards
				o := r.Ob("C11.R3", "handshake-context:"+funcName(fn)+":"+map[bool]string{true: "no-timeout", false: "timeout"}[e == "p0.ctx"]).AtI(s)
				switch {
				case e == "p0.ctx":
					o.Check(hasGuard(gs, "+(0 == p0.TLSHandshakeTimeout)"), "handshake runs under the bare server context although a handshake timeout may be configured; guards %v", gs)
				case e == "context.WithTimeout(p0.ctx, p0.TLSHandshakeTimeout)#0":
					// cancel deferred
					dd := deferOf(fn, func(d *ssa.Defer) bool {
						return c.Expr(d.Call.Value) == "context.WithTimeout(p0.ctx, p0.TLSHandshakeTimeout)#1"
					})
					o.Check(dd != nil, "the timeout context's cancel func is not deferred (timer leak per connection)")
				default:
					o.Fail("handshake context is %s; want server.ctx or context.WithTimeout(server.ctx, server.TLSHandshakeTimeout)", e)
				}
			}
		}
	}
	r.Ob("C11.R3", "instances").Check(n >= 2, "expected >= 2 HandshakeContext cases (with / without timeout), found %d", n)
	// configuration wiring
	dps := c.Func("", "defaultProxyServer")
	r.need(dps != nil, "defaultProxyServer not found")
	o := r.Ob("C11.R3", "handshake-timeout-wiring").At(dps.Pos())
	srv := c.Named("pkg/proxyserver", "Server")
	found := false
	for _, a := range fieldAccesses(c.FuncsIn(""), srv, "TLSHandshakeTimeout") {
		if a.Kind == "write" {
			found = true
			o.AtI(a.Instr)
			o.Check(c.Expr(a.Instr.(*ssa.Store).Val) == "fingerproxy.parseTLSHandshakeTimeout()", "TLSHandshakeTimeout is set from %s", c.Expr(a.Instr.(*ssa.Store).Val))
		}
	}
	o.Check(found, "the CLI handshake timeout is never stored into Server.TLSHandshakeTimeout")
	checkParseFlag(r, o, "parseTLSHandshakeTimeout", "flagTimeoutTLSHandshake", "timeout-tls-handshake")
}

// checkParseFlag: parse function returns time.ParseDuration(*flag)#0 and the flag is registered under name.
func checkParseFlag(r *R, o *Ob, parseFn, flagVar, flagName string) {
	c := r.C
	pf := c.Func("", parseFn)
	if !o.Check(pf != nil, "%s not found", parseFn) {
		return
	}
	ok := false
	eachInstr(pf, func(i ssa.Instruction) {
		if ret, isR := i.(*ssa.Return); isR {
			e := c.Expr(ret.Results[0])
			if e == "time.ParseDuration(fingerproxy."+flagVar+")#0" {
				ok = true
			} else {
				o.AtI(i).Fail("%s returns %s, want the parsed value of *%s", parseFn, e, flagVar)
			}
		}
	})
	o.Check(ok, "%s does not return time.ParseDuration(*%s)", parseFn, flagVar)
	initFlags := c.Func("", "initFlags")
	if o.Check(initFlags != nil, "initFlags not found") {
		got := flagRegisteredAs(c, initFlags, flagVar)
		o.Check(got == flagName, "%s is registered as %q, want %q", flagVar, got, flagName)
	}
}

func c11r4(r *R) {
	c := r.C
	h2s := c.Named("pkg/http2", "Server")
	hs := c.Named("net/http", "Server")
	r.need(h2s != nil && hs != nil, "server types not found")
	// consumer: the fork arms its idle timer from its own field
	nread := 0
	for _, a := range fieldAccesses(c.FuncsIn("pkg/http2"), h2s, "IdleTimeout") {
		if a.Kind == "read" {
			nread++
		}
	}
	o := r.Ob("C11.R4", "idle-timeout:http2.Server.IdleTimeout")
	o.Check(nread >= 1, "the h2 server no longer reads Server.IdleTimeout (rule needs re-anchoring)")
	setup := c.Method("pkg/proxyserver", "Server", "setupServe")
	r.need(setup != nil, "setupServe not found")
	var stores []*ssa.Store
	for _, a := range fieldAccesses(c.FuncsIn(appPkgs...), h2s, "IdleTimeout") {
		if a.Kind == "write" {
			stores = append(stores, a.Instr.(*ssa.Store))
			o.AtI(a.Instr)
		}
	}
	if !o.Check(len(stores) > 0, "http2.Server.IdleTimeout is never set: the HTTP/2 serve loop arms its idle timer from this field (sc.srv.IdleTimeout), so idle HTTP/2 connections are never closed; the CLI idle timeout only reaches http.Server") {
		return
	}
	for _, st := range stores {
		for _, vc := range c.valueCases(st.Val, st.Block()) {
			e := vc.E
			okv := e == "p0.HTTPServer.IdleTimeout" || e == "p0.HTTPServer.ReadTimeout" || e == "fingerproxy.parseHTTPIdleTimeout()"
			o.Check(okv, "http2.Server.IdleTimeout is set from %s, want the HTTP server's idle (or read) timeout", e)
			if e == "p0.HTTPServer.ReadTimeout" {
				o.Check(hasGuard(vc.Guards, "-(0 != p0.HTTPServer.IdleTimeout)"), "ReadTimeout is used although IdleTimeout is set; guards %v", vc.Guards)
			}
		}
		if st.Parent() == setup {
			// every path where the h2 idle timeout is unset reaches a store
			var zeroIf *ssa.If
			zeroSide := 0
			eachInstr(setup, func(i ssa.Instruction) {
				if iff, ok := i.(*ssa.If); ok {
					switch c.Expr(iff.Cond) {
					case "(0 == p0.HTTP2Server.IdleTimeout)":
						zeroIf, zeroSide = iff, 0
					case "(0 != p0.HTTP2Server.IdleTimeout)":
						zeroIf, zeroSide = iff, 1
					}
				}
			})
			if zeroIf != nil {
				p := c.escapeFromBlock(setup, zeroIf.Block().Succs[zeroSide], func(i ssa.Instruction) bool {
					s, ok := i.(*ssa.Store)
					return ok && c.Expr(s.Addr) == "p0.HTTP2Server.IdleTimeout"
				}, isReturn)
				o.Check(p == nil, "a path with an unset HTTP/2 idle timeout leaves it unset: %v", p)
			} else {
				o.Check(len(guardsOf(st.Block())) == 0, "the HTTP/2 idle timeout is only set conditionally: %v", c.guardStrs(st.Block()))
			}
		}
	}
	// setupServe runs before the accept loop
	serve, goStmt, _ := serveLoop(r)
	for _, s := range callsIn(serve, "(*proxyserver.Server).setupServe") {
		o.Check(instrDominates(s, goStmt), "setupServe does not run before connections are served")
	}
	// http.Server timeouts from CLI
	dps := c.Func("", "defaultProxyServer")
	r.need(dps != nil, "defaultProxyServer not found")
	for _, w := range [][4]string{
		{"IdleTimeout", "parseHTTPIdleTimeout", "flagTimeoutHTTPIdle", "timeout-http-idle"},
		{"ReadTimeout", "parseHTTPReadTimeout", "flagTimeoutHTTPRead", "timeout-http-read"},
		{"WriteTimeout", "parseHTTPWriteTimeout", "flagTimeoutHTTPWrite", "timeout-http-write"},
	} {
		oo := r.Ob("C11.R4", "http.Server."+w[0]+"-wiring").At(dps.Pos())
		found := false
		for _, a := range fieldAccesses([]*ssa.Function{dps}, hs, w[0]) {
			if a.Kind == "write" {
				found = true
				oo.AtI(a.Instr)
				st := a.Instr.(*ssa.Store)
				oo.Check(c.Expr(st.Val) == "fingerproxy."+w[1]+"()", "http.Server.%s is set from %s", w[0], c.Expr(st.Val))
				oo.Check(strings.HasSuffix(c.Expr(st.Addr), ".HTTPServer."+w[0]), "store target is %s", c.Expr(st.Addr))
			}
		}
		oo.Check(found, "http.Server.%s is not set from the command line", w[0])
		checkParseFlag(r, oo, w[1], w[2], w[3])
	}
	// h2 reads Read/WriteTimeout through BaseConfig = the same http.Server
	_, _, sc := serveLoop(r)
	ob := r.Ob("C11.R4", "h2-baseconfig-is-httpserver")
	for _, s := range callsIn(sc, nServeConn) {
		if al, ok := callOf(s).Args[2].(*ssa.Alloc); ok {
			b := complitFields(al)["BaseConfig"]
			ob.AtI(s).Check(b != nil && c.Expr(b) == "p0.HTTPServer", "ServeConnOpts.BaseConfig is %s, want server.HTTPServer (read/write timeouts of h2 streams come from it)", exprOrNil(c, b))
		}
	}
}

func c11r5(r *R) {
	c := r.C
	serve := c.Method("pkg/http2", "serverConn", "serve")
	r.need(serve != nil, "serverConn.serve not found")
	o := r.Ob("C11.R5", "h2-teardown-defers:"+funcName(serve)).At(serve.Pos())
	var goRead ssa.Instruction
	eachInstr(serve, func(i ssa.Instruction) {
		if g, ok := i.(*ssa.Go); ok && calleeName(&g.Call) == "(*http2.serverConn).readFrames" {
			goRead = i
		}
	})
	o.Check(goRead != nil, "`go sc.readFrames()` not found")
	want := map[string]func(d *ssa.Defer) bool{
		"conn.Close": func(d *ssa.Defer) bool {
			return calleeName(&d.Call) == "(net.Conn).Close" && c.Expr(d.Call.Value) == "p0.conn"
		},
		"closeAllStreamsOnConnClose": func(d *ssa.Defer) bool {
			return calleeName(&d.Call) == "(*http2.serverConn).closeAllStreamsOnConnClose"
		},
		"stopShutdownTimer": func(d *ssa.Defer) bool { return calleeName(&d.Call) == "(*http2.serverConn).stopShutdownTimer" },
		"close(doneServing)": func(d *ssa.Defer) bool {
			return calleeName(&d.Call) == "builtin.close" && c.Expr(d.Call.Args[0]) == "p0.doneServing"
		},
	}
	var names []string
	for k := range want {
		names = append(names, k)
	}
	sort.Strings(names)
	for _, k := range names {
		d := deferOf(serve, want[k])
		if o.Check(d != nil, "serve loop does not defer %s", k) {
			o.AtI(d)
			o.Check(d.Block().Index == 0, "defer %s is conditional", k)
			if goRead != nil {
				o.Check(instrDominates(d, goRead), "defer %s is registered after the reader goroutine is started", k)
			}
			// registered before the first blocking operation (readPreface)
			for _, s := range callsIn(serve, "(*http2.serverConn).readPreface") {
				o.Check(instrDominates(d, s), "defer %s is registered after readPreface", k)
			}
		}
	}
	// timers armed in serve are stopped by defers
	eachInstr(serve, func(i ssa.Instruction) {
		call, ok := i.(*ssa.Call)
		if !ok || calleeName(&call.Call) != "(*http2.Server).afterFunc" {
			return
		}
		tm := c.Expr(call)
		stopped := deferOf(serve, func(d *ssa.Defer) bool {
			if !strings.HasSuffix(calleeName(&d.Call), ").Stop") {
				return false
			}
			return reachesAfter(i, d)
		})
		o.AtI(i).Check(stopped != nil, "timer %s armed in the serve loop is not stopped by a defer", tm)
	})
}

// ---- R6: blocking channel operations outside the serve loop

type chanOp struct {
	Fn    *ssa.Function
	Instr ssa.Instruction
	Kind  string // send | recv | select
	Desc  string
}

func chanOpsIn(c *Ctx, fn *ssa.Function) []chanOp {
	var out []chanOp
	eachInstr(fn, func(i ssa.Instruction) {
		switch x := i.(type) {
		case *ssa.Send:
			out = append(out, chanOp{fn, i, "send", c.Expr(x.Chan)})
		case *ssa.UnOp:
			if x.Op == token.ARROW {
				out = append(out, chanOp{fn, i, "recv", c.Expr(x.X)})
			}
		case *ssa.Select:
			if !x.Blocking {
				return
			}
			var ds []string
			for _, st := range x.States {
				dir := "recv"
				if st.Dir == 1 { // types.SendOnly
					dir = "send"
				}
				ds = append(ds, dir+" "+c.Expr(st.Chan))
			}
			sort.Strings(ds)
			out = append(out, chanOp{fn, i, "select", strings.Join(ds, " | ")})
		}
	})
	return out
}

// reviewed rendez-vous / bounded operations, keyed by function + kind + channel expression
var reviewedChanOps = map[string]string{
	"(*proxyserver.Server).serveConn|recv|(context.Context).Done(context.WithCancel(context.Background())#0)": "waits until the HTTP/1.1 server closes the wrapper (C11.R2: Close fires Done; D6 fix: a failed hand-off closes the conn)",
	"(*proxyserver.Server).Serve$1|recv|(context.Context).Done(outer(p0).ctx)":                                "shutdown watcher: one per Serve call, ends when the server context ends",
	"(*certwatcher.CertWatcher).Start|recv|(context.Context).Done(p1)":                                        "process-lifetime watcher, not per connection",
	"(*http2.serverConn).readFrames|recv|make(chan struct{},0)":                                               "gate: readFrames waits until the serve loop has processed the frame; the select before it has a doneServing case",
	"(*http2.serverConn).readPreface$1|send|outer(make(chan error,1))":                                        "buffered (cap 1), exactly one send per goroutine",
	"(*http2.responseWriter).CloseNotify$1|send|outer(make(chan bool,1))":                                     "buffered (cap 1), one send",
	"(*http2.serverConn).writeFrameAsync|send|p0.wroteFrameCh":                                                "serve loop always receives wroteFrameCh while writingFrameAsync (it does not exit before: see serve's shutdown condition)",
	"(*certwatcher.CertWatcher).Watch|select|recv p0.watcher.Errors | recv p0.watcher.Events":                 "process-lifetime watcher; returns when fsnotify closes its channels (Start closes the watcher when the context ends)",
	"(*http2.serverConn).readFrames$1|send|outer(make(chan struct{},0))":                                      "gateDone is called by the serve loop for the frame it just received; readFrames is then in the select on gate|doneServing",
	"(*http2.serverConn).startPush|send|p1.done":                                                              "done channels come from errChanPool (cap 1) and are sent to at most once per message",
}

func c11r6(r *R) {
	c := r.C
	serveFn := c.Method("pkg/http2", "serverConn", "serve")
	var fns []*ssa.Function
	seen := map[*ssa.Function]bool{}
	roots := goroutineRoots(c, proxyFuncs(c))
	for _, g := range roots {
		info := c.reachable([]*ssa.Function{g.Fn}, false, nil)
		for f := range info {
			if f.Blocks == nil || f.Pkg == nil || !strings.HasPrefix(f.Pkg.Pkg.Path(), modPath) || seen[f] {
				continue
			}
			seen[f] = true
			fns = append(fns, f)
		}
	}
	sort.Slice(fns, func(i, j int) bool { return funcName(fns[i]) < funcName(fns[j]) })
	n := 0
	for _, fn := range fns {
		if fn == serveFn {
			continue // the serve loop's own select is the connection's event loop; its exits are C11.R5 / C13
		}
		for _, op := range chanOpsIn(c, fn) {
			n++
			key := funcName(fn) + "|" + op.Kind + "|" + op.Desc
			o := r.Ob("C11.R6", op.Kind+":"+funcName(fn)+":"+op.Desc).AtI(op.Instr)
			switch {
			case op.Kind == "select" && (strings.Contains(op.Desc, "doneServing") || strings.Contains(op.Desc, ".Done(") || strings.Contains(op.Desc, "time.After") || strings.Contains(op.Desc, ".C")):
				o.OK("select with an exit case")
			case op.Kind == "select" && selectAllBuffered(op.Desc):
				o.OK("select over buffered channels")
			case reviewedChanOps[key] != "":
				o.OK("reviewed: %s", reviewedChanOps[key])
			case op.Kind == "send" && bufferedOnce(c, op):
				o.OK("send on a channel created with capacity >= 1, not in a loop")
			default:
				o.Fail("blocking %s on %s in %s has no exit (no doneServing/context case, not a bounded buffered send, not in the reviewed table): a goroutine serving a connection can be stranded here forever", op.Kind, op.Desc, funcName(fn))
			}
		}
	}
	handoffUnbuffered(r, "C11.R6")
	r.Ob("C11.R6", "instances").Check(n >= 15, "expected >= 15 blocking channel operations on per-connection goroutines, found %d", n)
}

func selectAllBuffered(desc string) bool { return false }

// bufferedOnce: send on make(chan T, k>=1) created in the same function (or captured from the parent), not inside a loop.
func bufferedOnce(c *Ctx, op chanOp) bool {
	d := op.Desc
	d = strings.TrimPrefix(d, "outer(")
	if !strings.HasPrefix(d, "make(chan ") {
		return false
	}
	k := strings.LastIndex(d, ",")
	if k < 0 {
		return false
	}
	capStr := strings.TrimRight(d[k+1:], ")")
	if capStr == "0" || capStr == "" {
		return false
	}
	for _, ch := range capStr {
		if ch < '0' || ch > '9' {
			return false
		}
	}
	return !inLoop(op.Instr.Block())
}

var _ = fmt.Sprint

// onlyGuards: every guard of block b matches one of the allowed renderings; returns the offending guard.
func onlyGuards(c *Ctx, b *ssa.BasicBlock, allowed ...string) string {
	for _, g := range c.guardStrs(b) {
		ok := false
		for _, a := range allowed {
			if g == canonStr(a) {
				ok = true
			}
		}
		if !ok {
			return g
		}
	}
	return ""
}

// R7: the h2 idle timer is re-armed whenever the connection becomes idle again.
func c11r7(r *R) {
	c := r.C
	ph := c.Method("pkg/http2", "serverConn", "processHeaders")
	cs := c.Method("pkg/http2", "serverConn", "closeStream")
	r.need(ph != nil && cs != nil, "processHeaders/closeStream not found")
	o := r.Ob("C11.R7", "idle-timer-rearmed:"+funcName(cs)).At(cs.Pos())
	stops := 0
	for _, fn := range c.FuncsIn("pkg/http2") {
		if !strings.Contains(funcName(fn), "serverConn") {
			continue
		}
		eachInstr(fn, func(i ssa.Instruction) {
			if cc := callOf(i); cc != nil && cc.IsInvoke() && cc.Method.Name() == "Stop" && c.Expr(cc.Value) == "p0.idleTimer" {
				if _, isDefer := i.(*ssa.Defer); !isDefer {
					stops++
					o.AtI(i)
				}
			}
		})
	}
	o.Check(stops >= 1, "the serve loop no longer stops the idle timer when a stream opens (rule needs re-anchoring)")
	var resets []ssa.Instruction
	eachInstr(cs, func(i ssa.Instruction) {
		if cc := callOf(i); cc != nil && cc.IsInvoke() && cc.Method.Name() == "Reset" && c.Expr(cc.Value) == "p0.idleTimer" {
			resets = append(resets, i)
		}
	})
	if !o.Check(len(resets) == 1, "closeStream re-arms the idle timer at %d sites, want 1", len(resets)) {
		return
	}
	rs := resets[0]
	o.AtI(rs)
	o.Check(c.Expr(callOf(rs).Args[0]) == "p0.srv.IdleTimeout", "idle timer is re-armed with %s, want the configured idle timeout", c.Expr(callOf(rs).Args[0]))
	bad := onlyGuards(c, rs.Block(), "+(0 == builtin.len(p0.streams))", "+(0 < p0.srv.IdleTimeout)", "+(nil != p0.idleTimer)", "-(1 != p1.state)", "-(nil == p1)", "+(nil != p1)")
	if bad != "" {
		// tolerate guards that merely re-state the stream's open state checked at the top of closeStream
		if !(strings.Contains(bad, "p1.state") && !strings.Contains(bad, "p2")) {
			o.Fail("re-arming the idle timer when the last stream closes is additionally conditional on %s: a connection whose last stream ends otherwise (reset, error) stays open forever once idle", bad)
		}
	}
}

func init() {
	p := registry["C11"]
	p.Rules = append(p.Rules, ruleDef{"C11.R8", func(r *R) {
		forkSiblingRule(r, "C11.R8", "server.go", "timer.go")
	}})
	wantRefs("C11")
}
