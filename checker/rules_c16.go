package main

import (
	"os"
	"strings"

	"golang.org/x/tools/go/ssa"
)

const (
	nMetricInc = "(*proxyserver.Server).metricsRequestsTotalInc"
	nServeConn = "(*http2.Server).ServeConn"
)

func init() {
	register("C16", false,
		ruleDef{"C16.R1", c16r1},
		ruleDef{"C16.R2", c16r2},
		ruleDef{"C16.R3", c16r3},
		ruleDef{"C16.R4", c16r4},
		ruleDef{"C16.R5", c16r5},
		ruleDef{"C16.R6", c16r6},
	)
}

// R5: every accepted connection is handed to the per-connection function (where the one increment lives): from the
// success edge of Accept no path returns from Serve, or accepts again, without having started it.
func c16r5(r *R) {
	c := r.C
	serve, goStmt, _ := serveLoop(r)
	o := r.Ob("C16.R5", "every-accepted-conn-is-served:"+funcName(serve)).At(serve.Pos()).AtI(goStmt)
	var acc ssa.Instruction
	for _, s := range callsIn(serve, "(net.Listener).Accept") {
		acc = s
	}
	if !o.Check(acc != nil, "Accept call not found in Serve") {
		return
	}
	// the success block: successor of the err test on which err == nil
	n := 0
	for _, b := range serve.Blocks {
		if !hasGuard(c.guardStrs(b), "+((net.Listener).Accept(p1)#1 == nil)") || len(b.Preds) != 1 {
			continue
		}
		if hasGuard(c.guardStrs(b.Preds[0]), "+((net.Listener).Accept(p1)#1 == nil)") {
			continue // not the first block of the success region
		}
		n++
		p := c.escapeFromBlock(serve, b, func(i ssa.Instruction) bool { return i == ssa.Instruction(goStmt) }, func(i ssa.Instruction) bool {
			return isReturn(i) || i == acc
		})
		o.Check(p == nil, "an accepted connection can be dropped without being served (and so without being counted): %v", p)
	}
	o.Check(n >= 1, "the success edge of Accept was not found (rule needs re-anchoring)")
}

// R6: the counter that is incremented is the one the registry exposes: the field is assigned in registerMetrics only,
// only while it is still unset, and the value is the vector that promauto registered with the server's registry.
func c16r6(r *R) {
	c := r.C
	srv := c.Named("pkg/proxyserver", "Server")
	r.need(srv != nil, "proxyserver.Server not found")
	o := r.Ob("C16.R6", "counter-is-the-registered-one")
	n := 0
	for _, a := range fieldAccesses(c.FuncsIn(appPkgs...), srv, "metricRequestsTotal") {
		if a.Kind == "read" {
			continue
		}
		n++
		o.AtI(a.Instr)
		st, ok := a.Instr.(*ssa.Store)
		if !o.Check(ok, "the address of metricRequestsTotal escapes (%s) in %s", a.Kind, funcName(a.Fn)) {
			continue
		}
		o.Check(funcName(a.Fn) == "(*proxyserver.Server).registerMetrics", "metricRequestsTotal is assigned in %s", funcName(a.Fn))
		e := c.Expr(st.Val)
		o.Check(strings.HasPrefix(e, "(github.com/prometheus/client_golang/prometheus/promauto.Factory).NewCounterVec(github.com/prometheus/client_golang/prometheus/promauto.With(p0.MetricsRegistry), "), "metricRequestsTotal is set to %s, want the vector promauto registers with server.MetricsRegistry (an unregistered or second vector counts where nobody looks)", e)
		gs := c.guardStrs(st.Block())
		o.Check(hasGuard(gs, "-(*proxyserver.Server).metricsRegistered(p0)") || hasGuard(gs, "+(nil == p0.metricRequestsTotal)"), "the counter can be replaced after it was registered (a second Serve call would swap the live counter); guards %v", gs)
		// and it is registered whenever there is a registry and no counter yet: nothing else decides
		for _, alt := range c.pathAlts(st.Block()) {
			for _, l := range alt {
				okLit := l == "-(*proxyserver.Server).metricsRegistered(p0)" || relHolds([]string{l}, "p0.metricRequestsTotal", "==", "nil") || relHolds([]string{l}, "p0.MetricsRegistry", "!=", "nil")
				o.Check(okLit, "whether requests_total is registered depends on %s (conditions %v): want `a registry is configured and the counter does not exist yet`", l, alt)
			}
		}
	}
	o.Check(n == 1, "metricRequestsTotal has %d writers, want exactly one (registerMetrics)", n)
}

// serveLoop finds Server.Serve and the per-connection function started by its `go` statement on the Accept result.
func serveLoop(r *R) (serve *ssa.Function, goStmt *ssa.Go, connFn *ssa.Function) {
	c := r.C
	serve = c.Method("pkg/proxyserver", "Server", "Serve")
	r.need(serve != nil, "proxyserver.Server.Serve not found")
	eachInstr(serve, func(i ssa.Instruction) {
		g, ok := i.(*ssa.Go)
		if !ok {
			return
		}
		f := staticCallee(&g.Call)
		if f == nil {
			return
		}
		for _, a := range g.Call.Args {
			if strings.Contains(c.Expr(a), "(net.Listener).Accept(p1)#0") {
				goStmt, connFn = g, f
			}
		}
	})
	r.need(connFn != nil, "no `go f(conn)` on the Accept result found in Server.Serve")
	return
}

func c16r1(r *R) {
	_, _, sc := serveLoop(r)
	res := countOnPaths(sc, countWithCallees(func(i ssa.Instruction) int {
		if isCall(i, nMetricInc) {
			return 1
		}
		return 0
	}, 2))
	o := r.Ob("C16.R1", "exactly-once:"+funcName(sc)).At(sc.Pos())
	for _, s := range callsIn(sc, nMetricInc) {
		o.AtI(s)
	}
	o.Check(res.Exits >= 1, "no normal exit found")
	o.Check(!res.InLoop, "a requests_total increment lies inside a loop")
	o.Check(res.Min == 1 && res.Max == 1, "requests_total increments per entry→return path: min=%d max=%d (want exactly 1 on every path)", res.Min, res.Max)
	// a panic between the failed handshake and the count is recovered by serveConn's deferred function, but the count
	// is lost: the 400 reply for a plain-HTTP client is written to the record-header error's connection, which crypto/tls
	// leaves nil for every error but "first record does not look like a TLS handshake"
	c := r.C
	eachInstr(sc, func(i ssa.Instruction) {
		cc := callOf(i)
		if cc == nil {
			return
		}
		for _, a := range cc.Args {
			e := c.Expr(a)
			if !strings.HasSuffix(e, "#0.Conn") || !strings.Contains(e, "assert[tls.RecordHeaderError](") {
				continue
			}
			okA := strings.TrimSuffix(e, "#0.Conn") + "#1"
			for _, alt := range c.pathAlts(i.Block()) {
				o.AtI(i).Check(hasGuard(alt, "+"+okA) && relHolds(alt, e, "!=", "nil"), "%s is handed the record-header error's connection without `ok && re.Conn != nil` (conditions %v): a nil connection panics here, before the connection is counted", calleeName(cc), alt)
			}
		}
	})
	// a deferred increment would run on every exit in addition: forbid defers of the counter unless it is the only site
	eachInstr(sc, func(i ssa.Instruction) {
		if d, ok := i.(*ssa.Defer); ok {
			f := staticCallee(&d.Call)
			if calleeName(&d.Call) == nMetricInc || (f != nil && len(callsIn(f, nMetricInc)) > 0) {
				o.AtI(i).Check(res.Max == 0, "requests_total is incremented in a deferred call in addition to %d inline site(s)", res.Max)
			}
		}
	})
	// nested closures must not count either
	for _, a := range sc.AnonFuncs {
		for _, s := range callsIn(a, nMetricInc) {
			o.AtI(s).Fail("requests_total incremented inside closure %s of the per-connection function", funcName(a))
		}
	}
	o.OK("%d normal exits, exactly one increment on each", res.Exits)
}

// handshakeErrorPropagates: tlsHandshakeWithTimeout reports what HandshakeContext reported — the error itself or an error
// wrapping it; nil only when the handshake returned nil. (A shadowed or filtered error makes a failed handshake look
// like a success: the connection is then served and counted ok="1".)
func handshakeErrorPropagates(r *R) {
	c := r.C
	hs := c.Method("pkg/proxyserver", "Server", "tlsHandshakeWithTimeout")
	if hs == nil {
		return // handshake done in place: the count rules read the HandshakeContext result directly
	}
	o := r.Ob("C16.R2", "handshake-error-propagates:"+funcName(hs)).At(hs.Pos())
	n := 0
	for _, ra := range c.returnAlts(hs, 0) {
		n++
		o.AtI(ra.Ret)
		if os.Getenv("FPCHECK_DEBUG_C16") != "" {
			println("C16 hs return:", ra.E, "||", strings.Join(ra.Lits, " ; "))
		}
		isCall := strings.HasPrefix(ra.E, "(*crypto/tls.Conn).HandshakeContext(")
		wraps := strings.HasPrefix(ra.E, "errtext\"") && strings.Contains(ra.E, "⟨%w⟩") && strings.Contains(ra.E, "(*crypto/tls.Conn).HandshakeContext(")
		switch {
		case isCall || wraps:
		case ra.E == "nil":
			ok := false
			for _, l := range ra.Lits {
				if pos, a, op, b, okp := parseRelLit(l); okp && (a == "nil" || b == "nil") && strings.Contains(a+b, "(*crypto/tls.Conn).HandshakeContext(") && (op == "==") == pos {
					ok = true
				}
			}
			o.Check(ok, "tlsHandshakeWithTimeout returns nil under %v without the handshake having returned nil", ra.Lits)
		default:
			o.Fail("tlsHandshakeWithTimeout returns %s, want the result of HandshakeContext (or an error wrapping it)", ra.E)
		}
	}
	o.Check(n > 0, "tlsHandshakeWithTimeout has no return")
}

func c16r2(r *R) {
	handshakeErrorPropagates(r)
	c := r.C
	_, _, sc := serveLoop(r)
	n := 0
	for _, s := range callsIn(sc, nMetricInc) {
		a := callOf(s).Args
		ok, _ := constString(a[1])
		gs := c.guardStrs(s.Block())
		failed := guardErrOn(gs, "tlsHandshakeWithTimeout(") || guardErrOn(gs, "GetClientHello(")
		n++
		o := r.Ob("C16.R2", "labels:"+c.Pos(instrPos(s))[strings.LastIndex(c.Pos(instrPos(s)), "/")+1:]).AtI(s)
		o.Construct = "labels:" + ok + ":" + failKind(gs)
		if failed {
			p, isC := constString(a[2])
			o.Check(ok == "0" && isC && p == "", "on a handshake/capture failure path the counter is labelled (%s, %s), want (\"0\", \"\")", c.Expr(a[1]), c.Expr(a[2]))
		} else {
			hsOK := guardOkOn(gs, "tlsHandshakeWithTimeout(") && guardOkOn(gs, "GetClientHello(")
			o.Check(hsOK, "success-labelled increment is not dominated by handshake success and capture success; guards %v", gs)
			pe := c.Expr(a[2])
			o.Check(ok == "1", "on the success path ok label is %s, want \"1\"", c.Expr(a[1]))
			o.Check(strings.HasSuffix(pe, ".NegotiatedProtocol") && strings.Contains(pe, "(*crypto/tls.Conn).ConnectionState(crypto/tls.Server("),
				"protocol label is %s, want ConnectionState().NegotiatedProtocol of this connection's tls.Conn", pe)
		}
	}
	r.Ob("C16.R2", "instances").Check(n >= 2, "expected >= 2 increment sites (failure and success), found %d", n)
}

func guardIsErr(gs []string, callee string) bool {
	for _, g := range gs {
		if strings.HasPrefix(g, "+(") && strings.Contains(g, callee) && strings.HasSuffix(g, " != nil)") {
			return true
		}
	}
	return false
}

func failKind(gs []string) string {
	switch {
	case guardIsErr(gs, "tlsHandshakeWithTimeout("):
		return "handshake-error"
	case guardIsErr(gs, "GetClientHello("):
		return "capture-error"
	}
	return "served"
}

// R3: the success count happens only after the connection has been served.
func c16r3(r *R) {
	c := r.C
	_, _, sc := serveLoop(r)
	for _, s := range callsIn(sc, nMetricInc) {
		if k, _ := constString(callOf(s).Args[1]); k != "1" {
			continue
		}
		o := r.Ob("C16.R3", "count-after-served").AtI(s)
		via := func(i ssa.Instruction) bool {
			if isCall(i, nServeConn) {
				return true
			}
			if u, ok := i.(*ssa.UnOp); ok && u.Op.String() == "<-" {
				e := c.Expr(u)
				return strings.HasPrefix(e, "recv((context.Context).Done(context.WithCancel(")
			}
			return false
		}
		if p := c.escapePath(sc, nil, via, func(i ssa.Instruction) bool { return i == s }); p != nil {
			o.Fail("the ok=\"1\" increment is reachable without first serving the connection (h2 ServeConn returned / h1 wrapper closed): %s", strings.Join(p, " "))
		} else {
			o.OK("dominated by ServeConn's return (h2) or the receive on the hand-off context's Done (h1)")
		}
	}
	// the h1 wait is on the context whose cancel function is handed to the conn wrapper as Done
	o := r.Ob("C16.R3", "h1-wait-is-wrapper-done")
	found := false
	eachInstr(sc, func(i ssa.Instruction) {
		al, ok := i.(*ssa.Alloc)
		if !ok || !allocOfStruct(al, "hack.TLSClientHelloConn") {
			return
		}
		f := complitFields(al)
		if d := f["Done"]; d != nil {
			o.AtI(i)
			de := c.Expr(d)
			if strings.HasPrefix(de, "context.WithCancel(") && strings.HasSuffix(de, "#1") {
				ctx := strings.TrimSuffix(de, "#1") + "#0"
				eachInstr(sc, func(j ssa.Instruction) {
					if u, ok := j.(*ssa.UnOp); ok && u.Op.String() == "<-" && c.Expr(u) == "recv((context.Context).Done("+ctx+"))" {
						found = true
						o.AtI(j)
					}
				})
			}
		}
	})
	o.Check(found, "serveConn does not wait on the Done channel of the context whose cancel func is the wrapper's Done")
	// ... and the wrapper's Close fires Done on every path, otherwise the count never happens (shared with C11.R2)
	t := c.Method("pkg/hack", "TLSClientHelloConn", "Close")
	r.need(t != nil, "TLSClientHelloConn.Close not found")
	o5 := r.Ob("C16.R3", "close-fires-done:"+funcName(t)).At(t.Pos())
	p := c.escapePath(t, nil, func(i ssa.Instruction) bool {
		cc := callOf(i)
		_, isCall := i.(*ssa.Call)
		return isCall && cc != nil && calleeName(cc) == "" && c.Expr(cc.Value) == "p0.Done"
	}, isReturn)
	o5.Check(p == nil, "a path through TLSClientHelloConn.Close does not call Done: the per-connection goroutine never gets to count that connection: %v", p)
	handoffUnbuffered(r, "C16.R3")
}

func c16r4(r *R) {
	c := r.C
	serve, goStmt, sc := serveLoop(r)
	inc := c.Method("pkg/proxyserver", "Server", "metricsRequestsTotalInc")
	r.need(inc != nil, "metricsRequestsTotalInc not found")
	// callers
	o := r.Ob("C16.R4", "who-may-count").At(inc.Pos())
	for _, fn := range c.FuncsIn() {
		for _, s := range callsIn(fn, nMetricInc) {
			o.AtI(s)
			o.Check(fn == sc, "requests_total is also incremented from %s", funcName(fn))
		}
	}
	// serveConn is started only by the go statement in Serve
	o2 := r.Ob("C16.R4", "one-goroutine-per-accept").AtI(goStmt)
	for _, fn := range c.FuncsIn() {
		eachInstr(fn, func(i ssa.Instruction) {
			if cc := callOf(i); cc != nil && staticCallee(cc) == sc && i != ssa.Instruction(goStmt) {
				o2.AtI(i).Fail("per-connection function %s is also called from %s", funcName(sc), funcName(fn))
			}
		})
	}
	gs := c.guardStrs(goStmt.Block())
	o2.Check(hasGuardContaining(gs, "-", "(net.Listener).Accept(p1)#1 != nil"), "the go statement is not on the Accept err == nil edge; guards %v", gs)
	// exactly one go per loop iteration: from the Accept call, every path to the next Accept passes exactly one go of sc
	var accept ssa.Instruction
	for _, s := range callsIn(serve, "(net.Listener).Accept") {
		accept = s
	}
	if o2.Check(accept != nil, "Accept call not found") {
		p := c.escapePath(serve, accept, func(i ssa.Instruction) bool { return i == ssa.Instruction(goStmt) }, func(i ssa.Instruction) bool { return i == accept })
		o2.Check(p == nil, "a path from Accept back to Accept skips the go statement (connection accepted but never served/counted): %v", p)
		p2 := c.escapePath(serve, goStmt, func(i ssa.Instruction) bool { return i == accept }, func(i ssa.Instruction) bool { return i == ssa.Instruction(goStmt) })
		o2.Check(p2 == nil, "the go statement can execute twice for one Accept: %v", p2)
	}
	// the method itself: one WithLabelValues(ok, proto).Inc()
	o3 := r.Ob("C16.R4", "inc-once:"+funcName(inc)).At(inc.Pos())
	res := countOnPaths(inc, func(i ssa.Instruction) int {
		if isCall(i, "(github.com/prometheus/client_golang/prometheus.Counter).Inc") {
			return 1
		}
		if isCall(i, "(github.com/prometheus/client_golang/prometheus.Counter).Add") {
			return 100
		}
		return 0
	})
	o3.Check(res.Max == 1 && !res.InLoop, "metricsRequestsTotalInc performs up to %d Inc() per call", res.Max)
	for _, s := range callsIn(inc, "(github.com/prometheus/client_golang/prometheus.Counter).Inc") {
		e := c.Expr(callOf(s).Value)
		o3.AtI(s)
		wl, direct := callOf(s).Value.(*ssa.Call)
		o3.Check(direct && strings.HasSuffix(calleeName(&wl.Call), ".CounterVec).WithLabelValues") && strings.Contains(e, "WithLabelValues(p0.metricRequestsTotal, "),
			"the counter incremented is %s, want directly metricRequestsTotal.WithLabelValues(ok, negotiatedProtocol) of this call (a cached/looked-up counter can carry another connection's labels)", e)
		// label value order
		for _, w := range callsIn(inc, "(*github.com/prometheus/client_golang/prometheus.CounterVec).WithLabelValues") {
			els := variadicElems(callOf(w).Args[1])
			if o3.Check(len(els) == 2, "WithLabelValues gets %d labels", len(els)) {
				o3.Check(c.Expr(els[0]) == "p1" && c.Expr(els[1]) == "p2", "label values are (%s, %s), want (ok, negotiatedProtocol)", c.Expr(els[0]), c.Expr(els[1]))
			}
		}
	}
	// the increment happens whenever the counter exists: its only condition is that test
	for _, s := range callsIn(inc, "(github.com/prometheus/client_golang/prometheus.Counter).Inc") {
		o3.AtI(s)
		for _, alt := range c.pathAlts(s.Block()) {
			for _, l := range alt {
				okLit := l == "+(*proxyserver.Server).metricsRegistered(p0)" || relHolds([]string{l}, "p0.metricRequestsTotal", "!=", "nil")
				o3.Check(okLit, "the increment is conditional on %s (conditions %v): want only `the counter exists`", l, alt)
			}
		}
	}
	if mr := c.Method("pkg/proxyserver", "Server", "metricsRegistered"); mr != nil {
		o5 := r.Ob("C16.R4", "registered-means-counter-exists:"+funcName(mr)).At(mr.Pos())
		alts := c.returnAlts(mr, 0)
		o5.Check(len(alts) > 0, "metricsRegistered has no return")
		for _, ra := range alts {
			o5.AtI(ra.Ret)
			switch {
			case ra.E == "(nil != p0.metricRequestsTotal)" || ra.E == "(p0.metricRequestsTotal != nil)":
			case ra.E == "true":
				o5.Check(relHolds(ra.Lits, "p0.metricRequestsTotal", "!=", "nil"), "metricsRegistered returns true under %v", ra.Lits)
			case ra.E == "false":
				o5.Check(relHolds(ra.Lits, "p0.metricRequestsTotal", "==", "nil"), "metricsRegistered returns false under %v", ra.Lits)
			default:
				o5.Fail("metricsRegistered returns %s, want metricRequestsTotal != nil (with the test inverted the increment dereferences a nil counter and registration never happens)", ra.E)
			}
		}
	}
	eachInstr(inc, func(i ssa.Instruction) {
		if cc := callOf(i); cc != nil {
			n := calleeName(cc)
			if strings.HasPrefix(n, "(*sync.Map).") || strings.HasPrefix(n, "(*sync.Pool).") {
				o3.AtI(i).Fail("metricsRequestsTotalInc keeps state in %s", n)
			}
		}
		if _, ok := i.(*ssa.MapUpdate); ok {
			o3.AtI(i).Fail("metricsRequestsTotalInc writes a map (a label cache)")
		}
	})
	// label names in registration
	reg := c.Method("pkg/proxyserver", "Server", "registerMetrics")
	r.need(reg != nil, "registerMetrics not found")
	o4 := r.Ob("C16.R4", "label-names:"+funcName(reg)).At(reg.Pos())
	okNames := false
	eachInstr(reg, func(i ssa.Instruction) {
		if cc := callOf(i); cc != nil && strings.HasSuffix(calleeName(cc), ".NewCounterVec") {
			o4.AtI(i)
			els := sliceLitStrings(cc.Args[len(cc.Args)-1])
			okNames = len(els) == 2 && els[0] == "ok" && els[1] == "negotiated_protocol"
			o4.Check(okNames, "counter label names are %v, want [ok negotiated_protocol]", els)
			// metric name
			if al, ok := cc.Args[len(cc.Args)-2].(*ssa.UnOp); ok {
				if a, ok := al.X.(*ssa.Alloc); ok {
					if nm := complitFields(a)["Name"]; nm != nil {
						s, _ := constString(nm)
						o4.Check(s == "requests_total", "metric name is %q", s)
					}
				}
			}
		}
	})
	o4.Check(okNames, "NewCounterVec call not found")
	r.assume("S9: prometheus CounterVec.WithLabelValues(...).Inc() adds exactly one")
}

// sliceLitStrings returns the constant strings of a slice literal value.
func sliceLitStrings(v ssa.Value) []string {
	var out []string
	for _, e := range variadicElems(v) {
		s, ok := constString(e)
		if !ok {
			return nil
		}
		out = append(out, s)
	}
	return out
}
