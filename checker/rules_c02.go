package main

import (
	"strconv"
	"os"
	"go/token"
	"strings"

	"golang.org/x/tools/go/ssa"
)

func init() {
	register("C02", true,
		ruleDef{"C02.R1", c02r1},
		ruleDef{"C02.R2", c02r2},
		ruleDef{"C02.R3", c02r3},
		ruleDef{"C02.R4", c02r4},
		ruleDef{"C02.R5", c02r5},
		ruleDef{"C02.R6", c02r6},
		ruleDef{"C02.R7", c02r7},
		// the fingerprint's input is the captured record: the capture rules of C04 and the record wiring of C06.R4 are necessary conditions here too
		ruleDef{"C04.R2", c04r2}, ruleDef{"C04.R3", c04r3}, ruleDef{"C04.R4", c04r4}, ruleDef{"C04.R5", c04r5}, ruleDef{"C06.R1", c06r1}, ruleDef{"C06.R4", c06r4},
		// "every forwarded request carries the header": the hook visits every injector, sets what it computes for this request, and is the proxy's Rewrite hook
		ruleDef{"C05.R1", c05r1}, ruleDef{"C05.R3", c05r3}, ruleDef{"C05.R4", c05r4},
	)
}

const extI = "p1.Extensions[" + rngIdx + "]"

func ja4m(r *R, name string) *ssa.Function {
	f := r.C.Method("pkg/ja4", "JA4Fingerprint", name)
	r.need(f != nil, "ja4.JA4Fingerprint.%s not found", name)
	return f
}

func c02r1(r *R) {
	c := r.C
	checkInjectorRow(r, "C02.R1", "X-Ja4-Fingerprint", "fingerprint.JA4Fingerprint")
	fn := c.Func("pkg/fingerprint", "JA4Fingerprint")
	r.need(fn != nil, "fingerprint.JA4Fingerprint not found")
	o := r.Ob("C02.R1", "ja4-entry:"+funcName(fn)).At(fn.Pos())
	ub := callsIn(fn, "(*ja4.JA4Fingerprint).UnmarshalBytes")
	if o.Check(len(ub) == 1, "expected one UnmarshalBytes call, found %d", len(ub)) {
		a := callOf(ub[0]).Args
		o.AtI(ub[0]).Check(c.Expr(a[1]) == "p0.ClientHelloRecord", "JA4 parses %s, want this connection's captured ClientHello", c.Expr(a[1]))
		o.Check(c.Expr(a[2]) == "116", "protocol byte is %s, want 't' (TLS over TCP)", c.Expr(a[2]))
		al, fresh := a[0].(*ssa.Alloc)
		o.Check(fresh && al.Parent() == fn && len(complitFields(al)) == 0, "the JA4 struct is %s, want a zero value allocated for this call", c.Expr(a[0]))
	}
	eachInstr(fn, func(i ssa.Instruction) {
		ret, ok := i.(*ssa.Return)
		if !ok {
			return
		}
		e0, e1 := c.Expr(ret.Results[0]), c.Expr(ret.Results[1])
		gs := c.guardStrs(i.Block())
		if e1 == "nil" {
			o.AtI(i).Check(strings.HasPrefix(e0, "(*ja4.JA4Fingerprint).String(&") && guardOkOn(gs, "UnmarshalBytes("), "JA4Fingerprint returns %s under %v", e0, gs)
			if call, ok := ret.Results[0].(*ssa.Call); ok && len(ub) == 1 {
				o.Check(isThroughJoins(call.Call.Args[0], callOf(ub[0]).Args[0]), "String() is taken from a different struct than the one filled")
			}
		} else {
			o.AtI(i).Check(e0 == `""`, "error return carries %s", e0)
		}
	})
	// UnmarshalBytes parses exactly its argument and hands the spec to Unmarshal with the same protocol byte
	um := ja4m(r, "UnmarshalBytes")
	o2 := r.Ob("C02.R1", "unmarshal-bytes:"+funcName(um)).At(um.Pos())
	fr := callsIn(um, "(*github.com/refraction-networking/utls.ClientHelloSpec).FromRaw")
	if o2.Check(len(fr) == 1, "expected one FromRaw call") {
		a := callOf(fr[0]).Args
		o2.AtI(fr[0]).Check(c.Expr(a[1]) == "p1", "FromRaw parses %s", c.Expr(a[1]))
		_, fresh := a[0].(*ssa.Alloc)
		o2.Check(fresh, "FromRaw target is %s, want a fresh ClientHelloSpec", c.Expr(a[0]))
		for _, s := range callsIn(um, "(*ja4.JA4Fingerprint).Unmarshal") {
			b := callOf(s).Args
			o2.AtI(s).Check(b[0] == ssa.Value(um.Params[0]) && isThroughJoins(b[1], a[0]) && c.Expr(b[2]) == "p2", "Unmarshal(%s, %s, %s): want (j, the parsed spec, protocol)", c.Expr(b[0]), c.Expr(b[1]), c.Expr(b[2]))
			o2.Check(guardOkOn(c.guardStrs(s.Block()), "FromRaw("), "Unmarshal runs although parsing failed")
		}
	}
	// Unmarshal calls every part exactly once, with keepOriginalOrder=false
	u := ja4m(r, "Unmarshal")
	o3 := r.Ob("C02.R1", "all-parts:"+funcName(u)).At(u.Pos())
	for _, part := range []string{"unmarshalTLSVersion", "unmarshalSNI", "unmarshalNumberOfCipherSuites", "unmarshalNumberOfExtensions", "unmarshalFirstALPN", "unmarshalCipherSuites", "unmarshalExtensions", "unmarshalSignatureAlgorithm"} {
		cs := callsIn(u, "(*ja4.JA4Fingerprint)."+part)
		if !o3.Check(len(cs) == 1, "Unmarshal calls %s %d times", part, len(cs)) {
			continue
		}
		a := callOf(cs[0]).Args
		o3.AtI(cs[0]).Check(c.Expr(a[0]) == "p0" && c.Expr(a[1]) == "p1", "%s(%s, %s)", part, c.Expr(a[0]), c.Expr(a[1]))
		if part == "unmarshalCipherSuites" || part == "unmarshalExtensions" {
			o3.Check(c.Expr(a[2]) == "false", "%s is called with keepOriginalOrder=%s: the JA4 (non-raw) fingerprint must sort", part, c.Expr(a[2]))
		}
		if part != "unmarshalSignatureAlgorithm" {
			o3.Check(len(guardsOf(cs[0].Block())) == 0, "%s is conditional", part)
		} else {
			o3.Check(onlyGuards(c, cs[0].Block(), "-((*ja4.JA4Fingerprint).unmarshalExtensions(p0, p1, false) != nil)") == "", "unmarshalSignatureAlgorithm is conditional on %v", c.guardStrs(cs[0].Block()))
		}
	}
	// protocol stored
	jt := c.Named("pkg/ja4", "JA4Fingerprint")
	for _, a := range fieldAccesses([]*ssa.Function{u}, jt, "Protocol") {
		if a.Kind == "write" {
			o3.Check(c.Expr(a.Instr.(*ssa.Store).Val) == "p2", "Protocol is set to %s", c.Expr(a.Instr.(*ssa.Store).Val))
		}
	}
}

func c02r2(r *R) {
	c := r.C
	fn := c.Func("pkg/fingerprint", "JA4Fingerprint")
	r.need(fn != nil, "JA4Fingerprint not found")
	exc := map[string]string{
		"pkg:crypto/rand":                      "utls.(*GREASEEncryptedClientHelloExtension).init fills a GREASE-ECH payload with random bytes when such an extension is re-serialised; JA4 reads only the two-byte extension type of each extension's output, so the value does not depend on it (reviewed; a finer information-flow proof is out of reach)",
		"pkg:github.com/cloudflare/circl/hpke": "same GREASE-ECH path: HPKE suite constants/lengths for the dummy payload",
		"pkg:github.com/cloudflare/circl/kem":  "same GREASE-ECH path",
	}
	purityRule(r, "C02.R2", fn, map[string]bool{"fingerprint.vlogf": true}, exc, 40)
	// the one in-place write is into the freshly parsed spec
	ue := ja4m(r, "unmarshalExtensions")
	o := r.Ob("C02.R2", "willpad-store-is-local:"+funcName(ue)).At(ue.Pos())
	eachInstr(ue, func(i ssa.Instruction) {
		if st, ok := i.(*ssa.Store); ok && strings.HasPrefix(c.Expr(st.Addr), "assert[") {
			o.AtI(i).Check(strings.HasSuffix(c.Expr(st.Addr), ".WillPad") && c.Expr(st.Val) == "true", "unmarshalExtensions writes %s = %s into the parsed spec", c.Expr(st.Addr), c.Expr(st.Val))
		}
	})
}

// sortedBeforeStore: on the !keepOriginalOrder edge the list is sorted before it is stored into field.
func sortedBeforeStore(r *R, fnName, field string) {
	c := r.C
	fn := ja4m(r, fnName)
	jt := c.Named("pkg/ja4", "JA4Fingerprint")
	o := r.Ob("C02.R3", "sorted-before-store:"+fnName).At(fn.Pos())
	var st *ssa.Store
	n := 0
	for _, a := range fieldAccesses([]*ssa.Function{fn}, jt, field) {
		if a.Kind == "write" {
			st = a.Instr.(*ssa.Store)
			n++
		}
	}
	if !o.Check(n == 1 && st != nil, "%s stores j.%s %d times, want once", fnName, field, n) {
		return
	}
	o.AtI(st)
	list := unwrapIface(st.Val)
	sorts := ascendingSorts(c, fn)
	if !o.Check(len(sorts) == 1, "%s sorts its list ascending %d times (sortUint16 / sort.Slice with `<` / slices.Sort): without the sort the fingerprint depends on the order in which the client listed its values", fnName, len(sorts)) {
		return
	}
	o.AtI(sorts[0])
	sameCell := func(a, b ssa.Value) bool {
		la, ok1 := unwrapIface(a).(*ssa.UnOp)
		lb, ok2 := unwrapIface(b).(*ssa.UnOp)
		return ok1 && ok2 && la.Op == token.MUL && lb.Op == token.MUL && la.X == lb.X
	}
	o.Check(unwrapIface(callOf(sorts[0]).Args[0]) == list || sameCell(callOf(sorts[0]).Args[0], list) || c.Expr(callOf(sorts[0]).Args[0]) == c.Expr(list), "the slice sorted (%s) is not the slice stored (%s)", c.Expr(callOf(sorts[0]).Args[0]), c.Expr(list))
	// on every path to the store where keepOriginalOrder (p2) is false, the sort happens: the only guard allowed on the sort is -p2
	bad := ""
	for _, g := range c.guardStrs(sorts[0].Block()) {
		if g == "-p2" || strings.Contains(g, "builtin.len(p1.") {
			continue
		}
		bad = g
	}
	o.Check(bad == "", "the sort additionally depends on %s (e.g. a length threshold): lists outside that condition would stay in wire order", bad)
	o.Check(hasGuard(c.guardStrs(sorts[0].Block()), "-p2"), "sort is not tied to !keepOriginalOrder; guards %v", c.guardStrs(sorts[0].Block()))
	var ifP2 *ssa.If
	eachInstr(fn, func(i ssa.Instruction) {
		if iff, ok := i.(*ssa.If); ok && c.Expr(iff.Cond) == "p2" && reachesAfter(i, st) && iff.Block().Succs[1] == sorts[0].Block() {
			ifP2 = iff
		}
	})
	if o.Check(ifP2 != nil, "no `if !keepOriginalOrder` directly guarding the sort") {
		p := c.escapeFromBlock(fn, ifP2.Block().Succs[1], func(i ssa.Instruction) bool { return i == sorts[0] }, func(i ssa.Instruction) bool { return i == ssa.Instruction(st) })
		o.Check(p == nil, "the list can be stored unsorted: %v", p)
		// all appends happen before the sort
		eachInstr(fn, func(i ssa.Instruction) {
			if isCall(i, "builtin.append") && reachesAfter(sorts[0], i) {
				o.AtI(i).Fail("an element is appended after the list was sorted")
			}
		})
	}
}

func c02r3(r *R) {
	c := r.C
	sortedBeforeStore(r, "unmarshalCipherSuites", "CipherSuites")
	sortedBeforeStore(r, "unmarshalExtensions", "Extensions")
	// signature algorithms keep wire order
	sa := ja4m(r, "unmarshalSignatureAlgorithm")
	o := r.Ob("C02.R3", "sigalgs-wire-order:"+funcName(sa)).At(sa.Pos())
	eachInstr(sa, func(i ssa.Instruction) {
		if cc := callOf(i); cc != nil {
			n := calleeName(cc)
			if n == "ja4.sortUint16" || strings.HasPrefix(n, "sort.") || strings.HasPrefix(n, "slices.Sort") {
				o.AtI(i).Fail("signature algorithms are sorted (%s); JA4 keeps them in the order sent", n)
			}
		}
	})
	// element appended is the algorithm at the range index, no filter
	for _, s := range callsIn(sa, "builtin.append") {
		els := variadicElems(callOf(s).Args[1])
		if o.Check(len(els) == 1, "append of %d elements", len(els)) {
			want := "assert[*tls.SignatureAlgorithmsExtension](" + extI + ")#0.SupportedSignatureAlgorithms[" + rngIdx + "]"
			o.AtI(s).Check(c.Expr(els[0]) == want, "signature algorithm appended is %s, want every entry in order", c.Expr(els[0]))
			for _, g := range c.guardStrs(s.Block()) {
				o.Check(!strings.Contains(g, "isGREASE"), "signature algorithms are GREASE-filtered by %s", g)
			}
		}
	}
	// the comparator
	su := c.Func("pkg/ja4", "sortUint16")
	if su == nil {
		// the helper was folded into its callers: ascendingSorts validated the comparators in place
		r.Ob("C02.R3", "comparator:ja4.sortUint16").OK("no sortUint16 helper; the sorts in the unmarshal functions were validated in place")
		return
	}
	o2 := r.Ob("C02.R3", "comparator:"+funcName(su)).At(su.Pos())
	ss := callsIn(su, "sort.Slice", "sort.SliceStable")
	var gen []ssa.Instruction
	eachInstr(su, func(i ssa.Instruction) {
		if cc := callOf(i); cc != nil && (calleeName(cc) == "slices.Sort" || calleeName(cc) == "slices.SortStable" || strings.HasPrefix(calleeName(cc), "slices.Sort[") || strings.HasPrefix(calleeName(cc), "slices.SortStable[")) {
			gen = append(gen, i)
		}
	})
	if len(ss) == 0 && len(gen) == 1 {
		// slices.Sort: ascending order of an ordered element type (summary S7)
		o2.AtI(gen[0]).Check(c.Expr(callOf(gen[0]).Args[0]) == "p0", "slices.Sort sorts %s", c.Expr(callOf(gen[0]).Args[0]))
	} else if o2.Check(len(ss) == 1, "sortUint16 does not call sort.Slice / slices.Sort exactly once") {
		o2.Check(c.Expr(callOf(ss[0]).Args[0]) == "p0", "sort.Slice sorts %s", c.Expr(callOf(ss[0]).Args[0]))
		if cl := closureTarget(callOf(ss[0]).Args[1]); o2.Check(cl != nil, "comparator is not a function literal") {
			eachInstr(cl, func(i ssa.Instruction) {
				if ret, ok := i.(*ssa.Return); ok {
					e := c.Expr(ret.Results[0])
					o2.AtI(i).Check(e == "(outer(p0)[p0] < outer(p0)[p1])", "comparator returns %s, want sl[x] < sl[y] (ascending numeric order)", e)
				}
			})
		}
	}
}

func c02r4(r *R) {
	c := r.C
	// cipher list: append guarded by !isGREASE of the same element, nothing else
	cs := ja4m(r, "unmarshalCipherSuites")
	o := r.Ob("C02.R4", "cipher-exclusions:"+funcName(cs)).At(cs.Pos())
	el := "p1.CipherSuites[" + rngIdx + "]"
	aps := callsIn(cs, "builtin.append")
	if o.Check(len(aps) == 1, "expected one append in unmarshalCipherSuites, found %d", len(aps)) {
		els := variadicElems(callOf(aps[0]).Args[1])
		o.AtI(aps[0]).Check(len(els) == 1 && c.Expr(els[0]) == el, "cipher appended is %v, want every chs.CipherSuites[i]", els)
		bad := onlyGuards(c, aps[0].Block(), "-ja4.isGREASEUint16("+el+")", "+("+rngIdx+" < builtin.len(p1.CipherSuites))")
		o.Check(bad == "", "a cipher suite is listed only under %s", bad)
		o.Check(hasGuard(c.guardStrs(aps[0].Block()), "-ja4.isGREASEUint16("+el+")"), "GREASE cipher suites are not excluded from the list")
	}
	// cipher count: increment under the same guard
	nc := ja4m(r, "unmarshalNumberOfCipherSuites")
	o2 := r.Ob("C02.R4", "cipher-count:"+funcName(nc)).At(nc.Pos())
	checkCounter(r, o2, nc, "NumberOfCipherSuites", []string{"-ja4.isGREASEUint16(" + el + ")", "+(" + rngIdx + " < builtin.len(p1.CipherSuites))"})
	// extension count: only GREASE skipped
	ne := ja4m(r, "unmarshalNumberOfExtensions")
	o3 := r.Ob("C02.R4", "extension-count:"+funcName(ne)).At(ne.Pos())
	checkCounter(r, o3, ne, "NumberOfExtensions", []string{"-assert[*tls.UtlsGREASEExtension](" + extI + ")#1", "+(" + rngIdx + " < builtin.len(p1.Extensions))"})
	// extension list: GREASE, SNI, ALPN excluded (SNI/ALPN under !keepOriginalOrder)
	ue := ja4m(r, "unmarshalExtensions")
	o4 := r.Ob("C02.R4", "extension-exclusions:"+funcName(ue)).At(ue.Pos())
	eaps := callsIn(ue, "builtin.append")
	if o4.Check(len(eaps) == 1, "expected one append in unmarshalExtensions, found %d", len(eaps)) {
		gs := c.guardStrs(eaps[0].Block())
		o4.AtI(eaps[0])
		o4.Check(hasGuard(gs, "-assert[*tls.UtlsGREASEExtension]("+extI+")#1"), "GREASE extensions are not excluded from the extension list; guards %v", gs)
		// SNI/ALPN: on the !keepOriginalOrder path the append is unreachable when either assert succeeds
		for _, t := range []string{"SNIExtension", "ALPNExtension"} {
			var iff *ssa.If
			eachInstr(ue, func(i ssa.Instruction) {
				if x, ok := i.(*ssa.If); ok && c.Expr(x.Cond) == "assert[*tls."+t+"]("+extI+")#1" {
					iff = x
				}
			})
			if o4.Check(iff != nil, "no test for %s in unmarshalExtensions: it would be hashed into JA4_c", t) {
				// however the tests are nested (`if !keep { if sni {continue} }`, a type switch with `if !keep {continue}`
				// in the case body, …): on no path reaching the append in this iteration is the extension of this
				// type while keepOriginalOrder is false
				isT := "+assert[*tls." + t + "](" + extI + ")#1"
				alts := c.pathAlts(eaps[0].Block())
				o4.Check(len(alts) > 0, "the append is unreachable")
				for _, alt := range alts {
					excluded := hasGuard(alt, "-"+isT[1:]) || hasGuard(alt, "+p2")
					if !excluded && !hasGuard(alt, isT) {
						// the alternative does not say which type the extension has: it must at least not be the !keep path
						excluded = false
					}
					o4.Check(excluded, "a %s extension can reach the hashed list while keepOriginalOrder is false (path conditions %v)", t, alt)
				}
			}
		}
		// appended id = first two bytes of this extension's serialisation
		els := variadicElems(callOf(eaps[0]).Args[1])
		if o4.Check(len(els) == 1, "append of %d elements", len(els)) {
			e := c.ExprAt(els[0], eaps[0].Block())
			buf := "make([]byte,(github.com/refraction-networking/utls.TLSExtension).Len(" + extI + "))"
			want := "((" + buf + "[0] << 8) | " + buf + "[1])"
			o4.Check(e == want, "extension id appended is %s, want buf[0]<<8|buf[1] of this extension's Read output", e)
		}
		for _, g := range gs {
			o4.Check(!strings.Contains(g, "isGREASEUint16"), "extension list filtered by %s", g)
		}
		extensionErrors(r, ue, eaps[0])
	}
}

// extensionErrors: unmarshalExtensions gives up (and the request goes out without a JA4 header) exactly when an
// extension that is to be listed serialises to nothing, cannot be read (any error but io.EOF), or yields fewer than the
// two bytes of its id; and the id is appended exactly when none of these holds.
func extensionErrors(r *R, ue *ssa.Function, app ssa.Instruction) {
	c := r.C
	o := r.Ob("C02.R4", "extension-errors:"+funcName(ue)).At(ue.Pos())
	lenE := "(github.com/refraction-networking/utls.TLSExtension).Len(" + extI + ")"
	buf := "make([]byte," + lenE + ")"
	rd := "(github.com/refraction-networking/utls.TLSExtension).Read(" + extI + ", " + buf + ")"
	dbg := os.Getenv("FPCHECK_DEBUG_C02") != ""
	has := func(lits []string, l string) bool { return hasGuard(lits, l) }
	reasons := func(lits []string) []string {
		var out []string
		if relHolds(lits, lenE, "==", "0") {
			out = append(out, "empty")
		}
		if relHolds(lits, rd+"#1", "!=", "nil") && has(lits, "-errors.Is("+rd+"#1, io.EOF)") {
			out = append(out, "read-error")
		}
		if relHolds(lits, rd+"#0", "<", "2") {
			out = append(out, "short")
		}
		return out
	}
	seen := map[string]bool{}
	nerr, nok := 0, 0
	for _, ra := range c.returnAlts(ue, 0) {
		if dbg {
			println("C02 ext return:", ra.E, "||", strings.Join(ra.Lits, " ; "))
		}
		o.AtI(ra.Ret)
		rs := reasons(ra.Lits)
		if ra.E == "nil" {
			nok++
			o.Check(len(rs) == 0, "unmarshalExtensions reports success although an extension was %v (conditions %v)", rs, ra.Lits)
			o.Check(has(ra.Lits, "-("+rngIdx+" < builtin.len(p1.Extensions))"), "unmarshalExtensions returns success before all extensions were examined (conditions %v)", ra.Lits)
			continue
		}
		nerr++
		if o.Check(len(rs) == 1, "unmarshalExtensions fails (no JA4 header for this client) under conditions %v: want exactly one of `extension serialises to nothing`, `Read failed with an error other than io.EOF`, `fewer than 2 bytes read`", ra.Lits) {
			seen[rs[0]] = true
		}
	}
	o.Check(nok >= 1, "unmarshalExtensions never reports success")
	_ = nerr
	// the id is appended when none of the three holds
	if app != nil {
		for _, alt := range c.pathAlts(app.Block()) {
			if dbg {
				println("C02 ext append:", strings.Join(alt, " ; "))
			}
			o.AtI(app)
			o.Check(relHolds(alt, lenE, "!=", "0") || relHolds(alt, lenE, ">", "0"), "an extension id is listed without `Len() != 0` having been established (conditions %v)", alt)
			o.Check(relHolds(alt, rd+"#0", ">=", "2") || relHolds(alt, rd+"#0", ">", "1"), "an extension id is listed without two bytes having been read (conditions %v)", alt)
			o.Check(relHolds(alt, rd+"#1", "==", "nil") || has(alt, "+errors.Is("+rd+"#1, io.EOF)"), "an extension id is listed although Read failed (conditions %v)", alt)
		}
	}
}

// parseRelLit splits a literal `±(L op R)` at its top-level comparison operator.
func parseRelLit(l string) (pos bool, left, op, right string, ok bool) {
	if len(l) < 4 || (l[0] != '+' && l[0] != '-') || l[1] != '(' || l[len(l)-1] != ')' {
		return
	}
	body := l[2 : len(l)-1]
	depth := 0
	for i := 0; i < len(body); i++ {
		switch body[i] {
		case '(', '[', '{':
			depth++
		case ')', ']', '}':
			depth--
		case ' ':
			if depth != 0 {
				continue
			}
			for _, o := range []string{" == ", " != ", " <= ", " >= ", " < ", " > "} {
				if strings.HasPrefix(body[i:], o) {
					return l[0] == '+', body[:i], strings.TrimSpace(o), body[i+len(o):], true
				}
			}
		}
	}
	return
}

// intRel: some literal states `X op k` (k an integer) for an X accepted by okX, in any spelling: operands either way
// round, stated positively or as the negated complement, `< k` or `<= k-1`.
func intRel(lits []string, okX func(string) bool, op string, k int) bool {
	flip := map[string]string{"==": "==", "!=": "!=", "<": ">", ">": "<", "<=": ">=", ">=": "<="}
	neg := map[string]string{"==": "!=", "!=": "==", "<": ">=", ">": "<=", "<=": ">", ">=": "<"}
	canon := func(op string, k int) (string, int) {
		switch op {
		case "<=":
			return "<", k + 1
		case ">=":
			return ">", k - 1
		}
		return op, k
	}
	wop, wk := canon(op, k)
	for _, l := range lits {
		pos, a, o, b, ok := parseRelLit(l)
		if !ok {
			continue
		}
		kb, errB := strconv.Atoi(b)
		if errB != nil {
			if ka, errA := strconv.Atoi(a); errA == nil {
				a, b, kb, o = b, a, ka, flip[o]
			} else {
				continue
			}
		}
		_ = b
		if !pos {
			o = neg[o]
		}
		co, ck := canon(o, kb)
		if co == wop && ck == wk && okX(a) {
			return true
		}
	}
	return false
}

// litLike: some literal has the given prefix and suffix.
func litLike(lits []string, pre, suf string) bool {
	for _, l := range lits {
		if strings.HasPrefix(l, pre) && strings.HasSuffix(l, suf) {
			return true
		}
	}
	return false
}

// relHolds: the literal list establishes `a op b`, in any of the spellings a path alternative may carry it
// (operands either way round, stated positively or as the negation of the complementary test).
func relHolds(lits []string, a, op, b string) bool {
	if relHolds1(lits, a, op, b) {
		return true
	}
	// over the integers `a < k` is `a <= k-1` and `a > k` is `a >= k+1`
	if k, err := strconv.Atoi(b); err == nil {
		switch op {
		case "<":
			return relHolds1(lits, a, "<=", strconv.Itoa(k-1))
		case "<=":
			return relHolds1(lits, a, "<", strconv.Itoa(k+1))
		case ">":
			return relHolds1(lits, a, ">=", strconv.Itoa(k+1))
		case ">=":
			return relHolds1(lits, a, ">", strconv.Itoa(k-1))
		}
	}
	return false
}

func relHolds1(lits []string, a, op, b string) bool {
	flip := map[string]string{"==": "==", "!=": "!=", "<": ">", ">": "<", "<=": ">=", ">=": "<="}
	neg := map[string]string{"==": "!=", "!=": "==", "<": ">=", ">": "<=", "<=": ">", ">=": "<"}
	for _, l := range lits {
		switch l {
		case "+(" + a + " " + op + " " + b + ")", "+(" + b + " " + flip[op] + " " + a + ")",
			"-(" + a + " " + neg[op] + " " + b + ")", "-(" + b + " " + flip[neg[op]] + " " + a + ")":
			return true
		}
	}
	return false
}

// checkCounter: field is stored once from a counter that increments by 1 exactly under the given guards.
func checkCounter(r *R, o *Ob, fn *ssa.Function, field string, guards []string) {
	c := r.C
	jt := c.Named("pkg/ja4", "JA4Fingerprint")
	n := 0
	for _, a := range fieldAccesses([]*ssa.Function{fn}, jt, field) {
		if a.Kind != "write" {
			continue
		}
		n++
		st := a.Instr.(*ssa.Store)
		o.AtI(st)
		phi, ok := unwrapIface(st.Val).(*ssa.Phi)
		if !o.Check(ok, "%s is set from %s, want a loop counter", field, c.Expr(st.Val)) {
			continue
		}
		incs := 0
		// the counter's values: through the loop-header phi and any phi that merges `continue` paths with the increment
		seenPhi := map[*ssa.Phi]bool{}
		var walk func(e ssa.Value)
		walk = func(e ssa.Value) {
			switch x := e.(type) {
			case *ssa.Phi:
				if seenPhi[x] {
					return
				}
				seenPhi[x] = true
				for _, ed := range x.Edges {
					walk(ed)
				}
			case *ssa.BinOp:
				incs++
				k, isC := constInt(x.Y)
				base, isPhi := x.X.(*ssa.Phi)
				o.Check(isPhi && seenPhi[base] && isC && k == 1 && x.Op == token.ADD, "counter update is %s", c.Expr(x))
				bad := onlyGuards(c, x.Block(), guards...)
				o.Check(bad == "", "%s counts an element only under %s", field, bad)
				for _, g := range guards {
					o.Check(hasGuard(c.guardStrs(x.Block()), g), "%s counts elements without the condition %s", field, g)
				}
			default:
				if k, isC := constInt(e); isC {
					o.Check(k == 0, "counter starts at %d", k)
				} else {
					o.Fail("counter takes the value %s", c.Expr(e))
				}
			}
		}
		walk(phi)
		o.Check(incs == 1, "%s counter has %d increment sites", field, incs)
	}
	o.Check(n == 1, "%s stored %d times", field, n)
}

func c02r5(r *R) {
	c := r.C
	// final string: a_b_c
	st := ja4m(r, "String")
	o := r.Ob("C02.R5", "a_b_c:"+funcName(st)).At(st.Pos())
	// The returned string, as a flat template per alternative (concatenation, Sprintf with %s, explicit String() and %s on
	// a Stringer all read alike; hashing in both branches or once after choosing the input is the same).
	partA := `chr(p0.Protocol) · str(p0.TLSVersion) · chr(p0.SNI) · str(p0.NumberOfCipherSuites) · str(p0.NumberOfExtensions) · p0.FirstALPN`
	partB := `ja4.truncatedSha256(⟨str(p0.CipherSuites)⟩)`
	noSig := partA + ` · "_" · ` + partB + ` · "_" · ja4.truncatedSha256(⟨str(p0.Extensions)⟩)`
	withSig := partA + ` · "_" · ` + partB + ` · "_" · ja4.truncatedSha256(⟨str(p0.Extensions) · "_" · str(p0.SignatureAlgorithms)⟩)`
	nNo, nWith := 0, 0
	eachInstr(st, func(i ssa.Instruction) {
		ret, ok := i.(*ssa.Return)
		if !ok {
			return
		}
		o.AtI(i)
		for _, sa := range c.StrAlts(retValue(ret, 0), i.Block()) {
			empty := hasGuard(sa.Guards, "+(0 == builtin.len(p0.SignatureAlgorithms))")
			nonEmpty := hasGuard(sa.Guards, "-(0 == builtin.len(p0.SignatureAlgorithms))")
			switch {
			case empty && !nonEmpty:
				nNo++
				o.Check(sa.Tmpl == noSig, "without signature algorithms String returns %s, want %s", sa.Tmpl, noSig)
			case nonEmpty && !empty:
				nWith++
				o.Check(sa.Tmpl == withSig, "with signature algorithms String returns %s, want %s", sa.Tmpl, withSig)
			default:
				o.Fail("String returns %s under %v: the choice between the two forms of part c is not decided by len(SignatureAlgorithms) == 0", sa.Tmpl, sa.Guards)
			}
		}
	})
	o.Check(nNo >= 1 && nWith >= 1, "String lacks one of the two forms of part c (without signature algorithms: %d, with: %d)", nNo, nWith)
	// truncatedSha256
	ts := c.Func("pkg/ja4", "truncatedSha256")
	r.need(ts != nil, "truncatedSha256 not found")
	o2 := r.Ob("C02.R5", "truncated-sha256:"+funcName(ts)).At(ts.Pos())
	altSha := false
	eachInstr(ts, func(i ssa.Instruction) {
		if ret, ok := i.(*ssa.Return); ok {
			// hex of the first six bytes of the digest is the first twelve hex characters
			if hc, isCall := ret.Results[0].(*ssa.Call); isCall && calleeName(&hc.Call) == "encoding/hex.EncodeToString" {
				if s2, ok := hc.Call.Args[0].(*ssa.Slice); ok && s2.Low == nil {
					if hi, okh := constInt(s2.High); okh {
						if al, ok := s2.X.(*ssa.Alloc); ok {
							if st := uniqueStore(al); st != nil {
								if sc, ok := st.Val.(*ssa.Call); ok && calleeName(&sc.Call) == "crypto/sha256.Sum256" {
									o2.AtI(i).Check(hi == 6, "hash is cut to the hex of %d bytes, want 6 (12 characters)", hi)
									o2.Check(c.Expr(sc.Call.Args[0]) == "p0", "hex digest is computed from %s, want sha256.Sum256 of the argument string", c.Expr(sc.Call.Args[0]))
									altSha = true
									return
								}
							}
						}
					}
				}
			}
			sl, isSl := ret.Results[0].(*ssa.Slice)
			if !o2.Check(isSl, "truncatedSha256 returns %s, want a 12-character prefix", c.Expr(ret.Results[0])) {
				return
			}
			hi, okh := constInt(sl.High)
			o2.AtI(i).Check(sl.Low == nil && okh && hi == 12, "hash is cut to [%s:%s], want [:12]", exprOrNil(c, sl.Low), exprOrNil(c, sl.High))
			sp, isSp := sl.X.(*ssa.Call)
			if isSp && calleeName(&sp.Call) == "encoding/hex.EncodeToString" {
				// hex.EncodeToString(sha256.Sum256([]byte(in))[:]) is the same lower-case hex digest
				okSum := false
				if s2, ok := sp.Call.Args[0].(*ssa.Slice); ok && s2.Low == nil && s2.High == nil {
					if al, ok := s2.X.(*ssa.Alloc); ok {
						if st := uniqueStore(al); st != nil {
							if sc, ok := st.Val.(*ssa.Call); ok && calleeName(&sc.Call) == "crypto/sha256.Sum256" && c.Expr(sc.Call.Args[0]) == "p0" {
								okSum = true
							}
						}
					}
				}
				o2.Check(okSum, "hex digest is computed from %s, want sha256.Sum256 of the argument string", c.Expr(sp.Call.Args[0]))
				altSha = true
				return
			}
			if o2.Check(isSp && calleeName(&sp.Call) == "fmt.Sprintf", "the sliced string is %s", c.Expr(sl.X)) {
				f, _ := constString(sp.Call.Args[0])
				els := variadicElems(sp.Call.Args[1])
				o2.Check(f == "%x" && len(els) == 1 && c.Expr(els[0]) == "(hash.Hash).Sum(crypto/sha256.New(), nil)", "hex rendering is %q of %v", f, els)
			}
		}
	})
	ws := callsIn(ts, "(io.Writer).Write", "(hash.Hash).Write")
	o2.Check(altSha || len(ws) == 1 && c.Expr(callArgs(callOf(ws[0]))[1]) == "p0" && c.Expr(callArgs(callOf(ws[0]))[0]) == "crypto/sha256.New()", "the hash input is not exactly the argument string")
	// joinUint16
	ju := c.Func("pkg/ja4", "joinUint16")
	r.need(ju != nil, "joinUint16 not found")
	o3 := r.Ob("C02.R5", "join:"+funcName(ju)).At(ju.Pos())
	nfmt := 0
	eachInstr(ju, func(i ssa.Instruction) {
		call, ok := i.(*ssa.Call)
		if !ok {
			return
		}
		switch calleeName(&call.Call) {
		case "fmt.Sprintf", "fmt.Fprintf":
			nfmt++
			k := 0
			if calleeName(&call.Call) == "fmt.Fprintf" {
				k = 1
			}
			f, _ := constString(call.Call.Args[k])
			els := variadicElems(call.Call.Args[k+1])
			o3.AtI(i).Check(f == "%04x" && len(els) == 1 && c.Expr(els[0]) == "p0["+rngIdx+"]", "element rendering is %q of %v, want %%04x of every element", f, els)
			o3.Check(onlyGuards(c, i.Block(), "+("+rngIdx+" < builtin.len(p0))") == "", "an element is rendered only under %v", c.guardStrs(i.Block()))
		case "(*bytes.Buffer).WriteString", "(*strings.Builder).WriteString":
			if c.Expr(call.Call.Args[1]) == "p1" {
				gs := c.guardStrs(i.Block())
				o3.AtI(i).Check(hasGuard(gs, "+("+rngIdx+" != 0)"), "separator written under %v", gs)
			}
		}
	})
	// the same rendering through strconv: h := FormatUint(uint64(el), 16) written after Repeat("0", 4-len(h))
	if nfmt == 0 {
		var fu, rep ssa.Instruction
		var wsH, wsPad ssa.Instruction
		eachInstr(ju, func(i ssa.Instruction) {
			call, ok := i.(*ssa.Call)
			if !ok {
				return
			}
			switch calleeName(&call.Call) {
			case "strconv.FormatUint":
				fu = i
			case "strings.Repeat":
				rep = i
			case "(*bytes.Buffer).WriteString", "(*strings.Builder).WriteString":
				if fu != nil && call.Call.Args[1] == fu.(ssa.Value) {
					wsH = i
				}
				if rep != nil && call.Call.Args[1] == rep.(ssa.Value) {
					wsPad = i
				}
			}
		})
		if fu != nil && rep != nil && wsH != nil && wsPad != nil {
			el := "p0[" + rngIdx + "]"
			okF := c.Expr(callOf(fu).Args[0]) == el
			base, _ := constInt(callOf(fu).Args[1])
			zero, _ := constString(callOf(rep).Args[0])
			okR := zero == "0" && c.Expr(callOf(rep).Args[1]) == "(4 - builtin.len(strconv.FormatUint("+el+", 16)))"
			o3.AtI(fu, rep).Check(okF && base == 16 && okR, "element rendering is FormatUint(%s, %d) padded with Repeat(%q, %s), want four lower-case hex digits of every element", c.Expr(callOf(fu).Args[0]), base, zero, c.Expr(callOf(rep).Args[1]))
			o3.Check(wsPad.Block() == wsH.Block() && instrDominates(wsPad, wsH), "the padding is not written right before the digits")
			o3.Check(onlyGuards(c, wsH.Block(), "+("+rngIdx+" < builtin.len(p0))") == "", "an element is rendered only under %v", c.guardStrs(wsH.Block()))
			if okF && base == 16 && okR {
				nfmt = 1
			}
		}
	}
	// the same rendering spelled out: four WriteByte calls, one per nibble from the most significant down, each indexing
	// the lower-case hex digit string
	var wb []ssa.Instruction
	eachInstr(ju, func(i ssa.Instruction) {
		if call, ok := i.(*ssa.Call); ok {
			if n := calleeName(&call.Call); n == "(*bytes.Buffer).WriteByte" || n == "(*strings.Builder).WriteByte" {
				wb = append(wb, i)
			}
		}
	})
	if nfmt == 0 && len(wb) == 4 {
		el := "p0[" + rngIdx + "]"
		const hexd = `"0123456789abcdef"`
		want := []string{hexd + "[(" + el + " >> 12)]", hexd + "[" + andStr("15", "("+el+" >> 8)") + "]", hexd + "[" + andStr("15", "("+el+" >> 4)") + "]", hexd + "[" + andStr("15", el) + "]"}
		okAll := true
		for k, i := range wb {
			got := c.Expr(callOf(i).Args[1])
			if !o3.AtI(i).Check(got == want[k], "hex digit %d of an element is %s, want %s", k, got, want[k]) {
				okAll = false
			}
			o3.Check(i.Block() == wb[0].Block() && c.Expr(callOf(i).Args[0]) == c.Expr(callOf(wb[0]).Args[0]), "the four hex digits of an element are not written together to one buffer")
			if k > 0 {
				o3.Check(instrDominates(wb[k-1], i), "hex digits are written out of order")
			}
		}
		o3.Check(onlyGuards(c, wb[0].Block(), "+("+rngIdx+" < builtin.len(p0))") == "", "an element is rendered only under %v", c.guardStrs(wb[0].Block()))
		if okAll {
			nfmt = 1
		}
	}
	o3.Check(nfmt == 1, "joinUint16 has %d format sites", nfmt)
	// separators and count formats (typed AST constants / small String methods)
	o4 := r.Ob("C02.R5", "constants")
	p := c.pkgOf("pkg/ja4")
	if o4.Check(p != nil, "pkg/ja4 not loaded") {
		for nm, want := range map[string]string{"cipherSuitesSeparator": `","`, "extensionsSeparator": `","`, "signatureAlgorithmSeparator": `","`} {
			obj := p.Types.Scope().Lookup(c.nowName("pkg/ja4", nm))
			o4.Check(obj != nil && constObjString(obj) == want, "%s = %s, want %s", nm, constObjString(obj), want)
		}
	}
	for _, t := range [][2]string{{"cipherSuites", "ja4.cipherSuitesSeparator"}, {"extensions", "ja4.extensionsSeparator"}, {"signatureAlgorithms", "ja4.signatureAlgorithmSeparator"}} {
		m := c.Method("pkg/ja4", t[0], "String")
		if o4.Check(m != nil, "%s.String not found", t[0]) {
			eachInstr(m, func(i ssa.Instruction) {
				if ret, ok := i.(*ssa.Return); ok {
					o4.Check(c.Expr(ret.Results[0]) == `ja4.joinUint16(p0, ",")`, "%s.String returns %s", t[0], c.Expr(ret.Results[0]))
				}
			})
		}
	}
	for _, t := range []string{"numberOfCipherSuites", "numberOfExtensions"} {
		m := c.Method("pkg/ja4", t, "String")
		if o4.Check(m != nil, "%s.String not found", t) {
			eachInstr(m, func(i ssa.Instruction) {
				if call, ok := i.(*ssa.Call); ok && calleeName(&call.Call) == "fmt.Sprintf" {
					f, _ := constString(call.Call.Args[0])
					els := variadicElems(call.Call.Args[1])
					o4.AtI(i).Check(f == "%02d" && len(els) == 1 && c.Expr(els[0]) == "min(99, p0)", "%s renders %q of %v, want %%02d of min(x, 99)", t, f, els)
				}
			})
		}
	}
	// TLS version table
	tv := c.Method("pkg/ja4", "tlsVersion", "String")
	if o4.Check(tv != nil, "tlsVersion.String not found") {
		got := map[string]string{}
		eachInstr(tv, func(i ssa.Instruction) {
			if ret, ok := i.(*ssa.Return); ok {
				s, _ := constString(ret.Results[0])
				key := "default"
				for _, g := range c.guardStrs(i.Block()) {
					if strings.HasPrefix(g, "+(") && strings.HasSuffix(g, " == p0)") {
						key = strings.TrimSuffix(strings.TrimPrefix(g, "+("), " == p0)")
					}
				}
				got[key] = s
			}
		})
		want := map[string]string{"769": "10", "770": "11", "771": "12", "772": "13", "default": "00"}
		for k, v := range want {
			o4.Check(got[k] == v, "tlsVersion(%s).String() = %q, want %q", k, got[k], v)
		}
	}
}

func c02r6(r *R) {
	c := r.C
	tv := ja4m(r, "unmarshalTLSVersion")
	o := r.Ob("C02.R6", "version-choice:"+funcName(tv)).At(tv.Pos())
	jt := c.Named("pkg/ja4", "JA4Fingerprint")
	ver := "assert[*tls.SupportedVersionsExtension](" + extI + ")#0.Versions[" + rngIdx + "]"
	n := 0
	sawLegacy := false
	for _, a := range fieldAccesses([]*ssa.Function{tv}, jt, "TLSVersion") {
		if a.Kind != "write" {
			continue
		}
		n++
		st := a.Instr.(*ssa.Store)
		o.AtI(st)
		// the value is chosen per path: either one store of a phi, or one store per branch
		type vcase struct {
			e  string
			gs []string
		}
		var cases []vcase
		if phi, ok := unwrapIface(st.Val).(*ssa.Phi); ok && phi.Block() == st.Block() {
			for k, e := range phi.Edges {
				cases = append(cases, vcase{c.Expr(e), edgeGuards(c, phi.Block().Preds[k], phi.Block())})
			}
		} else {
			cases = append(cases, vcase{c.Expr(unwrapIface(st.Val)), c.guardStrs(st.Block())})
		}
		for _, vc := range cases {
			if os.Getenv("FPCHECK_DEBUG_C02") != "" {
				println("C02 tlsver case:", vc.e, "||", strings.Join(vc.gs, " ; "))
			}
			// where TLSVersMax has just been tested to be 0, it is 0 (`vers := chs.TLSVersMax; if vers == 0 {…}`)
			if vc.e == "p1.TLSVersMax" && hasGuard(vc.gs, "+(0 == p1.TLSVersMax)") {
				vc.e = "0"
			}
			if vc.e == "p1.TLSVersMax" {
				sawLegacy = true
				o.Check(hasGuard(vc.gs, "-(0 == p1.TLSVersMax)"), "the legacy version is used although supported_versions is present")
			} else {
				o.Check(hasGuard(vc.gs, "+(0 == p1.TLSVersMax)") && (vc.e == "0" || strings.Contains(vc.e, ver)), "TLSVersion is set from %s under %v, want the maximum over supported_versions when the hello carries no fixed version", vc.e, vc.gs)
			}
		}
	}
	o.Check(sawLegacy, "the hello's legacy version is never used (needed when there is no supported_versions extension)")
	o.Check(n >= 1, "TLSVersion is never stored")
	if p := c.escapePath(tv, nil, func(i ssa.Instruction) bool {
		s, ok := i.(*ssa.Store)
		return ok && c.Expr(s.Addr) == "p0.TLSVersion"
	}, isReturn); p != nil {
		o.Fail("unmarshalTLSVersion can return without setting TLSVersion: %v", p)
	}
	// the running maximum is updated only for non-GREASE v > vers
	found := false
	eachInstr(tv, func(i ssa.Instruction) {
		iff, ok := i.(*ssa.If)
		if !ok {
			return
		}
		e := c.Expr(iff.Cond)
		if strings.HasSuffix(e, " < "+ver+")") && strings.HasPrefix(e, "(phi(") {
			found = true
			gs := c.guardStrs(iff.Block())
			o.AtI(i)
			o.Check(hasGuard(gs, "+(0 == p1.TLSVersMax)"), "supported_versions is consulted although the spec carries a fixed version")
			// the entry becomes the running maximum on the edge on which it is the larger one, and only there
			onTrue, onFalse := false, false
			eachInstr(tv, func(j ssa.Instruction) {
				phi, ok := j.(*ssa.Phi)
				if !ok {
					return
				}
				for k, ed := range phi.Edges {
					if k >= len(phi.Block().Preds) || c.Expr(ed) != ver {
						continue
					}
					pb := phi.Block().Preds[k]
					// … and never for a GREASE value, whichever of the two tests comes first
					for _, alt := range c.pathEdgeAlts(pb, phi.Block()) {
						o.Check(hasGuard(alt, "-ja4.isGREASEUint16("+ver+")"), "a GREASE supported_versions entry can become the TLS version; conditions %v", alt)
					}
					if t := iff.Block().Succs[0]; t == pb || t.Dominates(pb) {
						onTrue = true
					}
					if f := iff.Block().Succs[1]; (f == pb || f.Dominates(pb)) && f != phi.Block() {
						onFalse = true
					}
					if pb == iff.Block() {
						// the If's own block is the predecessor: which edge it is decides
						if phi.Block() == iff.Block().Succs[0] {
							onTrue = true
						} else {
							onFalse = true
						}
					}
				}
			})
			o.Check(onTrue && !onFalse, "the supported_versions entry replaces the running maximum on the wrong edge of `v > vers` (taken when larger: %v, taken when not larger: %v)", onTrue, onFalse)
		}
	})
	o.Check(found, "no `v > vers` maximum search over supported_versions (the highest version must win)")
	// isGREASEUint16 formula
	ig := c.Func("pkg/ja4", "isGREASEUint16")
	r.need(ig != nil, "isGREASEUint16 not found")
	o2 := r.Ob("C02.R6", "grease-predicate:"+funcName(ig)).At(ig.Pos())
	// every way of returning: true only when both tests held, false only when one failed; a test returned as the
	// value stands for itself (`return a && b`)
	type rel struct{ a, op, b string }
	tests := []rel{{"(255 & p0)", "==", "(p0 >> 8)"}, {"(15 & p0)", "==", "10"}}
	isTest := func(e string, t rel) bool {
		return e == "("+t.a+" "+t.op+" "+t.b+")" || e == "("+t.b+" "+t.op+" "+t.a+")"
	}
	alts := c.returnAlts(ig, 0)
	o2.Check(len(alts) > 0, "isGREASEUint16 has no return")
	for _, ra := range alts {
		o2.AtI(ra.Ret)
		h0, h1 := relHolds(ra.Lits, tests[0].a, "==", tests[0].b), relHolds(ra.Lits, tests[1].a, "==", tests[1].b)
		n0, n1 := relHolds(ra.Lits, tests[0].a, "!=", tests[0].b), relHolds(ra.Lits, tests[1].a, "!=", tests[1].b)
		switch {
		case ra.E == "true":
			o2.Check(h0 && h1, "isGREASEUint16 returns true under %v, want both (v>>8 == v&0xff) and (v&0xf == 0xa): exactly the 16 RFC 8701 values", ra.Lits)
		case ra.E == "false":
			o2.Check(n0 || n1, "isGREASEUint16 returns false under %v although neither test failed", ra.Lits)
		case isTest(ra.E, tests[0]):
			o2.Check(h1, "isGREASEUint16 returns (v>>8 == v&0xff) under %v, without v&0xf == 0xa", ra.Lits)
		case isTest(ra.E, tests[1]):
			o2.Check(h0, "isGREASEUint16 returns (v&0xf == 0xa) under %v, without v>>8 == v&0xff", ra.Lits)
		default:
			o2.Fail("isGREASEUint16 returns %s under %v, want (v>>8 == v&0xff) && (v&0xf == 0xa)", ra.E, ra.Lits)
		}
	}
}

func c02r7(r *R) {
	c := r.C
	jt := c.Named("pkg/ja4", "JA4Fingerprint")
	sn := ja4m(r, "unmarshalSNI")
	o := r.Ob("C02.R7", "sni-flag:"+funcName(sn)).At(sn.Pos())
	n := 0
	for _, a := range fieldAccesses([]*ssa.Function{sn}, jt, "SNI") {
		if a.Kind != "write" {
			continue
		}
		st := a.Instr.(*ssa.Store)
		o.AtI(st)
		for _, vc := range c.valueCases(st.Val, st.Block()) {
			n++
			gs, v := vc.Guards, vc.E
			// `slices.ContainsFunc(chs.Extensions, isSNI)` with a predicate that is the type assertion is the same search
			found, decided := false, false
			for _, g := range gs {
				const pre = "slices.ContainsFunc(p1.Extensions, func:ja4."
				if len(g) > 1 && strings.HasPrefix(g[1:], pre) && strings.HasSuffix(g, ")") {
					name := strings.TrimSuffix(g[1+len(pre):], ")")
					if pf := c.Func("pkg/ja4", name); pf != nil {
						okPred := true
						np := 0
						eachInstr(pf, func(i ssa.Instruction) {
							if ret, isR := i.(*ssa.Return); isR {
								np++
								if c.Expr(ret.Results[0]) != "assert[*tls.SNIExtension](p0)#1" {
									okPred = false
								}
							}
						})
						if okPred && np > 0 {
							found, decided = g[0] == '+', true
						}
					}
				}
			}
			if decided {
				if found {
					o.Check(v == "100", "with an SNI extension the flag is %s, want 'd'", v)
				} else {
					o.Check(v == "105", "without an SNI extension the flag is %s, want 'i'", v)
				}
				continue
			}
			if hasGuard(gs, "+assert[*tls.SNIExtension]("+extI+")#1") {
				o.Check(v == "100", "with an SNI extension the flag is %s, want 'd'", v)
			} else {
				o.Check(v == "105" && hasGuard(gs, "-("+rngIdx+" < builtin.len(p1.Extensions))"), "without an SNI extension the flag is %s under %v, want 'i' after all extensions were examined", v, gs)
			}
		}
	}
	o.Check(n == 2, "SNI flag has %d cases, want 2", n)
	al := ja4m(r, "unmarshalFirstALPN")
	o2 := r.Ob("C02.R7", "alpn:"+funcName(al)).At(al.Pos())
	first := "assert[*tls.ALPNExtension](" + extI + ")#0.AlpnProtocols[0]"
	isFirstChar := func(x string) bool { return strings.HasSuffix(x, "[0]") && strings.Contains(x, "AlpnProtocols[0]") }
	isLen := func(x string) bool { return strings.HasPrefix(x, "builtin.len(") && strings.Contains(x, "AlpnProtocols[0]") }
	n = 0
	saw00, sawVal := false, false
	whole := ""
	for _, a := range fieldAccesses([]*ssa.Function{al}, jt, "FirstALPN") {
		if a.Kind != "write" {
			continue
		}
		st := a.Instr.(*ssa.Store)
		o2.AtI(st)
		// "00" when there is no ALPN value, otherwise the shortened first protocol (one store per case, or one store of the chosen value)
		for _, vc := range c.valueCases(st.Val, st.Block()) {
			gs, v := vc.Guards, vc.E
			if os.Getenv("FPCHECK_DEBUG_C02") != "" {
				println("C02 alpn case:", v, "||", strings.Join(gs, " ; "))
			}
			if v == `"00"` {
				saw00 = true
				o2.Check(alpnEmpty(gs, first, true), "\"00\" is stored under %v, want `no ALPN value`", gs)
			} else if v == `"99"` {
				sawVal = true
				o2.Check(intRel(gs, isFirstChar, ">", 127), "\"99\" is stored under %v, want only when the first character is not ASCII", gs)
			} else if v == `""` && (alpnEmpty(c.guardStrs(st.Block()), first, false) || alpnEmpty(gs, first, false)) {
				// the initial empty value cannot reach a store that is guarded by `alpn != ""`
			} else {
				sawVal = true
				o2.Check(strings.Contains(v, "#0.AlpnProtocols[0]"), "FirstALPN is %s", v)
				// which form under which length: first+last only for more than two characters, the protocol itself otherwise;
				// both only for an ASCII first character
				shortened := strings.Contains(v, ") - 1)])")
				o2.Check(intRel(gs, isFirstChar, "<=", 127), "an ALPN value is stored without the first character having been found ASCII (conditions %v)", gs)
				if shortened {
					o2.Check(intRel(gs, isLen, ">", 2), "first+last character is stored under %v, want for protocols longer than two characters", gs)
				} else {
					o2.Check(intRel(gs, isLen, "<=", 2), "the whole protocol is stored under %v, want for protocols of at most two characters", gs)
				}
			}
		}
		whole += " | " + c.Expr(st.Val)
	}
	if saw00 {
		n++
	}
	if sawVal {
		n++
		// over all the stores (one per case, or one store of the chosen value)
		o2.Check(strings.Contains(whole, `"99"`) && strings.Contains(whole, "[0]") && strings.Contains(whole, ") - 1)]"), "FirstALPN does not combine the first and the last character of the first protocol (or lacks the non-ASCII fallback): %s", whole)
	}
	o2.Check(n == 2, "FirstALPN has %d of the two cases (\"00\" / shortened protocol)", n)
	// the protocol examined is AlpnProtocols[0] under len > 0
	ok := false
	eachInstr(al, func(i ssa.Instruction) {
		if ia, isIA := i.(*ssa.IndexAddr); isIA && strings.HasSuffix(c.Expr(ia.X), ".AlpnProtocols") {
			k, isC := constInt(ia.Index)
			ok = isC && k == 0
			o2.AtI(i).Check(ok, "ALPN protocol index is %s, want the first protocol", c.Expr(ia.Index))
			gsA := c.guardStrs(i.Block())
			o2.Check(hasGuardContaining(gsA, "+", "(0 < builtin.len(assert[*tls.ALPNExtension](") || hasGuardContaining(gsA, "+", "(0 != builtin.len(assert[*tls.ALPNExtension]("), "AlpnProtocols[0] is read without checking the list is non-empty")
		}
	})
	o2.Check(ok, "the first ALPN protocol is never read")
	// > 2 characters -> first+last; non-ASCII first char -> "99"
	conds := map[string]bool{}
	eachInstr(al, func(i ssa.Instruction) {
		if iff, ok := i.(*ssa.If); ok {
			e := c.Expr(iff.Cond)
			one := []string{"+" + e}
			isL := func(x string) bool { return strings.HasPrefix(x, "builtin.len(") }
			isC := func(x string) bool { return strings.HasSuffix(x, "[0]") }
			if intRel(one, isL, ">", 2) || intRel(one, isL, "<=", 2) {
				conds["len>2"] = true
			}
			if intRel(one, isC, ">", 127) || intRel(one, isC, "<=", 127) {
				conds["nonascii"] = true
			}
		}
	})
	o2.Check(conds["len>2"] && conds["nonascii"], "ALPN shortening / non-ASCII rules missing: %v", conds)
}

// ascendingSorts: calls in fn that sort a []uint16 ascending: the package's sortUint16 helper (validated by the
// comparator obligation), sort.Slice/SliceStable with a `s[i] < s[j]` comparator over the same slice, slices.Sort.
func ascendingSorts(c *Ctx, fn *ssa.Function) []ssa.Instruction {
	var out []ssa.Instruction
	eachInstr(fn, func(i ssa.Instruction) {
		cc := callOf(i)
		if cc == nil {
			return
		}
		switch n := calleeName(cc); {
		case n == "ja4.sortUint16":
			out = append(out, i)
		case n == "slices.Sort" || n == "slices.SortStable" || strings.HasPrefix(n, "slices.Sort[") || strings.HasPrefix(n, "slices.SortStable["):
			out = append(out, i)
		case n == "sort.Slice" || n == "sort.SliceStable":
			cl := closureTarget(cc.Args[1])
			if cl == nil {
				return
			}
			sl := c.Expr(cc.Args[0])
			ok := false
			eachInstr(cl, func(j ssa.Instruction) {
				if ret, isR := j.(*ssa.Return); isR {
					e := c.Expr(ret.Results[0])
					ok = e == "(outer("+sl+")[p0] < outer("+sl+")[p1])"
					if !ok {
						// the same, decided on the values (long renderings are cut at different depths): the comparator
						// returns s[x] < s[y] where s is the captured variable that the sorted slice was loaded from
						ok = lessOfCaptured(c, cl, ret.Results[0], cc.Args[0])
					}
				}
			})
			if ok {
				out = append(out, i)
			}
		}
	})
	return out
}


// lessOfCaptured: v (a result of the closure cl) is `s[p0] < s[p1]` with s a load of the captured cell that sorted
// (the slice handed to the sort) is loaded from, or the very same value.
func lessOfCaptured(c *Ctx, cl *ssa.Function, v ssa.Value, sorted ssa.Value) bool {
	bo, ok := v.(*ssa.BinOp)
	if !ok || bo.Op != token.LSS || len(cl.Params) != 2 {
		return false
	}
	var cell ssa.Value
	sorted = unwrapIface(sorted)
	if ld, ok := sorted.(*ssa.UnOp); ok && ld.Op == token.MUL {
		cell = ld.X
	}
	mc := c.closureSite(cl)
	elem := func(x ssa.Value, idx *ssa.Parameter) bool {
		ld, ok := x.(*ssa.UnOp)
		if !ok || ld.Op != token.MUL {
			return false
		}
		ia, ok := ld.X.(*ssa.IndexAddr)
		if !ok || ia.Index != ssa.Value(idx) {
			return false
		}
		base := ia.X
		if bl, ok := base.(*ssa.UnOp); ok && bl.Op == token.MUL {
			base = bl.X
		}
		fv, ok := base.(*ssa.FreeVar)
		if !ok || mc == nil {
			return false
		}
		for i, f := range cl.FreeVars {
			if f == fv && i < len(mc.Bindings) {
				return mc.Bindings[i] == cell || mc.Bindings[i] == sorted
			}
		}
		return false
	}
	return elem(bo.X, cl.Params[0]) && elem(bo.Y, cl.Params[1])
}

// isThroughJoins: v is target, possibly handed on through joins whose other edges are nil (`x, err := helper()` expanded
// in place: x is the helper's value on the success edge and nil on the error edges).
func isThroughJoins(v, target ssa.Value) bool {
	seen := map[ssa.Value]bool{}
	var walk func(x ssa.Value) bool
	walk = func(x ssa.Value) bool {
		if x == target {
			return true
		}
		if seen[x] {
			return true
		}
		seen[x] = true
		phi, ok := x.(*ssa.Phi)
		if !ok {
			return false
		}
		some := false
		for _, e := range phi.Edges {
			if k, isC := e.(*ssa.Const); isC && k.IsNil() {
				continue
			}
			if !walk(e) {
				return false
			}
			some = true
		}
		return some
	}
	return walk(v)
}

// alpnEmpty: the literals say that the ALPN value picked up in the loop is empty (want=true) or not (want=false), as a
// comparison with "" or a test of its length.
func alpnEmpty(gs []string, first string, want bool) bool {
	isVal := func(x string) bool { return strings.HasPrefix(x, `phi(""|`+first) }
	for _, l := range gs {
		pos, a, op, b, ok := parseRelLit(l)
		if !ok {
			continue
		}
		if a == `""` {
			a, b = b, a
		}
		if b == `""` && isVal(a) && (op == "==" || op == "!=") {
			if ((op == "==") == pos) == want {
				return true
			}
		}
	}
	isLen := func(x string) bool { return strings.HasPrefix(x, `builtin.len(phi(""|`+first) }
	if want {
		return intRel(gs, isLen, "==", 0) || intRel(gs, isLen, "<", 1)
	}
	return intRel(gs, isLen, "!=", 0) || intRel(gs, isLen, ">", 0)
}
