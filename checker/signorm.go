package main

import (
	"bytes"
	"encoding/json"
	"fmt"
	"go/ast"
	"go/parser"
	"go/printer"
	"go/token"
	"go/types"
	"os"
	"path/filepath"
	"sort"
	"strings"
)

// Parameter order. A reviewed function whose parameter list is a permutation of the reviewed one (same types, same
// results, call sites adapted) is still the reviewed function; rules and tables address parameters and arguments by
// position, so the reviewed order is restored at source level before anything else looks: the declaration's parameter
// list and the argument list of every call are rewritten through the loader's overlay (nothing is written to /repo).
// Only when every use of the function is a direct call with one argument per parameter; parameters of one type keep
// their relative order (a swap of two parameters of the same type cannot be told from a rename and is left alone).

// splitTopLevel splits s at commas that are not nested in brackets.
func splitTopLevel(s string) []string {
	if strings.TrimSpace(s) == "" {
		return nil
	}
	var out []string
	depth, from := 0, 0
	for i := 0; i < len(s); i++ {
		switch s[i] {
		case '(', '[', '{':
			depth++
		case ')', ']', '}':
			depth--
		case ',':
			if depth == 0 {
				out = append(out, s[from:i])
				from = i + 1
			}
		}
	}
	return append(out, s[from:])
}

// sigParts: the parameter and result lists of a signature as written by declSig ("(a,b)(r)").
func sigParts(sig string) (params, results []string, ok bool) {
	if !strings.HasPrefix(sig, "(") {
		return nil, nil, false
	}
	depth := 0
	for i := 0; i < len(sig); i++ {
		switch sig[i] {
		case '(':
			depth++
		case ')':
			depth--
			if depth == 0 {
				rest := sig[i+1:]
				if !strings.HasPrefix(rest, "(") || !strings.HasSuffix(rest, ")") {
					return nil, nil, false
				}
				return splitTopLevel(sig[1:i]), splitTopLevel(rest[1 : len(rest)-1]), true
			}
		}
	}
	return nil, nil, false
}

type permTarget struct {
	key   string
	obj   *types.Func
	fd    *ast.FuncDecl
	toOld []int // toOld[newIndex] = reviewed index
}

func restoreParamOrder(c *Ctx, known map[string]bool) (out map[string][]byte, notes []string) {
	defer func() {
		if p := recover(); p != nil {
			out = nil
			notes = append(notes, fmt.Sprintf("restoring the reviewed parameter order abandoned (internal error: %v)", p))
		}
	}()
	targets := map[*types.Func]*permTarget{}
	inMod := func(path string) bool {
		return (path == modPath || strings.HasPrefix(path, modPath+"/")) && !strings.Contains(path, "/zz_ref_")
	}
	for _, p := range c.Pkgs {
		if !inMod(p.PkgPath) || p.TypesInfo == nil {
			continue
		}
		for _, f := range p.Syntax {
			rel, err := filepath.Rel(c.Cfg.Dir, filepath.Dir(c.Fset.Position(f.Pos()).Filename))
			if err != nil || strings.HasPrefix(rel, "..") {
				continue
			}
			for _, d := range f.Decls {
				fd, ok := d.(*ast.FuncDecl)
				if !ok || fd.Body == nil || fd.Type.Params == nil {
					continue
				}
				k := funcDeclKey(rel, fd)
				info, has := knownInfo[k]
				if !known[k] || !has {
					continue
				}
				cur := declSig(c.Fset, fd)
				for rk, old := range recvAlias {
					if strings.HasPrefix(rk, rel+"|") {
						cur = replaceIdent(cur, rk[len(rel)+1:], old)
					}
				}
				curNames := declParamNames(fd)
				sameNames := len(curNames) == len(info.Params)
				for i := 0; sameNames && i < len(curNames); i++ {
					if curNames[i] != info.Params[i] {
						sameNames = false
					}
				}
				if cur == info.Sig && (sameNames || len(info.Params) == 0) {
					continue
				}
				if cur == info.Sig {
					// same types in the same order: a permutation only if the same names appear in a different order
					a, b := append([]string{}, curNames...), append([]string{}, info.Params...)
					sort.Strings(a)
					sort.Strings(b)
					distinct := true
					for i := 1; i < len(a); i++ {
						if a[i] == a[i-1] {
							distinct = false
						}
					}
					if len(a) != len(b) || strings.Join(a, "\x00") != strings.Join(b, "\x00") || !distinct || (len(a) > 0 && a[0] == "") {
						continue // renamed parameters, not reordered ones
					}
				}
				op, or, ok1 := sigParts(info.Sig)
				np, nr, ok2 := sigParts(cur)
				if !ok1 || !ok2 || len(op) != len(np) || len(op) < 2 || strings.Join(or, ",") != strings.Join(nr, ",") {
					continue
				}
				so, sn := append([]string{}, op...), append([]string{}, np...)
				sort.Strings(so)
				sort.Strings(sn)
				if strings.Join(so, "\x00") != strings.Join(sn, "\x00") {
					continue
				}
				if strings.HasPrefix(np[len(np)-1], "...") != strings.HasPrefix(op[len(op)-1], "...") {
					continue
				}
				// matching per type: by name where the reviewed names are known and still present, else in order
				usedOld := make([]bool, len(op))
				toOld := make([]int, len(np))
				for i := range toOld {
					toOld[i] = -1
				}
				if len(info.Params) == len(op) && len(curNames) == len(np) {
					for i, t := range np {
						for j, u := range op {
							if !usedOld[j] && u == t && curNames[i] != "" && curNames[i] != "_" && curNames[i] == info.Params[j] {
								usedOld[j], toOld[i] = true, j
								break
							}
						}
					}
				}
				for i, t := range np {
					if toOld[i] >= 0 {
						continue
					}
					for j, u := range op {
						if !usedOld[j] && u == t {
							usedOld[j], toOld[i] = true, j
							break
						}
					}
				}
				identity := true
				for i, j := range toOld {
					if i != j {
						identity = false
					}
				}
				if identity {
					continue
				}
				obj, _ := p.TypesInfo.Defs[fd.Name].(*types.Func)
				if obj == nil {
					continue
				}
				targets[obj] = &permTarget{k, obj, fd, toOld}
			}
		}
	}
	// reviewed function *types* whose parameter list is permuted the same way: values of such a type may be permuted
	// functions, and calls through the type are rewritten like direct calls
	type typeTarget struct {
		obj   *types.TypeName
		spec  *ast.TypeSpec
		toOld []int
	}
	typeTargets := map[*types.TypeName]*typeTarget{}
	if kb, err := os.ReadFile(knownIdentsPath()); err == nil {
		var kid map[string]knownIdent
		if json.Unmarshal(kb, &kid) == nil {
			for _, p := range c.Pkgs {
				if !inMod(p.PkgPath) || p.TypesInfo == nil {
					continue
				}
				for _, f := range p.Syntax {
					rel, err := filepath.Rel(c.Cfg.Dir, filepath.Dir(c.Fset.Position(f.Pos()).Filename))
					if err != nil || strings.HasPrefix(rel, "..") {
						continue
					}
					for _, d := range f.Decls {
						gd, ok := d.(*ast.GenDecl)
						if !ok || gd.Tok != token.TYPE {
							continue
						}
						for _, sp := range gd.Specs {
							ts := sp.(*ast.TypeSpec)
							ft, ok := ts.Type.(*ast.FuncType)
							if !ok || ft.Params == nil {
								continue
							}
							ki, has := kid[rel+"|"+ts.Name.Name]
							if !has || ki.Kind != "type" || !strings.HasPrefix(ki.Text, "func(") {
								continue
							}
							oe, err := parser.ParseExpr(ki.Text)
							if err != nil {
								continue
							}
							oft, ok := oe.(*ast.FuncType)
							if !ok || oft.Params == nil {
								continue
							}
							flatTypes := func(fl *ast.FieldList) []string {
								var out []string
								if fl == nil {
									return nil
								}
								for _, x := range fl.List {
									var buf bytes.Buffer
									printer.Fprint(&buf, token.NewFileSet(), x.Type)
									n := len(x.Names)
									if n == 0 {
										n = 1
									}
									for i := 0; i < n; i++ {
										out = append(out, buf.String())
									}
								}
								return out
							}
							op, np := flatTypes(oft.Params), flatTypes(ft.Params)
							if len(op) != len(np) || len(op) < 2 || strings.Join(op, ",") == strings.Join(np, ",") || strings.Join(flatTypes(oft.Results), ",") != strings.Join(flatTypes(ft.Results), ",") {
								continue
							}
							so, sn := append([]string{}, op...), append([]string{}, np...)
							sort.Strings(so)
							sort.Strings(sn)
							if strings.Join(so, "\x00") != strings.Join(sn, "\x00") {
								continue
							}
							usedOld := make([]bool, len(op))
							toOld := make([]int, len(np))
							for i, t := range np {
								toOld[i] = -1
								for j, u := range op {
									if !usedOld[j] && u == t {
										usedOld[j], toOld[i] = true, j
										break
									}
								}
							}
							if tn, _ := p.TypesInfo.Defs[ts.Name].(*types.TypeName); tn != nil {
								typeTargets[tn] = &typeTarget{tn, ts, toOld}
							}
						}
					}
				}
			}
		}
	}
	if len(targets) == 0 && len(typeTargets) == 0 {
		return nil, nil
	}
	sameOrder := func(a, b []int) bool {
		if len(a) != len(b) {
			return false
		}
		for i := range a {
			if a[i] != b[i] {
				return false
			}
		}
		return true
	}
	// a permuted function may be used as a value when its signature is that of a permuted type (same permutation)
	valueOK := func(fo *types.Func) bool {
		t := targets[fo]
		sig, _ := fo.Type().(*types.Signature)
		if t == nil || sig == nil {
			return false
		}
		for _, tt := range typeTargets {
			if us, ok := tt.obj.Type().Underlying().(*types.Signature); ok && sameOrder(tt.toOld, t.toOld) {
				if types.Identical(types.NewSignatureType(nil, nil, nil, sig.Params(), sig.Results(), sig.Variadic()), us) {
					return true
				}
			}
		}
		return false
	}
	type fileEdits struct {
		file  *ast.File
		edits []textEdit
	}
	perFile := map[string]*fileEdits{}
	bad := map[*types.Func]string{}
	typeBad := ""
	text := func(n ast.Node) string {
		var buf bytes.Buffer
		printer.Fprint(&buf, c.Fset, n)
		return buf.String()
	}
	for _, p := range c.Pkgs {
		if !inMod(p.PkgPath) || p.TypesInfo == nil {
			continue
		}
		for _, f := range p.Syntax {
			fname := c.Fset.Position(f.Pos()).Filename
			tf := c.Fset.File(f.Pos())
			fe := &fileEdits{file: f}
			callIdents := map[*ast.Ident]bool{}
			ast.Inspect(f, func(n ast.Node) bool {
				call, ok := n.(*ast.CallExpr)
				if !ok {
					return true
				}
				// a call through a value of a permuted function type
				if nt, ok := p.TypesInfo.TypeOf(call.Fun).(*types.Named); ok {
					if tt := typeTargets[nt.Obj()]; tt != nil {
						if len(call.Args) != len(tt.toOld) || call.Ellipsis.IsValid() {
							typeBad = "a call through the type does not pass one argument per parameter"
							return true
						}
						args := make([]string, len(call.Args))
						for i, a := range call.Args {
							args[tt.toOld[i]] = text(a)
						}
						fe.edits = append(fe.edits, textEdit{tf.Offset(call.Args[0].Pos()), tf.Offset(call.Args[len(call.Args)-1].End()), strings.Join(args, ", ")})
						return true
					}
				}
				var id *ast.Ident
				switch fn := ast.Unparen(call.Fun).(type) {
				case *ast.Ident:
					id = fn
				case *ast.SelectorExpr:
					id = fn.Sel
				}
				if id == nil {
					return true
				}
				o, _ := p.TypesInfo.Uses[id].(*types.Func)
				t := targets[o]
				if t == nil {
					return true
				}
				callIdents[id] = true
				_ = t
				if len(call.Args) != len(t.toOld) || call.Ellipsis.IsValid() {
					bad[o] = "a call does not pass one argument per parameter"
					return true
				}
				args := make([]string, len(call.Args))
				for i, a := range call.Args {
					args[t.toOld[i]] = text(a)
					// a nested call of a permuted function inside an argument would need nested edits
					ast.Inspect(a, func(m ast.Node) bool {
						if c2, ok := m.(*ast.CallExpr); ok {
							var id2 *ast.Ident
							switch fn := ast.Unparen(c2.Fun).(type) {
							case *ast.Ident:
								id2 = fn
							case *ast.SelectorExpr:
								id2 = fn.Sel
							}
							if id2 != nil {
								if o2, _ := p.TypesInfo.Uses[id2].(*types.Func); targets[o2] != nil {
									bad[o] = "nested calls of permuted functions"
								}
							}
						}
						return true
					})
				}
				fe.edits = append(fe.edits, textEdit{tf.Offset(call.Args[0].Pos()), tf.Offset(call.Args[len(call.Args)-1].End()), strings.Join(args, ", ")})
				return true
			})
			// any other mention of the function (a value use) rules the rewrite out
			for id, o := range p.TypesInfo.Uses {
				if fo, ok := o.(*types.Func); ok && targets[fo] != nil && !callIdents[id] && id.Pos() >= f.Pos() && id.End() <= f.End() {
					if !valueOK(fo) {
						bad[fo] = "the function is also used as a value"
					}
				}
			}
			// the declaration itself
			for _, d := range f.Decls {
				fd, ok := d.(*ast.FuncDecl)
				if !ok {
					continue
				}
				o, _ := p.TypesInfo.Defs[fd.Name].(*types.Func)
				t := targets[o]
				if t == nil {
					continue
				}
				type prm struct{ name, typ string }
				var flat []prm
				named := false
				for _, fl := range fd.Type.Params.List {
					if len(fl.Names) == 0 {
						flat = append(flat, prm{"", text(fl.Type)})
						continue
					}
					named = true
					for _, nm := range fl.Names {
						flat = append(flat, prm{nm.Name, text(fl.Type)})
					}
				}
				if len(flat) != len(t.toOld) {
					bad[o] = "parameter list not understood"
					continue
				}
				reord := make([]string, len(flat))
				for i, pr := range flat {
					if named {
						nm := pr.name
						if nm == "" {
							nm = "_"
						}
						reord[t.toOld[i]] = nm + " " + pr.typ
					} else {
						reord[t.toOld[i]] = pr.typ
					}
				}
				fe.edits = append(fe.edits, textEdit{tf.Offset(fd.Type.Params.Opening) + 1, tf.Offset(fd.Type.Params.Closing), strings.Join(reord, ", ")})
			}
			for _, tt := range typeTargets {
				if tt.spec.Pos() < f.Pos() || tt.spec.End() > f.End() {
					continue
				}
				ft := tt.spec.Type.(*ast.FuncType)
				type prm struct{ name, typ string }
				var flat []prm
				named := false
				for _, fl := range ft.Params.List {
					if len(fl.Names) == 0 {
						flat = append(flat, prm{"", text(fl.Type)})
						continue
					}
					named = true
					for _, nm := range fl.Names {
						flat = append(flat, prm{nm.Name, text(fl.Type)})
					}
				}
				if len(flat) != len(tt.toOld) {
					typeBad = "parameter list of the type not understood"
					continue
				}
				reord := make([]string, len(flat))
				for i, pr := range flat {
					if named {
						nm := pr.name
						if nm == "" {
							nm = "_"
						}
						reord[tt.toOld[i]] = nm + " " + pr.typ
					} else {
						reord[tt.toOld[i]] = pr.typ
					}
				}
				fe.edits = append(fe.edits, textEdit{tf.Offset(ft.Params.Opening) + 1, tf.Offset(ft.Params.Closing), strings.Join(reord, ", ")})
			}
			if len(fe.edits) > 0 {
				perFile[fname] = fe
			}
		}
	}
	if typeBad != "" {
		return nil, append(notes, "a reviewed function type has its parameters permuted but the reviewed order is not restored: "+typeBad)
	}
	if len(bad) > 0 {
		for o, why := range bad {
			notes = append(notes, fmt.Sprintf("parameters of %s are a permutation of the reviewed ones but the reviewed order is not restored: %s", targets[o].key, why))
		}
		sort.Strings(notes)
		return nil, notes
	}
	out = map[string][]byte{}
	for fname, fe := range perFile {
		src := c.Cfg.Overlay[fname]
		if src == nil {
			b, err := os.ReadFile(fname)
			if err != nil {
				return nil, append(notes, "cannot read "+fname)
			}
			src = b
		}
		res, err := applyEdits(src, fe.edits, nil, fe.file, c.Fset)
		if err != nil {
			return nil, append(notes, fmt.Sprintf("restoring the reviewed parameter order abandoned: %s: %v", fname, err))
		}
		out[fname] = res
	}
	for _, t := range targets {
		notes = append(notes, fmt.Sprintf("parameters of %s are the reviewed ones in a different order; the reviewed order is restored in the declaration and at every call", t.key))
	}
	for _, tt := range typeTargets {
		notes = append(notes, fmt.Sprintf("parameters of the function type %s are the reviewed ones in a different order; the reviewed order is restored in the declaration and at every call through it", tt.obj.Name()))
	}
	sort.Strings(notes)
	return out, notes
}

var _ = token.NoPos
