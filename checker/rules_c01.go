package main

import (
	"strconv"
	"go/types"
	"fmt"
	"sort"
	"strings"

	"golang.org/x/tools/go/ssa"
)

func init() {
	register("C01", true,
		ruleDef{"C01.R1", c01r1},
		ruleDef{"C01.R2", c01r2},
		ruleDef{"C01.R3", c01r3},
		ruleDef{"C01.R4", c01r4},
		ruleDef{"C01.R5", c01r5},
		ruleDef{"C01.R6", c01r6},
		// the fingerprint's input is the captured record: the capture rules of C04 and the record wiring of C06.R4 are necessary conditions here too
		ruleDef{"C04.R2", c04r2}, ruleDef{"C04.R3", c04r3}, ruleDef{"C04.R4", c04r4}, ruleDef{"C04.R5", c04r5}, ruleDef{"C06.R1", c06r1}, ruleDef{"C06.R4", c06r4},
		// "every forwarded request carries the header": the hook visits every injector, sets what it computes for this request, and is the proxy's Rewrite hook
		ruleDef{"C05.R1", c05r1}, ruleDef{"C05.R3", c05r3}, ruleDef{"C05.R4", c05r4},
	)
}

func c01r1(r *R) {
	c := r.C
	checkInjectorRow(r, "C01.R1", "X-Ja3-Fingerprint", "fingerprint.JA3Fingerprint")
	fn := c.Func("pkg/fingerprint", "JA3Fingerprint")
	r.need(fn != nil, "JA3Fingerprint not found")
	o := r.Ob("C01.R1", "ja3-entry:"+funcName(fn)).At(fn.Pos())
	um := callsIn(fn, "(*github.com/dreadl0ck/tlsx.ClientHelloBasic).Unmarshal")
	if o.Check(len(um) == 1, "expected one tlsx Unmarshal call, found %d", len(um)) {
		a := callOf(um[0]).Args
		o.AtI(um[0]).Check(c.Expr(a[1]) == "p0.ClientHelloRecord", "JA3 parses %s, want the captured ClientHello record of this connection", c.Expr(a[1]))
		al, fresh := a[0].(*ssa.Alloc)
		o.Check(fresh && al.Parent() == fn, "the parse target is %s, want a ClientHelloBasic allocated for this call", c.Expr(a[0]))
		if fresh {
			o.Check(len(complitFields(al)) == 0, "the parse target is pre-populated")
		}
	}
	eachInstr(fn, func(i ssa.Instruction) {
		ret, ok := i.(*ssa.Return)
		if !ok {
			return
		}
		gs := c.guardStrs(i.Block())
		e0, e1 := c.Expr(ret.Results[0]), c.Expr(ret.Results[1])
		if e1 == "nil" {
			o.AtI(i).Check(strings.HasPrefix(e0, "ja3.DigestHex(&") && guardOkOn(gs, "Unmarshal("), "JA3Fingerprint returns %s under %v, want ja3.DigestHex(<hello parsed in this call>) on the parse-success edge", e0, gs)
			if call, ok := ret.Results[0].(*ssa.Call); ok && len(um) == 1 {
				o.Check(refineAt(call.Call.Args[0], call.Block()) == callOf(um[0]).Args[0], "the digest is computed from a different hello than the one parsed")
			}
		} else {
			o.AtI(i).Check(e0 == `""`, "error return carries value %s", e0)
		}
	})
}

// R2: purity / input-only dependence of the JA3 computation.
func c01r2(r *R) {
	c := r.C
	fn := c.Func("pkg/fingerprint", "JA3Fingerprint")
	r.need(fn != nil, "JA3Fingerprint not found")
	purityRule(r, "C01.R2", fn, map[string]bool{"fingerprint.vlogf": true}, nil, 4)
}

// purityRule runs the shared purity checks on the closure of fn.
func purityRule(r *R, rule string, fn *ssa.Function, cut map[string]bool, leafExceptions map[string]string, minFuncs int) {
	c := r.C
	r.need(c.Cfg.Deep, "purity rule needs deep mode (dependency bodies)")
	p := purityClosure(c, fn, cut)
	o := r.Ob(rule, "closure:"+funcName(fn)).At(fn.Pos())
	o.Check(len(p.Funcs) >= minFuncs, "closure of %s has only %d analysed functions (expected >= %d): dependency bodies missing?", funcName(fn), len(p.Funcs), minFuncs)
	var names []string
	for _, f := range p.Funcs {
		names = append(names, funcName(f))
	}
	if len(names) > 12 {
		names = append(names[:12], fmt.Sprintf("… %d more", len(p.Funcs)-12))
	}
	o.OK("%d analysed functions (%s); %d external leaves", len(p.Funcs), strings.Join(names, ", "), len(p.Leaves))
	// (a,c) state and nondeterminism sources
	for _, d := range purityScan(c, p, "ClientHelloRecord") {
		key := "impure:" + funcName(d.Fn) + ":" + d.What
		if why, ok := leafExceptions["site:"+funcName(d.Fn)]; ok {
			r.Ob(rule, key).AtI(d.I).OK("reviewed exception: %s", why)
			continue
		}
		r.Ob(rule, key).AtI(d.I).Fail("%s, in the call closure of %s, %s: the fingerprint would no longer be a function of the ClientHello bytes alone. Path: %s", funcName(d.Fn), funcName(fn), d.What, c.pathTo(p.Reach, d.Fn))
	}
	// (b) globals read are never written outside init anywhere in the built program
	gr := globalsRead(p)
	all := c.allBuilt()
	var gs []*ssa.Global
	for g := range gr {
		gs = append(gs, g)
	}
	sort.Slice(gs, func(i, j int) bool { return gs[i].String() < gs[j].String() })
	for _, g := range gs {
		og := r.Ob(rule, "global-read:"+g.Pkg.Pkg.Name()+"."+g.Name()).AtI(gr[g][0])
		if g.Pkg.Pkg.Path() == modPath+"/pkg/fingerprint" && (g.Name() == c.nowName("pkg/fingerprint", "VerboseLogs") || g.Name() == c.nowName("pkg/fingerprint", "Logger")) {
			og.OK("logging switch (cannot influence the returned value: only read by the cut vlogf)")
			continue
		}
		tn := typeName(deref(g.Type()))
		if strings.Contains(tn, "sync.Pool") || strings.Contains(tn, "sync.Map") {
			og.Fail("the computation uses package-level %s %s: recycled objects carry state from other connections", tn, g.Name())
			continue
		}
		for _, w := range globalWriters(all, g) {
			if isInitFn(w.Fn) {
				continue
			}
			if why, ok := leafExceptions["global:"+g.Pkg.Pkg.Name()+"."+g.Name()]; ok {
				og.OK("reviewed exception: %s", why)
				continue
			}
			og.AtI(w.Instr).Fail("package-level variable %s.%s, read while computing the fingerprint, is written in %s: the value would depend on earlier requests/other connections", g.Pkg.Pkg.Name(), g.Name(), funcName(w.Fn))
		}
	}
	// (d) external leaves are within the allow-list
	for _, lf := range p.Leaves {
		pk := leafPkg(lf)
		ol := r.Ob(rule, "leaf:"+lf)
		if s := p.LeafSites[lf]; s != nil {
			ol.AtI(s)
		}
		if why, ok := leafExceptions[lf]; ok {
			ol.OK("reviewed exception: %s", why)
			continue
		}
		if why, ok := leafExceptions["pkg:"+pk]; ok {
			ol.OK("reviewed exception: %s", why)
			continue
		}
		if _, ok := purePkgs[pk]; ok {
			continue
		}
		if why, ok := pureLeaves[lf]; ok {
			ol.OK("reviewed: %s", why)
			continue
		}
		ol.Fail("the fingerprint computation calls %s (package %s), which is not in the reviewed list of deterministic, state-free packages (time, rand, os, net, … make the value depend on more than the ClientHello)", lf, pk)
	}
	r.assume("S7: the listed standard-library functions are deterministic functions of their arguments")
	r.assume("S8: tlsx/utls parsing correctness is trusted; only their purity is analysed")
}

// individually reviewed pure functions from packages that are not pure as a whole
var pureLeaves = map[string]string{
	"net.ParseIP": "pure string-to-address parser (no resolver, no I/O)",
}

type ja3List struct {
	Field  string
	Grease bool
	Index  int // number of field separators before it
}

var ja3Lists = []ja3List{{"CipherSuites", true, 1}, {"AllExtensions", true, 2}, {"SupportedGroups", true, 3}, {"SupportedPoints", false, 4}}

const rngIdx = "(1 + phi((1 + phi@)|-1))"

// appendIntSites of ja3.Bare with the rendered operand.
type aiSite struct {
	I     *ssa.Call
	Val   string
	Radix string
}

func bareAppendInts(c *Ctx, bare *ssa.Function) []aiSite {
	var out []aiSite
	for _, s := range callsIn(bare, "strconv.AppendInt") {
		call := s.(*ssa.Call)
		out = append(out, aiSite{call, c.Expr(call.Call.Args[1]), c.Expr(call.Call.Args[2])})
	}
	return out
}

// sepAppends: appends of a single separator global.
func sepAppends(c *Ctx, bare *ssa.Function, global string) []*ssa.Call {
	var out []*ssa.Call
	for _, s := range callsIn(bare, "builtin.append") {
		call := s.(*ssa.Call)
		els := variadicElems(call.Call.Args[1])
		if len(els) == 1 && c.Expr(els[0]) == global {
			out = append(out, call)
		}
	}
	return out
}

func c01r3(r *R) {
	c := r.C
	bare := c.Func("pkg/ja3", "Bare")
	r.need(bare != nil, "ja3.Bare not found")
	sites := bareAppendInts(c, bare)
	r.Ob("C01.R3", "instances").Check(len(sites) == 9, "expected 9 AppendInt sites in ja3.Bare (version + 2 per list), found %d", len(sites))
	for _, l := range ja3Lists {
		loopForm := "p0." + l.Field + "[" + rngIdx + "]"
		lastForm := "p0." + l.Field + "[(builtin.len(p0." + l.Field + ") - 1)]"
		for _, form := range []struct{ kind, e string }{{"loop", loopForm}, {"last", lastForm}} {
			o := r.Ob("C01.R3", "element:"+l.Field+":"+form.kind)
			var hit *aiSite
			for k := range sites {
				if sites[k].Val == form.e {
					hit = &sites[k]
				}
			}
			if !o.Check(hit != nil, "no decimal append of %s (%s element of %s): elements would be missing or taken from another position", form.e, form.kind, l.Field) {
				continue
			}
			o.AtI(hit.I)
			gs := c.guardStrs(hit.I.Block())
			// required conditions, conditions that may additionally be present (implied by the required ones), and for
			// the last element the two spellings of "the list is not empty"
			var want, optional []string
			var oneOf []string
			if l.Grease {
				want = append(want, "-ja3.greaseValues["+form.e+"]")
			}
			n1 := "(builtin.len(p0." + l.Field + ") - 1)"
			if form.kind == "loop" {
				want = append(want, "+("+rngIdx+" < "+n1+")")
				optional = append(optional, "+(1 < builtin.len(p0."+l.Field+"))", "+(0 <= "+n1+")", "+("+n1+" != -1)")
			} else {
				oneOf = []string{"+(" + n1 + " != -1)", "+(0 <= " + n1 + ")", "+(0 < builtin.len(p0." + l.Field + "))", "+(0 != builtin.len(p0." + l.Field + "))"}
				optional = append(optional, "+("+n1+" <= "+rngIdx+")", "+(1 < builtin.len(p0."+l.Field+"))", "+(builtin.len(p0."+l.Field+") <= 1)")
			}
			for _, w := range want {
				if strings.HasPrefix(w, "-ja3.greaseValues") {
					o.Check(hasGuard(gs, w), "the %s element of %s is appended without the GREASE filter on that same element; guards %v", form.kind, l.Field, gs)
				} else {
					o.Check(hasGuard(gs, w), "the %s element of %s is appended under %v, missing %s", form.kind, l.Field, gs, w)
				}
			}
			// what a literal says about the list's length, however it is spelled (`len > 1`, `len-1 > 0`, `len-1 != -1`, …)
			lenFact := func(g string) (string, int, bool) {
				pos, a, op, b, okp := parseRelLit(g)
				if !okp {
					return "", 0, false
				}
				flip := map[string]string{"==": "==", "!=": "!=", "<": ">", ">": "<", "<=": ">=", ">=": "<="}
				neg := map[string]string{"==": "!=", "!=": "==", "<": ">=", ">": "<=", "<=": ">", ">=": "<"}
				k, err := strconv.Atoi(b)
				if err != nil {
					if ka, errA := strconv.Atoi(a); errA == nil {
						a, k, op = b, ka, flip[op]
					} else {
						return "", 0, false
					}
				}
				if !pos {
					op = neg[op]
				}
				ln := "builtin.len(p0." + l.Field + ")"
				switch a {
				case ln:
				case "(" + ln + " - 1)":
					k++
				default:
					return "", 0, false
				}
				switch op {
				case "<=":
					op, k = "<", k+1
				case ">=":
					op, k = ">", k-1
				}
				return op, k, true
			}
			if len(oneOf) > 0 {
				okOne := false
				for _, w := range oneOf {
					if hasGuard(gs, w) {
						okOne = true
					}
				}
				for _, g := range gs {
					if op, k, okf := lenFact(g); okf && k == 0 && (op == ">" || op == "!=") {
						okOne = true // the list is not empty
					}
				}
				o.Check(okOne, "the last element of %s is appended under %v, missing the non-empty test (%s)", l.Field, gs, oneOf[0])
			}
			for _, g := range gs {
				ok := false
				for _, w := range append(append(append([]string{}, want...), optional...), oneOf...) {
					if g == canonStr(w) {
						ok = true
					}
				}
				if op, k, okf := lenFact(g); !ok && okf {
					if form.kind == "loop" {
						// implied by the loop's own bound (an index below len-1 exists only when len >= 2)
						ok = (op == ">" || op == "!=") && k <= 1
					} else {
						// non-empty, or which side of the `more than one element` split this is
						ok = ((op == ">" || op == "!=") && k == 0) || (op == ">" && k == 1) || (op == "<" && k == 2)
					}
				}
				if !ok {
					if strings.Contains(g, "greaseValues") && !l.Grease {
						o.Fail("%s values are GREASE-filtered (%s); the JA3 definition removes GREASE only from ciphers, extensions and groups", l.Field, g)
					} else {
						o.Fail("the %s element of %s is appended only under the extra condition %s", form.kind, l.Field, g)
					}
				}
			}
			o.Check(hit.Radix == "10", "radix is %s, want decimal", hit.Radix)
		}
	}
	// version
	o := r.Ob("C01.R3", "element:HandshakeVersion")
	found := false
	for _, s := range sites {
		if s.Val == "p0.HandshakeVersion" {
			found = true
			o.AtI(s.I).Check(len(guardsOf(s.I.Block())) == 0 && s.Radix == "10", "version append is conditional or not decimal")
		}
	}
	o.Check(found, "the handshake version is not appended")
}

func c01r4(r *R) {
	c := r.C
	init, p := c.varInit("pkg/ja3", "greaseValues")
	r.need(init != nil, "ja3.greaseValues initialiser not found")
	o := r.Ob("C01.R4", "grease-table").At(init.Pos())
	m, ok := mapLitConsts(p, init)
	if !o.Check(ok, "greaseValues is not a constant map literal") {
		return
	}
	o.Check(len(m) == 16, "greaseValues has %d entries, RFC 8701 defines 16", len(m))
	for k := 0; k < 16; k++ {
		key := fmt.Sprint(0x0a0a + 0x1010*k)
		o.Check(m[key] == "true", "GREASE value 0x%04x is missing from greaseValues (or not true)", 0x0a0a+0x1010*k)
	}
	for k, v := range m {
		o.Check(v == "true", "greaseValues[%s] = %s", k, v)
	}
	// separators
	for _, s := range [][2]string{{"sepValueByte", "45"}, {"sepFieldByte", "44"}} {
		e, pp := c.varInit("pkg/ja3", s[0])
		if e == nil {
			// declared as a constant instead of a variable
			if p := c.pkgOf("pkg/ja3"); p != nil && p.Types != nil {
				if k, ok := p.Types.Scope().Lookup(c.nowName("pkg/ja3", s[0])).(*types.Const); ok {
					o.Check(k.Val().ExactString() == s[1], "%s is %v, want %s", s[0], k.Val(), s[1])
					continue
				}
			}
		}
		if o.Check(e != nil, "%s not found", s[0]) {
			v := constOf(pp, e)
			o.Check(v != nil && v.ExactString() == s[1], "%s is %v, want %s ('%c')", s[0], v, s[1], rune(s[1][0]-'0')*10+rune(s[1][1]-'0'))
		}
	}
}

func c01r5(r *R) {
	c := r.C
	bare := c.Func("pkg/ja3", "Bare")
	r.need(bare != nil, "ja3.Bare not found")
	// the separators render as their values (44 ',' and 45 '-'), whether declared var or const (C01.R4 pins the values)
	fsep := sepAppends(c, bare, "44")
	vsep := sepAppends(c, bare, "45")
	o := r.Ob("C01.R5", "field-structure:"+funcName(bare)).At(bare.Pos())
	isF := map[ssa.Instruction]bool{}
	for _, s := range fsep {
		isF[s] = true
		o.AtI(s)
	}
	res := countOnPaths(bare, func(i ssa.Instruction) int {
		if isF[i] {
			return 1
		}
		return 0
	})
	o.Check(len(fsep) == 4 && res.Min == 4 && res.Max == 4 && !res.InLoop, "field separators (','): %d sites, %d..%d per path, inLoop=%v; want exactly 4 on every path, none in a loop", len(fsep), res.Min, res.Max, res.InLoop)
	// value separators only in loops, right after an AppendInt in the same block
	o.Check(len(vsep) == 4, "value separator ('-') appended at %d sites, want 4 (one per list loop)", len(vsep))
	for _, s := range vsep {
		o.AtI(s)
		o.Check(inLoop(s.Block()), "a value separator is appended outside an element loop")
		prev, ok := s.Call.Args[0].(*ssa.Call)
		o.Check(ok && calleeName(&prev.Call) == "strconv.AppendInt" && prev.Block() == s.Block(), "a value separator does not directly follow the element it terminates")
	}
	// every AppendInt site lies in the section given by the number of dominating field separators
	sites := bareAppendInts(c, bare)
	for _, s := range sites {
		want := -1
		if s.Val == "p0.HandshakeVersion" {
			want = 0
		}
		for _, l := range ja3Lists {
			if strings.HasPrefix(s.Val, "p0."+l.Field+"[") {
				want = l.Index
			}
		}
		if !o.Check(want >= 0, "AppendInt of %s is not one of the five JA3 fields", s.Val) {
			continue
		}
		n := 0
		for _, f := range fsep {
			if instrDominates(f, s.I) {
				n++
			} else {
				o.Check(!reachesAfter(f, s.I) || instrDominates(f, s.I), "ordering of %s relative to a field separator is path-dependent", s.Val)
			}
		}
		o.AtI(s.I).Check(n == want, "%s is appended after %d field separators, want %d (fields must appear as version,ciphers,extensions,groups,points)", s.Val, n, want)
	}
	// TrimSuffix({'-'}) feeds field separators 2..4; separator 1 follows the version directly
	trims := 0
	for _, f := range fsep {
		switch a := f.Call.Args[0].(type) {
		case *ssa.Call:
			switch calleeName(&a.Call) {
			case "bytes.TrimSuffix":
				trims++
				els := variadicElems(a.Call.Args[1])
				o.AtI(a).Check(len(els) == 1 && c.Expr(els[0]) == "45", "TrimSuffix removes %v, want the value separator", els)
			case "strconv.AppendInt":
				o.Check(c.Expr(a.Call.Args[1]) == "p0.HandshakeVersion", "a field separator directly follows %s", c.Expr(a.Call.Args[1]))
			default:
				o.AtI(f).Fail("a field separator is appended to %s", calleeName(&a.Call))
			}
		default:
			o.AtI(f).Fail("a field separator is appended without trimming a trailing value separator first (a list ending in a filtered GREASE value would leave a dangling '-')")
		}
	}
	o.Check(trims == 3, "TrimSuffix of the value separator precedes %d field separators, want 3", trims)
	// wire order: no sort, no store into the hello's slices
	eachInstr(bare, func(i ssa.Instruction) {
		if cc := callOf(i); cc != nil && (strings.HasPrefix(calleeName(cc), "sort.") || strings.HasPrefix(calleeName(cc), "slices.Sort")) {
			o.AtI(i).Fail("ja3.Bare sorts (%s): JA3 lists are in wire order", calleeName(cc))
		}
		if st, ok := i.(*ssa.Store); ok && strings.HasPrefix(c.Expr(st.Addr), "p0.") {
			o.AtI(i).Fail("ja3.Bare writes into the parsed hello: %s", c.Expr(st.Addr))
		}
	})
	// result: the buffer after the points section
	eachInstr(bare, func(i ssa.Instruction) {
		if ret, ok := i.(*ssa.Return); ok {
			n := 0
			for _, f := range fsep {
				if instrDominates(f, i) {
					n++
				}
			}
			o.Check(n == 4, "ja3.Bare returns after %d field separators", n)
			// returned value is the running buffer (phi chain), not a TrimSuffix or a slice of it
			switch ret.Results[0].(type) {
			case *ssa.Phi, *ssa.Call:
			default:
				o.AtI(i).Fail("ja3.Bare returns %s", shortInstr(i))
			}
		}
	})
}

func c01r6(r *R) {
	c := r.C
	dh := c.Func("pkg/ja3", "DigestHex")
	bd := c.Func("pkg/ja3", "BareToDigestHex")
	r.need(dh != nil, "ja3.DigestHex not found")
	o := r.Ob("C01.R6", "digest-chain").At(dh.Pos())
	// hexOfMD5: the value is hex.EncodeToString(md5.Sum(<arg>)[:]) (directly or through a local array)
	hexOfMD5 := func(fn *ssa.Function, v ssa.Value, arg string) bool {
		call, ok := v.(*ssa.Call)
		if !ok || calleeName(&call.Call) != "encoding/hex.EncodeToString" {
			return false
		}
		sl, ok := call.Call.Args[0].(*ssa.Slice)
		if !ok || sl.Low != nil || sl.High != nil {
			return false
		}
		src := sl.X
		if al, ok := src.(*ssa.Alloc); ok {
			st := uniqueStore(al)
			if st == nil {
				return false
			}
			src = st.Val
		}
		return c.Expr(src) == "crypto/md5.Sum("+arg+")"
	}
	eachInstr(dh, func(i ssa.Instruction) {
		if ret, ok := i.(*ssa.Return); ok {
			e := c.Expr(ret.Results[0])
			o.AtI(i).Check(e == "ja3.BareToDigestHex(ja3.Bare(p0))" && bd != nil || hexOfMD5(dh, ret.Results[0], "ja3.Bare(p0)"), "DigestHex returns %s, want the hex MD5 of ja3.Bare(hello)", e)
		}
	})
	if bd != nil {
		o.At(bd.Pos())
		eachInstr(bd, func(i ssa.Instruction) {
			if ret, ok := i.(*ssa.Return); ok {
				o.AtI(i).Check(hexOfMD5(bd, ret.Results[0], "p0"), "BareToDigestHex returns %s, want hex.EncodeToString(md5.Sum(bare)[:])", c.Expr(ret.Results[0]))
			}
		})
	}
}

// bareSumIsMD5: the local `sum` whose slice is hex-encoded holds md5.Sum(p0).
func bareSumIsMD5(c *Ctx, fn *ssa.Function) bool {
	ok := false
	eachInstr(fn, func(i ssa.Instruction) {
		if st, isS := i.(*ssa.Store); isS {
			if al, isA := st.Addr.(*ssa.Alloc); isA && al.Comment == "sum" {
				ok = c.Expr(st.Val) == "crypto/md5.Sum(p0)"
			}
		}
	})
	return ok
}
