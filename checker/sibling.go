package main

import (
	"os"
	"path/filepath"
	"regexp"
	"sort"
	"strings"

	"golang.org/x/tools/go/ssa"
)

// The vendored HTTP/2 code has siblings in the module cache: golang.org/x/net v0.34.0 http2 (the release the fork was
// taken from; identical except for the fingerprint capture hooks and three lines of the client transport) and
// golang.org/x/net v0.19.0 http2/hpack (byte-identical to pkg/http2/hpack, and the copy the proxy actually links).
// They are loaded through a source overlay as virtual packages of the repository's module and compared with the
// fork function by function ("implementations of one interface must agree").

var refSources = map[string][]string{
	"pkg/zz_ref_http2": {"golang.org/x/net@v0.34.0/http2"},
	"pkg/zz_ref_hpack": {"golang.org/x/net@v0.19.0/http2/hpack", "golang.org/x/net@v0.34.0/http2/hpack"},
}

func modCache() string {
	if v := os.Getenv("GOMODCACHE"); v != "" {
		return v
	}
	if v := os.Getenv("GOPATH"); v != "" {
		return filepath.Join(strings.Split(v, string(os.PathListSeparator))[0], "pkg", "mod")
	}
	home, _ := os.UserHomeDir()
	return filepath.Join(home, "go", "pkg", "mod")
}

func upstreamRefs() map[string]string {
	out := map[string]string{}
	for rel, cands := range refSources {
		for _, cnd := range cands {
			d := filepath.Join(modCache(), cnd)
			if st, err := os.Stat(d); err == nil && st.IsDir() {
				out[rel] = d
				break
			}
		}
	}
	return out
}

// normRef rewrites reference-package names to the fork's names.
func normRef(s string) string {
	s = strings.ReplaceAll(s, "zz_ref_http2.", "http2.")
	s = strings.ReplaceAll(s, "zz_ref_hpack.", "http2/hpack.")
	s = strings.ReplaceAll(s, "golang.org/x/net/http2/hpack.", "http2/hpack.")
	return s
}

// refFuncByName indexes reference functions by normalised name.
func (c *Ctx) refFuncs(rel string) map[string]*ssa.Function {
	out := map[string]*ssa.Function{}
	for _, f := range c.RefFuncs {
		if strings.HasSuffix(f.Pkg.Pkg.Path(), "/"+filepath.Base(rel)) {
			out[normRef(funcName(f))] = f
		}
	}
	return out
}

// siblingCompare compares the effect summaries of fns with their like-named reference functions.
// skip: functions with a reviewed, intended difference (name -> reason).
func siblingCompare(r *R, rule, rel string, fns []*ssa.Function, skip map[string]string, what string, minN ...int) {
	c := r.C
	refs := c.refFuncs(rel)
	if len(refs) == 0 {
		r.note("%s: upstream reference %s not available in the module cache; sibling comparison not performed (the reviewed tables still apply)", rule, rel)
		r.Ob(rule, "reference-available:"+rel).OK("reference source not present in this sandbox; comparison skipped")
		return
	}
	n, same := 0, 0
	sort.Slice(fns, func(i, j int) bool { return funcName(fns[i]) < funcName(fns[j]) })
	for _, fn := range fns {
		if fn.Parent() != nil {
			continue // closures are compared as part of their parent
		}
		name := normRef(funcName(fn))
		if debugTextOnly(name) {
			r.Ob(rule, "sibling:"+name).At(fn.Pos()).OK("builds text for logs and error details only; how the text is assembled is not compared")
			continue
		}
		if why, ok := skip[name]; ok {
			r.Ob(rule, "sibling:"+name).At(fn.Pos()).OK("intended difference: %s", why)
			continue
		}
		ref := refs[name]
		n++
		if os.Getenv("FPCHECK_LIST_SIB") != "" {
			println("SIBFN", rule, name)
		}
		o := r.Ob(rule, "sibling:"+name).At(fn.Pos())
		if ref == nil {
			o.Fail("%s %s has no counterpart in the upstream reference (%s)", what, name, c.Cfg.Refs[rel])
			continue
		}
		a, b := effectRows(c, fn), effectRows(c, ref)
		for i := range a {
			a[i].Key = normRef(a[i].Key)
		}
		for i := range b {
			b[i].Key = normRef(b[i].Key)
		}
		a, b = renumberRows(a, normAttrs), renumberRows(b, normAttrs)
		am, bm := map[string][]string{}, map[string][]string{}
		for _, row := range a {
			am[row.Key] = normAttrs(row.Attrs)
		}
		for _, row := range b {
			bm[row.Key] = normAttrs(row.Attrs)
		}
		var diffs []string
		for k, av := range am {
			bv, ok := bm[k]
			if !ok {
				diffs = append(diffs, "only in the fork: "+k)
				continue
			}
			miss, extra := diffSets(bv, av)
			if len(miss)+len(extra) > 0 {
				diffs = append(diffs, k+": upstream has ["+strings.Join(miss, " ; ")+"], the fork has ["+strings.Join(extra, " ; ")+"]")
			}
		}
		for k := range bm {
			if _, ok := am[k]; !ok {
				diffs = append(diffs, "only upstream: "+k)
			}
		}
		sort.Strings(diffs)
		if len(diffs) > 0 && os.Getenv("FPCHECK_DEBUG_SIB") != "" {
			for k, v := range am {
				println("FORK", k, "::", strings.Join(v, " ; "))
			}
			for k, v := range bm {
				println("REF ", k, "::", strings.Join(v, " ; "))
			}
		}
		if len(diffs) > 0 {
			if len(diffs) > 6 {
				diffs = append(diffs[:6], "…")
			}
			for _, row := range a {
				if row.I != nil {
					o.AtI(row.I)
					break
				}
			}
			o.Fail("%s %s deviates from its upstream sibling (x/net, %s): %s", what, name, filepath.Base(filepath.Dir(c.Cfg.Refs[rel]))+"/"+filepath.Base(c.Cfg.Refs[rel]), strings.Join(diffs, " || "))
		} else {
			same++
		}
	}
	need := 5
	if len(minN) > 0 && minN[0] > 0 {
		need = minN[0]
	}
	r.Ob(rule, "sibling-instances:"+rel).Must(n >= need, "only %d functions compared with %s", n, rel).OK("%d functions compared with the upstream sibling, %d identical in effect", n, same)
}

func normAttrs(a []string) []string {
	out := make([]string, len(a))
	for i, x := range a {
		x = normRef(x)
		if strings.HasPrefix(x, "OR{") && strings.HasSuffix(x, "}") {
			alts := strings.Split(x[3:len(x)-1], " | ")
			for k, alt := range alts {
				if strings.HasPrefix(alt, "(") && strings.HasSuffix(alt, ")") {
					lits := strings.Split(alt[1:len(alt)-1], " & ")
					sort.Strings(lits)
					alts[k] = "(" + strings.Join(lits, " & ") + ")"
				}
			}
			sort.Strings(alts)
			x = "OR{" + strings.Join(alts, " | ") + "}"
		}
		out[i] = x
	}
	return out
}

// reviewed, intended differences between the fork and x/net v0.34.0
var forkSkips = map[string]string{
	"(*http2.serverConn).processFrame":                 "the fork's fingerprint capture hooks live here (decided by C03/C06/C07 rules and the C13 tables instead)",
	"(*http2.ClientConn).closeIfIdle":                  "the fork predates upstream's closedOnIdle fix (golang/go#70515) in the client transport, which the proxy does not use",
	"(*http2.ClientConn).idleStateLocked":              "same upstream transport fix (closedOnIdle)",
	"(*http2.clientConnReadLoop).cleanup":              "same upstream transport fix (closedOnIdle / idleTimeout-bounded unusedWaitTime)",
	"(*http2.clientConnReadLoop).processWindowUpdate":  "fix 9fd42ae (finding D7): the overflow edge calls endStreamErrorLocked instead of re-locking cc.mu through endStreamError, as x/net does from v0.36 on; its decisions are pinned by the h2_flow_transport table instead",
	"(*http2.clientConnReadLoop).endStreamErrorLocked": "added by fix 9fd42ae (finding D7); not in x/net v0.34.0",
	"http2.init": "package initialiser (synthetic and declared init share the name); package-level tables are compared by value instead",
}

// minSiblings: vacuity guard per property (number of functions that must have been compared; 0 = default of 5).
var minSiblings = map[string]int{"C09": 3, "C15": 3}

// Which functions of the vendored HTTP/2 code bear on which property (regular expressions over rendered function names).
// The sibling comparison of a property is restricted to them, so that a deviation elsewhere alarms only the property it concerns.
var propFuncs = map[string][]string{
	"C08": {`^\(\*http2\.pipe\)`, `^\(\*http2\.dataBuffer\)`, `^http2\.(getDataBufferChunk|putDataBufferChunk)$`, `^\(\*http2\.writeData\)`, `^\(\*http2\.writeResHeaders\)`, `^http2\.(encodeHeaders|encKV|splitHeaderBlock|writeEndsStream)`,
		`^\(\*http2\.responseWriter(State)?\)`, `^\(\*http2\.requestBody\)`, `^\(\*http2\.serverConn\)\.(serve|writeDataFromHandler|writeFrameFromHandler|writeHeaders|write100ContinueHeaders|newWriterAndRequest|newWriterAndRequestNoBody|newResponseWriter|processData|writeFrameAsync|wroteFrame|runHandler|writeFrame|scheduleFrameWrite|startFrameWrite|resetStream|closeStream|handlerDone|processSettings|processSetting|processSettingInitialWindowSize|processWindowUpdate|noteBodyRead|noteBodyReadFromHandler|sendWindowUpdate|sendWindowUpdate32)$`, `^\\(\\*http2\\.outflow\\)`,
		`^\(\*http2\.stream\)\.(endStream|copyTrailersToHandlerRequest|processTrailerHeaders)$`, `^http2\.(checkWriteHeaderCode|cloneHeader|foreachHeaderElement)$`, `^\(\*http2\.writeQueue\)`, `^\(http2\.FrameWriteRequest\)\.Consume$`,
		// the buffered connection writer every frame goes through, and which statuses may carry a body
		`^\(\*http2\.bufferedWriter\)`, `^\(\*http2\.bufferedWriterTimeoutWriter\)`, `^http2\.(writeWithByteTimeout|bodyAllowedForStatus|mustUint31|newBufferedWriter|httpCodeString)$`,
		// small helpers on the same path: header name folding and the common-header tables, the sorter that orders response
		// headers, the body's close waiter, the chunk writer, the connection-level accessors
		`^http2\.(asciiEqualFold|asciiToLower|isASCIIPrint|lower|canonicalHeader|buildCommonHeaderMaps|buildCommonHeaderMapsOnce|errno|serverConnBaseContext)$`,
		`^\(\*http2\.sorter\)`, `^\(\*?http2\.closeWaiter\)`, `^\(http2\.chunkWriter\)`, `^\(\*http2\.serverConn\)\.(Flush|Framer|CloseConn|maxHeaderListSize|rejectConn)$`,
		`^\(\*http2\.serverInternalState\)`, `^\(\*http2\.ServeConnOpts\)`},
	"C09": {`^\(\*http2\.serverConn\)\.(newWriterAndRequest|newWriterAndRequestNoBody|canonicalHeader)$`},
	// the User-Agent the probe predicate sees over HTTP/2 is the one the client sent: the request's header map is built
	// as upstream builds it
	"C15": {`^\(\*http2\.serverConn\)\.(newWriterAndRequest|newWriterAndRequestNoBody|canonicalHeader)$`},
	"C18": {`^\(\*?http2\.(writeResHeaders|writePushPromise|write100ContinueHeadersFrame)\)`, `^http2\.(encodeHeaders|encKV|splitHeaderBlock)$`, `^\(\*http2\.serverConn\)\.(HeaderEncoder|processSetting|writeHeaders|write100ContinueHeaders)$`, `^\(\*http2\.Framer\)\.(readMetaFrame|WriteHeaders|WriteContinuation|WritePushPromise)$`,
		// the client side's use of the one encoder per connection: what is encoded is written (a block encoded and then dropped
		// leaves the peer's table behind)
		`^\(\*http2\.clientStream\)\.(encodeAndWriteHeaders|writeRequest)$`, `^\(\*http2\.ClientConn\)\.(encodeHeaders|encodeTrailers|writeHeaders|writeHeader)$`},
	"C10": {`^http2\.(getDataBufferChunk|putDataBufferChunk)$`, `^\(\*http2\.dataBuffer\)`, `^http2\.(parse|read)`, `^\(\*http2\.Framer\)\.(ReadFrame|readMetaFrame|checkFrameOrder|maxHeaderStringLen|maxHeaderListSize)`, `^\(\*http2\.serverConn\)\.(readFrames|writeFrameAsync|serve|notePanic|runHandler|sendServeMsg|readPreface|processFrameFromReader|setConnState|onSettingsTimer|onIdleTimer|onReadIdleTimer|onShutdownTimer|handlePingTimer)$`,
		`^\(\*http2\.Server\)\.(ServeConn|serveConn)$`, `^\(\*http2\.stream\)\.(onReadTimeout|onWriteTimeout)$`, `\)\.(writeFrame|staysWithinBuffer|writeHeaderBlock)$`, `^\(\*http2\.(SettingsFrame|MetaHeadersFrame|HeadersFrame|DataFrame|FrameHeader)\)`, `^http2\.(splitHeaderBlock|terminalReadFrameError|isClosedConnError)`},
	"C11": {`^\(\*http2\.serverConn\)\.(serve|readFrames|writeFrameAsync|closeAllStreamsOnConnClose|stopShutdownTimer|closeStream|onSettingsTimer|onIdleTimer|onReadIdleTimer|onShutdownTimer|handlePingTimer|sendServeMsg|readPreface|startGracefulShutdown|startGracefulShutdownInternal|goAway|shutDownIn|scheduleFrameWrite|wroteFrame|processHeaders|newStream|runHandler|handlerDone|writeFrameFromHandler|writeDataFromHandler|writeHeaders|noteBodyReadFromHandler)$`,
		`^\(\*http2\.Server\)\.(ServeConn|serveConn|afterFunc|newTimer|now|markNewGoroutine)$`, `^\(\*http2\.stream\)\.(onReadTimeout|onWriteTimeout)$`, `^\(http2\.timeTimer\)`, `^\(\*http2\.responseWriter\)\.(SetReadDeadline|SetWriteDeadline|CloseNotify|handlerDone)`, `^http2\.(h1ServerKeepAlivesDisabled|configFromServer|fillNetHTTPServerConfig|setConfigDefaults|setDefault)`,
		// the per-byte write timeout every frame write goes through
		`^http2\.writeWithByteTimeout$`, `^\(\*http2\.bufferedWriter(TimeoutWriter)?\)`, `^http2\.ConfigureServer$`},
	"C12": {`^\(\*http2\.(outflow|inflow)\)`, `^http2\.(takeInflows|mustUint31|parseWindowUpdateFrame|parseDataFrame)$`, `^\(http2\.Setting\)\.Valid$`, `^\(\*http2\.Framer\)\.(WriteWindowUpdate|WriteData|WriteDataPadded|startWriteDataPadded)$`, `^\(http2\.FrameWriteRequest\)\.Consume$`, `^\(\*http2\.writeQueue\)\.consume$`,
		`^\(\*http2\.serverConn\)\.(processData|processWindowUpdate|processSettingInitialWindowSize|processSetting|processSettings|sendWindowUpdate|sendWindowUpdate32|noteBodyRead|noteBodyReadFromHandler|closeStream|newStream|serve|scheduleFrameWrite|startFrameWrite|wroteFrame|writeFrame|resetStream)$`, `^\(\*http2\.Server\)\.serveConn$`,
		`^\(\*http2\.requestBody\)\.Read$`, `^\(\*http2\.clientStream\)\.(awaitFlowControl|writeRequestBody)$`, `^\(\*http2\.clientConnReadLoop\)\.(processData|processWindowUpdate|processSettingsNoWrite)`, `^\(http2\.transportResponseBody\)`, `^\(\*http2\.ClientConn\)\.addStreamLocked$`, `^\(\*http2\.Transport\)\.newClientConn$`},
	"C13": {`^\(\*http2\.serverConn\)\.(processFrameFromReader|processHeaders|processData|processResetStream|processPriority|processSettings|processSetting|processSettingInitialWindowSize|processPing|processGoAway|processWindowUpdate|state|checkPriority|scheduleHandler|handlerDone|newStream|closeStream|goAway|resetStream|newWriterAndRequest|newWriterAndRequestNoBody|scheduleFrameWrite|upgradeRequest|startPush|countError|curOpenStreams)`,
		`^\(\*http2\.stream\)\.(processTrailerHeaders|endStream|isPushed)$`, `^http2\.(checkValidHTTP2RequestHeaders|validPseudoPath|new400Handler|handleHeaderListTooLong|streamError|validWireHeaderFieldName|lowerHeader)$`,
		`^\(\*http2\.MetaHeadersFrame\)`, `^\(\*http2\.Framer\)\.(checkFrameOrder|readMetaFrame|ReadFrame)$`, `^\(http2\.(Setting|ErrCode|StreamError|ConnectionError|streamState|FrameType|Flags)\)`, `^\(\*http2\.writeGoAway\)`, `^\(http2\.goAwayFlowError\)`, `^http2\.typeFrameParser$`, `^http2\.parse`},
}

// forkSiblingRule compares with upstream the fork's functions that bear on property prop (or, with files given, those declared
// in the named files).
func forkSiblingRule(r *R, rule string, files ...string) {
	c := r.C
	prop := r.Prop
	var pats []*regexp.Regexp
	for _, p := range propFuncs[prop] {
		pats = append(pats, regexp.MustCompile(p))
	}
	var fns []*ssa.Function
	for _, f := range c.FuncsIn("pkg/http2") {
		if len(pats) > 0 {
			n := funcName(f)
			if f.Parent() != nil {
				continue
			}
			for _, re := range pats {
				if re.MatchString(n) {
					fns = append(fns, f)
					break
				}
			}
			continue
		}
		fname := c.Fset.Position(f.Pos()).Filename
		for _, suf := range files {
			if strings.HasSuffix(fname, "pkg/http2/"+suf) {
				fns = append(fns, f)
			}
		}
	}
	siblingCompare(r, rule, "pkg/zz_ref_http2", fns, forkSkips, "vendored HTTP/2 function", minSiblings[r.Prop])
}

// forkTablesRule compares the package-level initialisers (lookup tables, constants) of the fork with upstream.
func forkTablesRule(r *R, rule string) {
	c := r.C
	mine := packageVarInits(c, modPath+"/pkg/http2")
	ref := packageVarInits(c, modPath+"/pkg/zz_ref_http2")
	o := r.Ob(rule, "package-tables-agree-with-upstream")
	if len(ref) == 0 {
		r.note("%s: upstream reference not available; table comparison skipped", rule)
		o.OK("reference not present; comparison skipped")
		return
	}
	n := 0
	var names []string
	for k := range mine {
		names = append(names, k)
	}
	sort.Strings(names)
	for _, k := range names {
		n++
		if rv, ok := ref[k]; !ok {
			if pkgConstNames[modPath+"/pkg/http2."+k] {
				continue // a named constant of the fork's own: its value shows wherever it is used
			}
			o.Fail("package-level %s exists only in the fork", k)
		} else if rv != mine[k] {
			o.Fail("package-level %s = %.120s differs from upstream %.120s", k, mine[k], rv)
		}
	}
	for k := range ref {
		if _, ok := mine[k]; !ok {
			o.Fail("upstream package-level %s is missing in the fork", k)
		}
	}
	o.Must(n >= 60, "only %d package-level initialisers found", n).OK("%d package-level initialisers compared", n)
}

// debugTextOnly: functions of the fork whose only product is a string for logs, error details and %v — String methods
// of the frame and setting types and the frame summariser. Whether they use Sprintf, a Builder or concatenation is not
// a protocol matter (the values that go on the wire never pass through them).
func debugTextOnly(name string) bool {
	switch name {
	case "http2.summarizeFrame", "(http2.FrameHeader).writeDebug", "(http2.FrameHeader).String", "(http2.FrameType).String",
		"(http2.Setting).String", "(http2.SettingID).String", "(http2.ErrCode).String", "(http2.streamState).String",
		"(*http2.writeData).String", "(http2.FrameWriteRequest).String", "(http2.Flags).String":
		return true
	}
	return false
}
