package main

// Structural validation of the standard-library summaries (DESIGN.md section 2) against the GOROOT source that the
// build actually uses. Runs in the deep configurations of the thorough tier, where the bodies of net/http,
// net/http/httputil and net/textproto are built to SSA. In other configurations the rules add nothing (the summaries
// stay listed as assumptions in the evidence).

import (
	"go/types"
	"strings"

	"golang.org/x/tools/go/ssa"
)

var stdSummaryPkgs = []string{"net/http", "net/http/httputil", "net/textproto"}

func init() {
	add := func(prop string, rs ...ruleDef) {
		if p := registry[prop]; p != nil {
			p.Rules = append(p.Rules, rs...)
		}
	}
	s1 := ruleDef{"STD.S1", onStd(stdS1)}
	s2 := ruleDef{"STD.S2", onStd(stdS2)}
	s3 := ruleDef{"STD.S3", onStd(stdS3)}
	s4 := ruleDef{"STD.S4", onStd(stdS4)}
	add("C05", s3, s4)
	add("C09", s1, s3, s4)
	add("C10", s2)
	add("C06", s2)
	add("C08", s3)
}

// stdFn resolves a function/method of a dependency package; nil when bodies are not built in this configuration.
func stdFn(c *Ctx, pkg, typ, name string) *ssa.Function {
	var f *ssa.Function
	if typ == "" {
		f = c.Func(pkg, name)
	} else {
		f = c.Method(pkg, typ, name)
	}
	if f == nil || f.Blocks == nil {
		return nil
	}
	return f
}

func stdAvailable(r *R) bool {
	c := r.C
	return stdFn(c, "net/http", "conn", "serve") != nil && stdFn(c, "net/http/httputil", "ReverseProxy", "ServeHTTP") != nil
}

// The standard-library bodies are built in a program of their own (same GOOS/GOARCH/tags), so that the call graph and
// reachability computations of the property rules keep treating dependencies as opaque.
var stdCtxCache = map[string]*Ctx{}

func onStd(f func(r *R)) func(r *R) {
	return func(r *R) {
		if curTier != "thorough" || !r.C.Cfg.Deep {
			return
		}
		k := r.C.Cfg.Name
		sc, ok := stdCtxCache[k]
		if !ok {
			cfg := r.C.Cfg
			cfg.Overlay, cfg.Refs = nil, nil
			cfg.Deep, cfg.BuildExtra = true, stdSummaryPkgs
			var err error
			sc, err = Load(cfg)
			if err != nil {
				stdCtxCache[k] = nil
				r.Ob("STD", "load:"+k).Undecided("cannot load the standard-library bodies: %v", err)
				return
			}
			stdCtxCache[k] = sc
		}
		if sc == nil {
			return
		}
		r2 := &R{C: sc, Prop: r.Prop}
		r2.curRule = r.curRule
		f(r2)
		r.Obs = append(r.Obs, r2.Obs...)
		r.Notes = append(r.Notes, r2.Notes...)
		for a := range r2.Assume {
			r.assume(a)
		}
	}
}

// depFuncs: all functions with bodies of one dependency package.
func (c *Ctx) depFuncs(path string) []*ssa.Function {
	p := c.Pkg(path)
	if p == nil {
		return nil
	}
	var out []*ssa.Function
	seen := map[*ssa.Function]bool{}
	var addF func(f *ssa.Function)
	addF = func(f *ssa.Function) {
		if f == nil || seen[f] || f.Blocks == nil {
			return
		}
		seen[f] = true
		out = append(out, f)
		for _, a := range f.AnonFuncs {
			addF(a)
		}
	}
	for _, m := range p.Members {
		switch x := m.(type) {
		case *ssa.Function:
			addF(x)
		case *ssa.Type:
			nt := x.Type()
			for _, t := range []types.Type{nt, types.NewPointer(nt)} {
				ms := c.Prog.MethodSets.MethodSet(t)
				for i := 0; i < ms.Len(); i++ {
					addF(c.Prog.MethodValue(ms.At(i)))
				}
			}
		}
	}
	return out
}

// S1: net/http fills Request.TLS from conn.tlsState, which is set only when the accepted net.Conn is a *tls.Conn.
func stdS1(r *R) {
	if !stdAvailable(r) {
		return
	}
	c := r.C
	serve := stdFn(c, "net/http", "conn", "serve")
	o := r.Ob("STD.S1", "request-tls-only-for-*tls.Conn:net/http").At(serve.Pos())
	connT := c.Named("net/http", "conn")
	reqT := c.Named("net/http", "Request")
	r.need(connT != nil && reqT != nil, "net/http types not loaded")
	fns := c.depFuncs("net/http")
	n := 0
	for _, a := range fieldAccesses(fns, connT, "tlsState") {
		if a.Kind != "write" {
			continue
		}
		n++
		gs := c.guardStrs(a.Instr.Block())
		o.AtI(a.Instr).Check(a.Fn == serve && hasGuard(gs, "+assert[*tls.Conn](p0.rwc)#1"), "conn.tlsState is written in %s under %v, want only under a successful c.rwc.(*tls.Conn) in conn.serve", funcName(a.Fn), gs)
	}
	o.Check(n >= 1, "no writer of conn.tlsState found")
	m := 0
	for _, a := range fieldAccesses(fns, reqT, "TLS") {
		if a.Kind != "write" || strings.Contains(c.Pos(a.Fn.Pos()), "h2_bundle.go") {
			continue
		}
		if funcName(a.Fn) == "(net/http.initALPNRequest).ServeHTTP" {
			// TLSNextProto path: the state is taken from initALPNRequest.c, whose static type is *tls.Conn
			if f := fieldOfNamed(c.Named("net/http", "initALPNRequest"), "c"); f != nil {
				o.AtI(a.Instr).Check(typeName(f.Type()) == "*tls.Conn", "initALPNRequest.c has type %s", typeName(f.Type()))
			}
			continue
		}
		m++
		e := c.Expr(a.Instr.(*ssa.Store).Val)
		o.AtI(a.Instr).Check(e == "p0.tlsState" && funcName(a.Fn) == "(*net/http.conn).readRequest", "Request.TLS is set to %s in %s, want c.tlsState in conn.readRequest", e, funcName(a.Fn))
	}
	o.Check(m >= 1, "no HTTP/1 writer of Request.TLS found")
}

// S2: handler panics are recovered per connection; ConnState(StateNew) and ConnContext run on Serve's goroutine.
func stdS2(r *R) {
	if !stdAvailable(r) {
		return
	}
	c := r.C
	serve := stdFn(c, "net/http", "conn", "serve")
	o := r.Ob("STD.S2", "handler-recovered:"+funcName(serve)).At(serve.Pos())
	ps := protectionsOf(c, serve)
	found := false
	eachInstr(serve, func(i ssa.Instruction) {
		if isCall(i, "(net/http.serverHandler).ServeHTTP") {
			found = true
			o.AtI(i).Check(siteProtected(ps, i), "the handler call in conn.serve is not covered by a deferred recover")
		}
	})
	o.Check(found, "handler call in conn.serve not found")
	S := stdFn(c, "net/http", "Server", "Serve")
	r.need(S != nil, "http.Server.Serve not built")
	o2 := r.Ob("STD.S2", "hooks-on-serve-goroutine:"+funcName(S)).At(S.Pos())
	var goServe, setNew ssa.Instruction
	nCtx := 0
	stateNew := "?"
	if k := c.Pkg("net/http").Const("StateNew"); k != nil {
		stateNew = k.Value.Value.ExactString()
	}
	eachInstr(S, func(i ssa.Instruction) {
		if g, ok := i.(*ssa.Go); ok && calleeName(&g.Call) == "(*net/http.conn).serve" {
			goServe = i
		}
		if cc, ok := i.(*ssa.Call); ok {
			if calleeName(&cc.Call) == "(*net/http.conn).setState" && c.Expr(cc.Call.Args[2]) == stateNew {
				setNew = i
			}
			if calleeName(&cc.Call) == "" && c.Expr(cc.Call.Value) == "p0.ConnContext" {
				nCtx++
				o2.AtI(i).Check(inLoop(i.Block()), "ConnContext is called outside the accept loop")
			}
		}
	})
	if o2.Check(goServe != nil && setNew != nil, "Serve: `go c.serve` or setState(StateNew) not found") {
		o2.AtI(setNew, goServe).Check(instrDominates(setNew, goServe), "setState(StateNew) does not precede `go c.serve`: the hook would not run on Serve's goroutine")
	}
	o2.Check(nCtx == 1, "ConnContext is called %d times per accepted connection, want once", nCtx)
	st := stdFn(c, "net/http", "conn", "setState")
	if o2.Check(st != nil, "conn.setState not built") {
		hook := false
		eachInstr(st, func(i ssa.Instruction) {
			if cc, ok := i.(*ssa.Call); ok && calleeName(&cc.Call) == "" && c.Expr(cc.Call.Value) == "p0.server.ConnState" {
				hook = true
			}
			if _, ok := i.(*ssa.Go); ok {
				o2.AtI(i).Fail("setState starts a goroutine")
			}
		})
		o2.Check(hook, "setState does not call Server.ConnState synchronously")
	}
}

// S3: Rewrite-mode order in ReverseProxy.ServeHTTP and the SetXForwarded contract.
func stdS3(r *R) {
	if !stdAvailable(r) {
		return
	}
	c := r.C
	sh := stdFn(c, "net/http/httputil", "ReverseProxy", "ServeHTTP")
	o := r.Ob("STD.S3", "rewrite-mode-order:"+funcName(sh)).At(sh.Pos())
	var rew, hop ssa.Instruction
	dels := map[string]ssa.Instruction{}
	eachInstr(sh, func(i ssa.Instruction) {
		cc, ok := i.(*ssa.Call)
		if !ok {
			return
		}
		switch {
		case calleeName(&cc.Call) == "" && c.Expr(cc.Call.Value) == "p0.Rewrite":
			rew = i
		case calleeName(&cc.Call) == "net/http/httputil.removeHopByHopHeaders" && hop == nil:
			hop = i
		case calleeName(&cc.Call) == nHeaderDel:
			if k, ok := constString(cc.Call.Args[1]); ok && strings.HasSuffix(c.Expr(cc.Call.Args[0]), ".Header") && strings.Contains(c.Expr(cc.Call.Args[0]), "Clone(") {
				dels[k] = i
			}
		}
	})
	if o.Check(rew != nil && hop != nil, "Rewrite call or removeHopByHopHeaders not found in ReverseProxy.ServeHTTP") {
		o.AtI(hop, rew).Check(instrDominates(hop, rew), "hop-by-hop headers are not removed before Rewrite runs")
		o.Check(strings.Contains(c.Expr(callOf(hop).Args[0]), "Clone("), "hop-by-hop removal works on %s, want the cloned outbound header", c.Expr(callOf(hop).Args[0]))
		for _, k := range []string{"Forwarded", "X-Forwarded-For", "X-Forwarded-Host", "X-Forwarded-Proto"} {
			d := dels[k]
			if o.Check(d != nil, "outbound %s is not deleted in Rewrite mode", k) {
				o.AtI(d).Check(instrDominates(d, rew) && hasGuard(c.guardStrs(d.Block()), "+(nil != p0.Rewrite)"), "outbound %s is not deleted before Rewrite on the Rewrite edge", k)
			}
		}
	}
	sx := stdFn(c, "net/http/httputil", "ProxyRequest", "SetXForwarded")
	r.need(sx != nil, "SetXForwarded not built")
	o2 := r.Ob("STD.S3", "SetXForwarded:"+funcName(sx)).At(sx.Pos())
	seen := map[string]bool{}
	eachInstr(sx, func(i ssa.Instruction) {
		if !isCall(i, nHeaderSet) {
			return
		}
		a := callOf(i).Args
		k, _ := constString(a[1])
		gs := c.guardStrs(i.Block())
		v := c.Expr(a[2])
		o2.AtI(i).Check(c.Expr(a[0]) == "p0.Out.Header", "SetXForwarded writes %s", c.Expr(a[0]))
		switch k {
		case "X-Forwarded-Host":
			seen[k] = o2.Check(v == "p0.In.Host" && len(gs) == 0, "X-Forwarded-Host = %s under %v", v, gs)
		case "X-Forwarded-Proto":
			if v == `"http"` {
				seen["http"] = o2.Check(hasGuard(gs, "+(nil == p0.In.TLS)"), "proto http under %v", gs)
			} else {
				seen["https"] = o2.Check(v == `"https"` && hasGuard(gs, "-(nil == p0.In.TLS)"), "proto %s under %v", v, gs)
			}
		case "X-Forwarded-For":
			ip := "net.SplitHostPort(p0.In.RemoteAddr)#0"
			prior := `((strings.Join(p0.Out.Header["X-Forwarded-For"], ", ") + ", ") + ` + ip + ")"
			seen[k] = o2.Check(strings.Contains(v, prior) && strings.HasPrefix(v, "phi(") && strings.Contains(v, "|"+ip) || strings.Contains(v, ip+"|"), "X-Forwarded-For = %s, want prior list + \", \" + peer IP (or the peer IP alone)", v)
		default:
			o2.Fail("SetXForwarded sets %q", k)
		}
	})
	o2.Check(seen["X-Forwarded-Host"] && seen["http"] && seen["https"] && seen["X-Forwarded-For"], "SetXForwarded does not set all of For/Host/Proto: %v", seen)
}

// S4: Header.Set/Del address the canonical key; Set replaces all values.
func stdS4(r *R) {
	if !stdAvailable(r) {
		return
	}
	c := r.C
	o := r.Ob("STD.S4", "header-set-del-canonicalise")
	hs, hd := stdFn(c, "net/http", "Header", "Set"), stdFn(c, "net/http", "Header", "Del")
	ms, md := stdFn(c, "net/textproto", "MIMEHeader", "Set"), stdFn(c, "net/textproto", "MIMEHeader", "Del")
	if !o.Check(hs != nil && hd != nil && ms != nil && md != nil, "Header/MIMEHeader Set/Del not built") {
		return
	}
	o.At(hs.Pos(), ms.Pos())
	o.Check(len(callsIn(hs, "(net/textproto.MIMEHeader).Set")) == 1 && len(hs.Blocks) == 1, "http.Header.Set does not simply delegate to MIMEHeader.Set")
	o.Check(len(callsIn(hd, "(net/textproto.MIMEHeader).Del")) == 1 && len(hd.Blocks) == 1, "http.Header.Del does not simply delegate to MIMEHeader.Del")
	n := 0
	eachInstr(ms, func(i ssa.Instruction) {
		if mu, ok := i.(*ssa.MapUpdate); ok {
			n++
			o.AtI(i).Check(c.Expr(mu.Map) == "p0" && c.Expr(mu.Key) == "net/textproto.CanonicalMIMEHeaderKey(p1)" && c.Expr(mu.Value) == "&slicelit[:]", "MIMEHeader.Set stores %s[%s] = %s", c.Expr(mu.Map), c.Expr(mu.Key), c.Expr(mu.Value))
		}
	})
	o.Check(n == 1 && len(ms.Blocks) == 1, "MIMEHeader.Set is not a single map store")
	d := 0
	eachInstr(md, func(i ssa.Instruction) {
		if cc := callOf(i); cc != nil {
			if b, ok := cc.Value.(*ssa.Builtin); ok && b.Name() == "delete" {
				d++
				o.AtI(i).Check(c.Expr(cc.Args[0]) == "p0" && c.Expr(cc.Args[1]) == "net/textproto.CanonicalMIMEHeaderKey(p1)", "MIMEHeader.Del deletes %s[%s]", c.Expr(cc.Args[0]), c.Expr(cc.Args[1]))
			}
		}
	})
	o.Check(d == 1 && len(md.Blocks) == 1, "MIMEHeader.Del is not a single delete")
}

func fieldOfNamed(n *types.Named, name string) *types.Var {
	if n == nil {
		return nil
	}
	st, ok := n.Underlying().(*types.Struct)
	if !ok {
		return nil
	}
	for i := 0; i < st.NumFields(); i++ {
		if st.Field(i).Name() == name {
			return st.Field(i)
		}
	}
	return nil
}
