package main

import (
	"go/token"
	"strings"

	"golang.org/x/tools/go/ssa"
)

const (
	nGetHeaderName  = "(reverseproxy.HeaderInjector).GetHeaderName"
	nGetHeaderValue = "(reverseproxy.HeaderInjector).GetHeaderValue"
	nHeaderSet      = "(net/http.Header).Set"
	nHeaderDel      = "(net/http.Header).Del"
	nHeaderAdd      = "(net/http.Header).Add"
)

// appPkgs: the proxy's own packages (everything of the product except the forked http2 library).
var appPkgs = []string{"", "cmd", "pkg/certwatcher", "pkg/debug", "pkg/fingerprint", "pkg/hack", "pkg/ja3", "pkg/ja4", "pkg/metadata", "pkg/proxyserver", "pkg/reverseproxy"}

func init() {
	register("C05", false,
		ruleDef{"C05.R1", c05r1},
		ruleDef{"C05.R2", c05r2},
		ruleDef{"C05.R3", c05r3},
		ruleDef{"C05.R4", c05r4},
		ruleDef{"C05.R5", c05r5},
	)
}

// isOutHeader: value renders as <something>.Out.Header of a ProxyRequest.
func isOutHeader(c *Ctx, v ssa.Value) bool {
	return strings.HasSuffix(c.Expr(v), ".Out.Header")
}

// R1: set-or-delete on every path from each GetHeaderName call site.
func c05r1(r *R) {
	c := r.C
	n := 0
	for _, fn := range c.FuncsIn(appPkgs...) {
		for _, site := range callsIn(fn, nGetHeaderName) {
			call, ok := site.(*ssa.Call)
			if !ok {
				continue
			}
			// only sites in functions that handle a ProxyRequest or are on the forward path
			if !funcTouchesOutbound(c, fn) {
				continue
			}
			n++
			o := r.Ob("C05.R1", "set-or-del:"+funcName(fn)).AtI(site)
			via := func(i ssa.Instruction) bool {
				if !isCall(i, nHeaderSet, nHeaderDel) {
					return false
				}
				a := callOf(i).Args
				return len(a) >= 2 && isOutHeader(c, a[0]) && a[1] == ssa.Value(call)
			}
			bad := func(i ssa.Instruction) bool { return isReturn(i) || i == site }
			if p := c.escapePath(fn, site, via, bad); p != nil {
				o.Fail("a path from GetHeaderName() to the next iteration/return neither sets nor deletes the outbound header of that name, so a client-supplied value survives: %s", strings.Join(p, " "))
			} else {
				o.OK("every path from the name lookup passes Out.Header.Set/Del(name)")
			}
			// the computed value is set whenever there is one: the Set of this name is conditional on nothing but the
			// injector having succeeded and (optionally) the value being non-empty
			o3 := r.Ob("C05.R1", "set-when-computed:"+funcName(fn)).AtI(site)
			nset := 0
			eachInstr(fn, func(i ssa.Instruction) {
				if !isCall(i, nHeaderSet) {
					return
				}
				a := callOf(i).Args
				if len(a) < 3 || !isOutHeader(c, a[0]) || a[1] != ssa.Value(call) {
					return
				}
				nset++
				val := c.Expr(a[2])
				errE := strings.TrimSuffix(val, "#0") + "#1"
				for _, alt := range c.pathAlts(i.Block()) {
					sawOK := false
					for _, l := range alt {
						one := []string{l}
						switch {
						case strings.Contains(l, " < builtin.len(p") && strings.Contains(l, ".HeaderInjectors))"):
						case strings.HasSuffix(val, "#0") && relHolds(one, errE, "==", "nil"):
							sawOK = true
						case relHolds(one, val, "!=", `""`) || relHolds(one, "builtin.len("+val+")", "!=", "0") || relHolds(one, "builtin.len("+val+")", ">", "0"):
						default:
							o3.AtI(i).Fail("the header is set only under the extra condition %s (conditions %v): requests for which it fails go out without the fingerprint header", l, alt)
						}
					}
					if strings.HasSuffix(val, "#0") {
						o3.AtI(i).Check(sawOK, "the header is set without the injector's error having been checked (conditions %v)", alt)
					}
				}
			})
			o3.Check(nset >= 1, "no Out.Header.Set(name, value) for the injector's name found")
			// every configured injector is visited: the site sits in a range loop over the handler's injector list that
			// is left only when the list is exhausted (no return, break or panic inside the loop)
			o2 := r.Ob("C05.R1", "all-injectors-visited:"+funcName(fn)).AtI(site)
			loopG := ""
			for _, g := range c.guardStrs(site.Block()) {
				if strings.HasPrefix(g, "+((1 + phi((1 + phi@)|-1)) < builtin.len(p") && strings.HasSuffix(g, ".HeaderInjectors))") {
					loopG = g
				}
			}
			if o2.Check(loopG != "", "the name lookup is not inside `for range <handler>.HeaderInjectors`; guards %v", c.guardStrs(site.Block())) {
				eachInstr(fn, func(i ssa.Instruction) {
					_, isPanic := i.(*ssa.Panic)
					if !isReturn(i) && !isPanic {
						return
					}
					if fn.Recover != nil && i.Block() == fn.Recover {
						return
					}
					o2.AtI(i).Check(hasGuard(c.guardStrs(i.Block()), "-"+loopG[1:]), "%s leaves the injector loop before the list is exhausted (guards %v): injectors after this point are neither set nor stripped for this request", shortInstr(i), c.guardStrs(i.Block()))
				})
			}
		}
	}
	r.Ob("C05.R1", "instances").Check(n >= 1, "no GetHeaderName call site on the forward path found (expected >= 1)")
}

func funcTouchesOutbound(c *Ctx, fn *ssa.Function) bool {
	for _, p := range fn.Params {
		if strings.Contains(typeName(p.Type()), "httputil.ProxyRequest") {
			return true
		}
	}
	return false
}

// R2: the only writes to an outbound header map in the proxy's own packages are Set/Del and constant-key raw stores.
func c05r2(r *R) {
	c := r.C
	n := 0
	for _, fn := range c.FuncsIn(appPkgs...) {
		eachInstr(fn, func(i ssa.Instruction) {
			if mu, ok := i.(*ssa.MapUpdate); ok && typeName(mu.Map.Type()) == "http.Header" && isOutHeader(c, mu.Map) {
				n++
				o := r.Ob("C05.R2", "raw-store:"+funcName(fn)+":"+c.Expr(mu.Key)).AtI(i)
				k, isConst := constString(mu.Key)
				if !isConst {
					o.Fail("raw map store into the outbound header with a non-constant key (bypasses canonicalisation and replacement)")
				} else if k != canonicalMIME(k) {
					o.Fail("raw map store with non-canonical constant key %q", k)
				} else {
					o.OK("constant canonical key %q", k)
				}
			}
			if isCall(i, nHeaderAdd) {
				a := callOf(i).Args
				if len(a) > 0 && isOutHeader(c, a[0]) {
					n++
					r.Ob("C05.R2", "add:"+funcName(fn)).AtI(i).Fail("Header.Add on the outbound header appends to client-supplied values instead of replacing them")
				}
			}
			if isCall(i, nHeaderSet, nHeaderDel) {
				a := callOf(i).Args
				if len(a) > 0 && isOutHeader(c, a[0]) {
					n++
					r.Ob("C05.R2", "set/del:"+funcName(fn)).AtI(i).OK("canonicalising replace/delete")
				}
			}
		})
	}
	r.Ob("C05.R2", "instances").Check(n >= 2, "expected >= 2 outbound header writes, found %d", n)
}

func canonicalMIME(s string) string {
	b := []byte(s)
	up := true
	for i, ch := range b {
		if up && 'a' <= ch && ch <= 'z' {
			b[i] = ch - 32
		} else if !up && 'A' <= ch && ch <= 'Z' {
			b[i] = ch + 32
		}
		up = ch == '-'
	}
	return string(b)
}

// R3: provenance of the injected value.
func c05r3(r *R) { injectedValueProvenance(r, "C05.R3") }

// injectedValueProvenance: the value set on the outbound request is what the injector computes for
// this request, and the stock injector computes it afresh from this request's connection record
// (no value remembered from an earlier request or another connection).
func injectedValueProvenance(r *R, rule string) {
	c := r.C
	n := 0
	for _, fn := range c.FuncsIn(appPkgs...) {
		if !funcTouchesOutbound(c, fn) {
			continue
		}
		for _, site := range callsIn(fn, nHeaderSet) {
			a := callOf(site).Args
			if len(a) < 3 || !isOutHeader(c, a[0]) {
				continue
			}
			n++
			o := r.Ob(rule, "set-value:"+funcName(fn)).AtI(site)
			nameE, valE := c.Expr(a[1]), c.Expr(a[2])
			if !strings.HasPrefix(nameE, nGetHeaderName+"(") {
				o.Fail("header name passed to Set is not the result of GetHeaderName(): %s", nameE)
				continue
			}
			inj := strings.TrimSuffix(strings.TrimPrefix(nameE, nGetHeaderName+"("), ")")
			want := nGetHeaderValue + "(" + inj + ", p1.In)#0"
			if !o.Check(strings.HasSuffix(valE, "#0") && strings.HasPrefix(valE, nGetHeaderValue+"("+inj+", ") && strings.HasSuffix(strings.TrimSuffix(valE, ")#0"), ".In"),
				"value passed to Set is %s, want %s (same injector, inbound request)", valE, want) {
				continue
			}
			gs := c.guardStrs(site.Block())
			errG := "-(" + strings.TrimSuffix(valE, "#0") + "#1 != nil)"
			o.Check(hasGuard(gs, errG), "Set is not guarded by the injector's err == nil edge; guards: %v", gs)
			o.OK("value = GetHeaderValue(same injector, In)#0 under err == nil")
		}
	}
	r.Ob(rule, "instances").Check(n >= 1, "no Out.Header.Set site found")

	// FingerprintHeaderInjector.GetHeaderValue returns the FingerprintFunc's result on this request's metadata
	gv := c.Method("pkg/fingerprint", "FingerprintHeaderInjector", "GetHeaderValue")
	r.need(gv != nil, "fingerprint.FingerprintHeaderInjector.GetHeaderValue not found")
	o := r.Ob(rule, "injector-value:"+funcName(gv)).At(gv.Pos())
	nret := 0
	eachInstr(gv, func(i ssa.Instruction) {
		ret, ok := i.(*ssa.Return)
		if !ok {
			return
		}
		nret++
		e0 := c.Expr(ret.Results[0])
		if e0 == `""` {
			// must be an error return
			o.Check(c.Expr(ret.Results[1]) != "nil", "returns empty value with nil error on a path")
			return
		}
		o.AtI(ret)
		o.Check(strings.HasPrefix(e0, "dyn:p0.FingerprintFunc(") && strings.Contains(e0, "metadata.FromContext((*net/http.Request).Context(p1))#0") && strings.HasSuffix(e0, "#0"),
			"returned value is %s, want FingerprintFunc(FromContext(req.Context()))#0", e0)
	})
	o.Check(nret >= 2, "expected >= 2 returns, got %d", nret)
	o.OK("returns FingerprintFunc(metadata of this request's context)")
}

// R4: Rewrite mode.
func c05r4(r *R) {
	c := r.C
	rp := c.Named("net/http/httputil", "ReverseProxy")
	r.need(rp != nil, "httputil.ReverseProxy type not loaded")
	nRewrite := 0
	for _, f := range []string{"Rewrite", "Director", "ModifyResponse"} {
		acc := fieldAccesses(c.FuncsIn(appPkgs...), rp, f)
		for _, a := range acc {
			if a.Kind != "write" {
				continue
			}
			o := r.Ob("C05.R4", "assign:"+f+":"+funcName(a.Fn)).AtI(a.Instr)
			if f == "Rewrite" {
				nRewrite++
				st := a.Instr.(*ssa.Store)
				e := c.Expr(st.Val)
				o.Check(strings.HasPrefix(e, "closure:") || strings.HasPrefix(e, "func:"), "Rewrite assigned from %s", e)
				// the assigned function must contain the set-or-delete loop (a GetHeaderName site)
				tf := closureTarget(st.Val)
				if o.Check(tf != nil, "cannot resolve the function assigned to Rewrite") {
					found := false
					for _, g := range resolveBound(tf) {
						if g.Blocks != nil && mustPassLoopOver(c, g, "HeaderInjectors", 3) {
							found = true
						}
					}
					o.Check(found, "function assigned to Rewrite (%s) has no header-injection loop", funcName(tf))
				}
			} else {
				o.Fail("ReverseProxy.%s is assigned: with Director the proxy does not strip forwarding headers / with ModifyResponse responses are altered", f)
			}
		}
	}
	r.Ob("C05.R4", "instances").Check(nRewrite >= 1, "ReverseProxy.Rewrite is never assigned in product code")
	// composite literal fields: Director/ModifyResponse set through &httputil.ReverseProxy{...} are FieldAddr stores on the new alloc and are covered above.
}

func closureTarget(v ssa.Value) *ssa.Function {
	switch x := v.(type) {
	case *ssa.MakeClosure:
		f, _ := x.Fn.(*ssa.Function)
		return f
	case *ssa.Function:
		return x
	case *ssa.ChangeType:
		return closureTarget(x.X)
	case *ssa.Call:
		// a constructor of the module that returns one function literal on every path
		g := staticCallee(&x.Call)
		if g == nil || g.Blocks == nil || g.Pkg == nil || !strings.HasPrefix(g.Pkg.Pkg.Path(), modPath) || g.Signature.Results().Len() != 1 {
			return nil
		}
		var f *ssa.Function
		ok := true
		eachInstr(g, func(i ssa.Instruction) {
			if ret, isRet := i.(*ssa.Return); isRet {
				mc, isMC := retValue(ret, 0).(*ssa.MakeClosure)
				if !isMC {
					ok = false
					return
				}
				h, _ := mc.Fn.(*ssa.Function)
				if h == nil || (f != nil && f != h) {
					ok = false
				}
				f = h
			}
		})
		if ok {
			return f
		}
	}
	return nil
}

// resolveBound: for a bound-method wrapper, or a function literal that does nothing but forward its parameters to one
// function of the module (`func(pr) { h.rewrite(pr) }`), returns the wrapped function too.
func resolveBound(f *ssa.Function) []*ssa.Function {
	out := []*ssa.Function{f}
	if f.Synthetic != "" {
		eachInstr(f, func(i ssa.Instruction) {
			if cc := callOf(i); cc != nil {
				if g := staticCallee(cc); g != nil {
					out = append(out, g)
				}
			}
		})
		return out
	}
	if g := forwardTarget(f); g != nil {
		out = append(out, resolveBound(g)...)
	}
	return out
}

// forwardTarget: f's body is a single block that loads captured/parameter values, makes exactly one static call to a
// module function passing f's own parameters in order as the trailing arguments, and returns that call's results.
func forwardTarget(f *ssa.Function) *ssa.Function {
	if f == nil || len(f.Blocks) != 1 {
		return nil
	}
	var call *ssa.Call
	for _, i := range f.Blocks[0].Instrs {
		switch x := i.(type) {
		case *ssa.Call:
			if call != nil {
				return nil
			}
			call = x
		case *ssa.UnOp, *ssa.FieldAddr, *ssa.Field, *ssa.Extract, *ssa.Return, *ssa.DebugRef, *ssa.ChangeType, *ssa.MakeInterface:
		default:
			return nil
		}
	}
	if call == nil {
		return nil
	}
	g := staticCallee(&call.Call)
	if g == nil || g.Blocks == nil || g.Pkg == nil || !strings.HasPrefix(g.Pkg.Pkg.Path(), modPath) {
		return nil
	}
	args := call.Call.Args
	np := len(f.Params)
	if len(args) < np {
		return nil
	}
	for k := 0; k < np; k++ {
		if args[len(args)-np+k] != ssa.Value(f.Params[k]) {
			return nil
		}
	}
	ret, ok := f.Blocks[0].Instrs[len(f.Blocks[0].Instrs)-1].(*ssa.Return)
	if !ok {
		return nil
	}
	for k, rv := range ret.Results {
		if len(ret.Results) == 1 {
			if rv != ssa.Value(call) {
				return nil
			}
		} else if ex, ok := rv.(*ssa.Extract); !ok || ex.Tuple != ssa.Value(call) || ex.Index != k {
			return nil
		}
	}
	return g
}

// R5: the handler forwards through the reverse proxy only (no second forwarding path that would skip Rewrite).
func c05r5(r *R) {
	c := r.C
	// every http.Header key that the fork adds to a request goes through canonicalHeader (so "x-ja3-fingerprint" and "X-JA3-FINGERPRINT" are the same key that Set/Del address)
	fn := c.Method("pkg/http2", "serverConn", "newWriterAndRequest")
	r.need(fn != nil, "http2.serverConn.newWriterAndRequest not found")
	o := r.Ob("C05.R5", "h2-header-keys-canonical:"+funcName(fn)).At(fn.Pos())
	n := 0
	eachInstr(fn, func(i ssa.Instruction) {
		if isCall(i, nHeaderAdd, nHeaderSet) {
			a := callOf(i).Args
			e := c.Expr(a[1])
			n++
			o.AtI(i)
			o.Check(strings.HasPrefix(e, "(*http2.serverConn).canonicalHeader(") || strings.HasPrefix(e, `"`), "request header key %s is not canonicalised", e)
		}
		if mu, ok := i.(*ssa.MapUpdate); ok && typeName(mu.Map.Type()) == "http.Header" {
			e := c.Expr(mu.Key)
			n++
			o.AtI(i)
			o.Check(strings.HasPrefix(e, "(*http2.serverConn).canonicalHeader(") || (strings.HasPrefix(e, `"`) && e == `"`+canonicalMIME(strings.Trim(e, `"`))+`"`), "raw request header key %s is not canonical", e)
		}
	})
	o.Check(n >= 1, "no header insertions found in newWriterAndRequest")
	ch := c.Method("pkg/http2", "serverConn", "canonicalHeader")
	r.need(ch != nil, "canonicalHeader not found")
	o2 := r.Ob("C05.R5", "canonicalHeader-returns-canonical-on-every-path").At(ch.Pos())
	nret := 0
	eachInstr(ch, func(i ssa.Instruction) {
		switch x := i.(type) {
		case *ssa.Return:
			nret++
			e := c.Expr(x.Results[0])
			okr := e == "net/http.CanonicalHeaderKey(p1)" || e == "http2.commonCanonHeader[p1]#0" || e == "p0.canonHeader[p1]#0"
			o2.AtI(i).Check(okr, "canonicalHeader returns %s on some path: a header name that is not canonical (for example the lower-case wire name) would be stored under a key that Header.Set/Del never address, so a client's fingerprint header survives", e)
		case *ssa.MapUpdate:
			if strings.HasSuffix(c.Expr(x.Map), ".canonHeader") {
				o2.AtI(i).Check(c.Expr(x.Key) == "p1" && c.Expr(x.Value) == "net/http.CanonicalHeaderKey(p1)", "canonHeader cache is filled with %s -> %s", c.Expr(x.Key), c.Expr(x.Value))
			}
		}
	})
	o2.Check(nret >= 1, "canonicalHeader has no return")
	// the shared table maps lower-case names to their canonical form
	bm := c.Func("pkg/http2", "buildCommonHeaderMaps")
	if o2.Check(bm != nil, "buildCommonHeaderMaps not found") {
		eachInstr(bm, func(i ssa.Instruction) {
			if mu, ok := i.(*ssa.MapUpdate); ok && c.Expr(mu.Map) == "http2.commonCanonHeader" {
				o2.AtI(i).Check(strings.HasPrefix(c.Expr(mu.Value), "net/http.CanonicalHeaderKey("), "commonCanonHeader values are %s", c.Expr(mu.Value))
			}
		})
	}
	r.assume("S4: http.Header.Set/Del canonicalise the key; Set replaces all values")
	r.assume("S3: httputil.ReverseProxy with Rewrite clones the inbound header, strips hop-by-hop and Forwarded/X-Forwarded-*, then calls Rewrite")
}

// mustPassLoopOver: every entry→return path of fn evaluates `len(<x>.<field>)` (the entry of a range loop over that
// field) itself or through a same-module callee that does, to the given depth. A helper extracted from the hook
// still counts; a conditional call to it does not.
func mustPassLoopOver(c *Ctx, fn *ssa.Function, field string, depth int) bool {
	ev := func(i ssa.Instruction) int {
		// the slice is read from the field (once, before either form of loop over it)
		if u, ok := i.(*ssa.UnOp); ok && u.Op == token.MUL {
			if fa, ok := u.X.(*ssa.FieldAddr); ok && fieldName(fa.X.Type(), fa.Field) == field {
				return 1
			}
		}
		if depth > 0 {
			if cc := callOf(i); cc != nil {
				if _, isGo := i.(*ssa.Go); !isGo {
					if g := staticCallee(cc); g != nil && g.Blocks != nil && g.Pkg != nil && fn.Pkg != nil && g.Pkg == fn.Pkg {
						if mustPassLoopOver(c, g, field, depth-1) {
							return 1
						}
					}
				}
			}
		}
		return 0
	}
	res := countOnPaths(fn, ev)
	return res.Min >= 1
}
