package main

import (
	"go/ast"
	"go/constant"
	"go/token"
	"go/types"
	"strings"

	"golang.org/x/tools/go/packages"
)

// pkgOf returns the loaded package for a module-relative path.
func (c *Ctx) pkgOf(rel string) *packages.Package {
	path := rel
	if rel == "" {
		path = modPath
	} else if !strings.Contains(strings.Split(rel, "/")[0], ".") && !isStd(rel) {
		path = modPath + "/" + rel
	}
	return c.ByPath[path]
}

// varInit returns the initialiser expression of package-level variable name.
func (c *Ctx) varInit(rel, name string) (ast.Expr, *packages.Package) {
	p := c.pkgOf(rel)
	if p == nil {
		return nil, nil
	}
	name = c.nowName(rel, name)
	for _, f := range p.Syntax {
		for _, d := range f.Decls {
			gd, ok := d.(*ast.GenDecl)
			if !ok || gd.Tok != token.VAR {
				continue
			}
			for _, s := range gd.Specs {
				vs := s.(*ast.ValueSpec)
				for i, n := range vs.Names {
					if n.Name == name && i < len(vs.Values) {
						return vs.Values[i], p
					}
				}
			}
		}
	}
	return nil, p
}

// constOf returns the constant value of expression e, if it has one.
func constOf(p *packages.Package, e ast.Expr) constant.Value {
	if tv, ok := p.TypesInfo.Types[e]; ok && tv.Value != nil {
		return tv.Value
	}
	return nil
}

// mapLitConsts evaluates a map composite literal whose keys and values are constants.
func mapLitConsts(p *packages.Package, e ast.Expr) (map[string]string, bool) {
	cl, ok := e.(*ast.CompositeLit)
	if !ok {
		return nil, false
	}
	out := map[string]string{}
	for _, el := range cl.Elts {
		kv, ok := el.(*ast.KeyValueExpr)
		if !ok {
			return nil, false
		}
		k, v := constOf(p, kv.Key), constOf(p, kv.Value)
		if k == nil || v == nil {
			return nil, false
		}
		out[k.ExactString()] = v.ExactString()
	}
	return out, true
}

// funcDecl finds a function declaration (optionally with receiver type name).
func (c *Ctx) funcDecl(rel, recv, name string) (*ast.FuncDecl, *packages.Package) {
	p := c.pkgOf(rel)
	if p == nil {
		return nil, nil
	}
	if nn, ok := c.Renamed[relKey(rel)+"|"+recv+"."+name]; ok {
		name = nn
	}
	if recv != "" {
		recv = c.nowName(rel, recv)
	}
	for _, f := range p.Syntax {
		for _, d := range f.Decls {
			fd, ok := d.(*ast.FuncDecl)
			if !ok || fd.Name.Name != name {
				continue
			}
			if recv == "" && fd.Recv == nil {
				return fd, p
			}
			if recv != "" && fd.Recv != nil && len(fd.Recv.List) == 1 {
				t := fd.Recv.List[0].Type
				if st, ok := t.(*ast.StarExpr); ok {
					t = st.X
				}
				if id, ok := t.(*ast.Ident); ok && id.Name == recv {
					return fd, p
				}
			}
		}
	}
	return nil, p
}

var _ = types.Typ

// compositeElts returns the key/value expression pairs of a composite literal.
func compositeElts(e ast.Expr) [][2]ast.Expr {
	cl, ok := e.(*ast.CompositeLit)
	if !ok {
		return nil
	}
	var out [][2]ast.Expr
	for _, el := range cl.Elts {
		if kv, ok := el.(*ast.KeyValueExpr); ok {
			out = append(out, [2]ast.Expr{kv.Key, kv.Value})
		}
	}
	return out
}

func exprIdent(e ast.Expr) string {
	switch x := e.(type) {
	case *ast.Ident:
		return x.Name
	case *ast.SelectorExpr:
		return exprIdent(x.X) + "." + x.Sel.Name
	}
	return ""
}
