package main

import (
	"fmt"
	"sort"
	"strings"

	"golang.org/x/tools/go/ssa"
)

func init() {
	register("C19", false,
		ruleDef{"C19.R6", c19r6},
	)
}

// funcsInFile: module functions whose declaration lies in the given file (path suffix).
func (c *Ctx) funcsInFile(suffix string) []*ssa.Function {
	var out []*ssa.Function
	for _, f := range c.Funcs {
		if strings.HasSuffix(c.Fset.Position(f.Pos()).Filename, suffix) {
			out = append(out, f)
		}
	}
	return out
}

// reviewed bounds obligations that rest on an invariant established elsewhere (keyed by function + operation)
var reviewedBounds = map[string]string{
	"http2.curGoroutineID|*": "debug aid, only reachable with DEBUG_HTTP2_GOROUTINES=1",
	"http2.parseUintBytes|*": "debug aid, only reachable with DEBUG_HTTP2_GOROUTINES=1",
	"http2.splitHeaderBlock|phi(p1|phi@[builtin.len(phi(phi@|phi@[:16384])):])[builtin.len(phi(phi(p1|phi@[builtin.len(phi@):])|phi(p1|phi@[builtin.len(phi@):])[:16384])):]": "frag is headerBlock or headerBlock[:maxFrameSize] (under len > maxFrameSize), so len(frag) <= len(headerBlock); needs a length-of-phi argument the prover does not make",
	"http2.readFrameHeader|*": "both callers pass a frameHeaderLen (9) byte buffer: Framer.headerBuf[:] ([9]byte) and a fhBytes pool buffer (pool New: make([]byte, frameHeaderLen))",
	"(*http2.MetaHeadersFrame).PseudoValue|p0.Fields[(1 + phi((1 + phi@)|-1))].Name[1:]": "guarded by hf.IsPseudo() (x/net hpack: len(Name) != 0 && Name[0] == ':')",
	"(*http2.SettingsFrame).Setting|p0.p[(6 * p1):((6 * p1) + 2)]":                       "accessor contract: callers pass 0 <= i < NumSettings() = len(p)/6 (checked for the in-repo callers by C19.R7)",
	"(*http2.SettingsFrame).Setting|p0.p[((6 * p1) + 2):((6 * p1) + 6)]":                 "accessor contract: callers pass 0 <= i < NumSettings() = len(p)/6 (checked for the in-repo callers by C19.R7)",
}

func boundsRule(r *R, rule string, fns []*ssa.Function, minSites int) {
	c := r.C
	b := newBounder(c)
	n, proven := 0, 0
	sort.Slice(fns, func(i, j int) bool { return funcName(fns[i]) < funcName(fns[j]) })
	for _, fn := range fns {
		eachInstr(fn, func(i ssa.Instruction) {
			ob := b.obligationsOf(i)
			if ob == nil {
				return
			}
			n++
			ok, why := b.check(ob)
			key := funcName(fn) + "|" + ob.Desc
			o := r.Ob(rule, "bounds:"+key).AtI(i)
			if ok {
				proven++
				return
			}
			if rv, has := reviewedBounds[key]; has {
				o.OK("reviewed: %s", rv)
				return
			}
			if rv, has := reviewedBounds[funcName(fn)+"|*"]; has {
				o.OK("reviewed: %s", rv)
				return
			}
			o.Fail("%s in %s is not justified by the length checks that dominate it: %s. On input that violates it the operation panics; on the frame-reading goroutine no recover frame exists, so one malformed frame terminates the proxy", ob.Desc, funcName(fn), why)
		})
	}
	r.Ob(rule, "instances").Must(n >= minSites, "expected >= %d bounds obligations, found %d", minSites, n).OK("%d obligations, %d proven from dominating guards", n, proven)
	for a := range b.used {
		r.assume(a)
	}
}

func c19r6(r *R) {
	boundsRule(r, "C19.R6", r.C.funcsInFile("pkg/http2/frame.go"), 40)
}

// unprotectedFuncs: module functions executed on a goroutine of the proxy outside any recover frame.
func unprotectedFuncs(r *R) []*ssa.Function {
	c := r.C
	seen := map[*ssa.Function]bool{}
	var out []*ssa.Function
	for _, g := range append(goroutineRoots(c, proxyFuncs(c)), stdlibDrivenRoots(c)...) {
		unprotectedWalk(c, g.Fn, func(fn *ssa.Function, i ssa.Instruction, path func() string) {
			if !seen[fn] {
				seen[fn] = true
				out = append(out, fn)
			}
		})
	}
	return out
}

func init() {
	p := registry["C19"]
	p.Rules = append([]ruleDef{{"C19.R1", c19r1}, {"C19.R2", c19r2}, {"C19.R3", c19r3}, {"C19.R5", c19r5}}, p.Rules...)
}

var writerFrameType = map[string]string{
	"WriteData": "0", "WriteDataPadded": "0", "WriteHeaders": "1", "WritePriority": "2", "WriteRSTStream": "3", "WriteSettings": "4", "WriteSettingsAck": "4",
	"WritePushPromise": "5", "WritePing": "6", "WriteGoAway": "7", "WriteWindowUpdate": "8", "WriteContinuation": "9",
}

func c19r1(r *R) {
	c := r.C
	// reader side: shared with C13.R1
	tab := parserTable(r)
	o := r.Ob("C19.R1", "reader-table").At(c.Global("pkg/http2", "frameParsers").Pos())
	for k, want := range frameTypeOfParser {
		o.Check(tab[k] == want[0], "frame type %s is parsed by %q, want %s", k, tab[k], want[0])
		if fn := c.Func("pkg/http2", want[0]); o.Check(fn != nil, "%s missing", want[0]) {
			ts := successTypes(c, fn)
			o.Check(len(ts) == 1 && ts[0] == want[1], "%s yields %v, want %s", want[0], ts, want[1])
		}
	}
	o.Check(len(tab) == 10, "frameParsers has %d rows", len(tab))
	// writer side: every Write* starts its frame with the type constant the reader maps back to the like-named frame
	o2 := r.Ob("C19.R1", "writer-types")
	seen := map[string]bool{}
	for _, fn := range c.FuncsIn("pkg/http2") {
		if !strings.HasPrefix(funcName(fn), "(*http2.Framer).Write") && funcName(fn) != "(*http2.Framer).startWriteDataPadded" {
			continue
		}
		name := strings.TrimPrefix(funcName(fn), "(*http2.Framer).")
		if name == "startWriteDataPadded" {
			name = "WriteDataPadded"
		}
		for _, s := range callsIn(fn, "(*http2.Framer).startWrite") {
			want, known := writerFrameType[name]
			if name == "WriteRawFrame" {
				continue
			}
			seen[name] = true
			o2.AtI(s)
			if !o2.Check(known, "unknown writer %s", name) {
				continue
			}
			got := c.Expr(callOf(s).Args[1])
			o2.Check(got == want, "%s starts a frame of type %s, want %s (the reader would hand it to the wrong parser)", name, got, want)
		}
	}
	for n := range writerFrameType {
		if n == "WriteData" {
			continue // delegates to WriteDataPadded
		}
		o2.Check(seen[n], "writer %s has no startWrite call", n)
	}
	// startWrite / endWrite header layout
	sw := c.Method("pkg/http2", "Framer", "startWrite")
	ew := c.Method("pkg/http2", "Framer", "endWrite")
	r.need(sw != nil && ew != nil, "startWrite/endWrite not found")
	rows := append(returnRows(c, ew), returnRows(c, sw)...)
	rows = append(rows, fieldWriteRows(c, []*ssa.Function{sw, ew}, "pkg/http2", "Framer", []string{"wbuf"})...)
	checkTable(r, "C19.R1", "h2_frame_header_write", rows, "frame header write step")
}

func c19r2(r *R) {
	c := r.C
	rf := c.Method("pkg/http2", "Framer", "ReadFrame")
	r.need(rf != nil, "ReadFrame not found")
	o := r.Ob("C19.R2", "read-limit:"+funcName(rf)).At(rf.Pos())
	lim := "-(p0.maxReadSize < http2.readFrameHeader(p0.headerBuf[:], p0.r)#0.Length)"
	n := 0
	eachInstr(rf, func(i ssa.Instruction) {
		cc := callOf(i)
		if cc == nil {
			return
		}
		nm := calleeName(cc)
		if nm == "io.ReadFull" || (nm == "" && strings.HasSuffix(c.Expr(cc.Value), ".getReadBuf")) {
			n++
			gs := c.guardStrs(i.Block())
			o.AtI(i).Check(hasGuard(gs, lim), "the payload buffer is sized/read (%s) without the check Length <= maxReadSize; guards %v", shortInstr(i), gs)
		}
	})
	o.Check(n == 2, "expected getReadBuf and io.ReadFull in ReadFrame, found %d", n)
	eachInstr(rf, func(i ssa.Instruction) {
		if ret, ok := i.(*ssa.Return); ok && hasGuard(c.guardStrs(i.Block()), "+"+lim[1:]) {
			o.AtI(i).Check(retExpr(c, ret, 1) == "http2.ErrFrameTooLarge" && retExpr(c, ret, 0) == "nil", "an over-limit frame returns (%s, %s), want (nil, ErrFrameTooLarge)", retExpr(c, ret, 0), retExpr(c, ret, 1))
		}
	})
	// the buffer handed to the parser is exactly Length bytes: getReadBuf's decisions are part of the reviewed table below
	var gb []siteRow
	if nf := c.Func("pkg/http2", "NewFramer"); nf != nil {
		for _, fn := range nf.AnonFuncs {
			gb = append(gb, returnRows(c, fn)...)
			gb = append(gb, fieldWriteRows(c, []*ssa.Function{fn}, "pkg/http2", "Framer", []string{"readBuf"})...)
		}
	}
	o.Check(len(gb) >= 2, "getReadBuf closure not found")
	sm := c.Method("pkg/http2", "Framer", "SetMaxReadFrameSize")
	if o.Check(sm != nil, "SetMaxReadFrameSize not found") {
		checkTable(r, "C19.R2", "h2_set_max_read_size", append(append(fieldWriteRows(c, []*ssa.Function{sm}, "pkg/http2", "Framer", []string{"maxReadSize"}), returnRows(c, rf)...), gb...), "read-limit step")
	}
}

// parserErrRows: countError(label) sites of the frame parsers with the error returned on that edge.
func c19r3(r *R) {
	c := r.C
	var rows []siteRow
	count := map[string]int{}
	for _, fn := range c.funcsInFile("pkg/http2/frame.go") {
		eachInstr(fn, func(i ssa.Instruction) {
			call, ok := i.(*ssa.Call)
			if !ok || calleeName(&call.Call) != "" || len(call.Call.Args) != 1 {
				return
			}
			if !strings.HasSuffix(c.Expr(call.Call.Value), "p2") && !strings.Contains(c.Expr(call.Call.Value), "countError") {
				return
			}
			lbl, ok := constString(call.Call.Args[0])
			if !ok || !strings.HasPrefix(lbl, "frame_") {
				return
			}
			// the return reached from here
			var ret *ssa.Return
			for _, j := range i.Block().Instrs {
				if x, ok := j.(*ssa.Return); ok {
					ret = x
				}
			}
			if ret == nil && len(i.Block().Succs) == 1 {
				for _, j := range i.Block().Succs[0].Instrs {
					if x, ok := j.(*ssa.Return); ok {
						ret = x
					}
				}
			}
			count[lbl]++
			attrs := []string{"in " + funcName(fn)}
			if ret != nil {
				k, code := classifyErr(c, retValue(ret, len(ret.Results)-1))
				attrs = append(attrs, "returns "+k+" "+code)
			} else {
				attrs = append(attrs, "returns ?")
			}
			attrs = append(attrs, c.reachConds(i.Block())...)
			rows = append(rows, siteRow{fmt.Sprintf("%s#%d", lbl, count[lbl]), attrs, i})
		})
	}
	r.Ob("C19.R3", "instances").Check(len(rows) >= 26, "expected >= 26 labelled parser error sites, found %d", len(rows))
	checkTable(r, "C19.R3", "h2_frame_parser_errors", rows, "frame-parser error site")
	// HEADERS/CONTINUATION ordering and meta-frame assembly decisions
	var rows2 []siteRow
	for _, nm := range []string{"checkFrameOrder", "readMetaFrame"} {
		fn := c.Method("pkg/http2", "Framer", nm)
		r.need(fn != nil, "Framer.%s not found", nm)
		rows2 = append(rows2, returnRows(c, fn)...)
	}
	checkTable(r, "C19.R3", "h2_meta_frame_decisions", rows2, "header-block assembly decision")
}

func c19r5(r *R) {
	c := r.C
	var rows []siteRow
	for _, fn := range c.FuncsIn("pkg/http2") {
		if !(strings.HasPrefix(funcName(fn), "(*http2.Framer).Write") || funcName(fn) == "(*http2.Framer).startWriteDataPadded") || fn.Parent() != nil {
			continue
		}
		for _, row := range returnRows(c, fn) {
			if strings.Contains(row.Key, "returns (http2.err") || strings.Contains(row.Key, "ErrFrameTooLarge") {
				rows = append(rows, row)
			}
		}
	}
	r.Ob("C19.R5", "instances").Check(len(rows) >= 8, "expected >= 8 write-side precondition errors, found %d", len(rows))
	checkTable(r, "C19.R5", "h2_frame_write_preconditions", rows, "write precondition")
}

func init() {
	p := registry["C19"]
	p.Rules = append(p.Rules, ruleDef{"C19.R7", func(r *R) {
		forkSiblingRule(r, "C19.R7", "frame.go", "errors.go")
		forkTablesRule(r, "C19.R7")
	}})
	wantRefs("C19")
}
