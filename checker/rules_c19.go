package main

import (
	"sort"
	"strings"

	"golang.org/x/tools/go/ssa"
)

func init() {
	register("C19", false,
		ruleDef{"C19.R6", c19r6},
	)
}

// funcsInFile: module functions whose declaration lies in the given file (path suffix).
func (c *Ctx) funcsInFile(suffix string) []*ssa.Function {
	var out []*ssa.Function
	for _, f := range c.Funcs {
		if strings.HasSuffix(c.Fset.Position(f.Pos()).Filename, suffix) {
			out = append(out, f)
		}
	}
	return out
}

// reviewed bounds obligations that rest on an invariant established elsewhere (keyed by function + operation)
var reviewedBounds = map[string]string{
	"http2.curGoroutineID|*":  "debug aid, only reachable with DEBUG_HTTP2_GOROUTINES=1",
	"http2.parseUintBytes|*":  "debug aid, only reachable with DEBUG_HTTP2_GOROUTINES=1",
	"http2.splitHeaderBlock|phi(p1|phi@[builtin.len(phi(phi@|phi@[:16384])):])[builtin.len(phi(phi(p1|phi@[builtin.len(phi@):])|phi(p1|phi@[builtin.len(phi@):])[:16384])):]": "frag is headerBlock or headerBlock[:maxFrameSize] (under len > maxFrameSize), so len(frag) <= len(headerBlock); needs a length-of-phi argument the prover does not make",
	"http2.readFrameHeader|*": "both callers pass a frameHeaderLen (9) byte buffer: Framer.headerBuf[:] ([9]byte) and a fhBytes pool buffer (pool New: make([]byte, frameHeaderLen))",
	"(*http2.MetaHeadersFrame).PseudoValue|p0.Fields[(1 + phi((1 + phi@)|-1))].Name[1:]": "guarded by hf.IsPseudo() (x/net hpack: len(Name) != 0 && Name[0] == ':')",
	"(*http2.SettingsFrame).Setting|p0.p[(6 * p1):((6 * p1) + 2)]":       "accessor contract: callers pass 0 <= i < NumSettings() = len(p)/6 (checked for the in-repo callers by C19.R7)",
	"(*http2.SettingsFrame).Setting|p0.p[((6 * p1) + 2):((6 * p1) + 6)]": "accessor contract: callers pass 0 <= i < NumSettings() = len(p)/6 (checked for the in-repo callers by C19.R7)",
}

func boundsRule(r *R, rule string, fns []*ssa.Function, minSites int) {
	c := r.C
	b := newBounder(c)
	n, proven := 0, 0
	sort.Slice(fns, func(i, j int) bool { return funcName(fns[i]) < funcName(fns[j]) })
	for _, fn := range fns {
		eachInstr(fn, func(i ssa.Instruction) {
			ob := b.obligationsOf(i)
			if ob == nil {
				return
			}
			n++
			ok, why := b.check(ob)
			key := funcName(fn) + "|" + ob.Desc
			o := r.Ob(rule, "bounds:"+key).AtI(i)
			if ok {
				proven++
				return
			}
			if rv, has := reviewedBounds[key]; has {
				o.OK("reviewed: %s", rv)
				return
			}
			if rv, has := reviewedBounds[funcName(fn)+"|*"]; has {
				o.OK("reviewed: %s", rv)
				return
			}
			o.Fail("%s in %s is not justified by the length checks that dominate it: %s. On input that violates it the operation panics; on the frame-reading goroutine no recover frame exists, so one malformed frame terminates the proxy", ob.Desc, funcName(fn), why)
		})
	}
	r.Ob(rule, "instances").Must(n >= minSites, "expected >= %d bounds obligations, found %d", minSites, n).OK("%d obligations, %d proven from dominating guards", n, proven)
}

func c19r6(r *R) {
	boundsRule(r, "C19.R6", r.C.funcsInFile("pkg/http2/frame.go"), 40)
}

// unprotectedFuncs: module functions executed on a goroutine of the proxy outside any recover frame.
func unprotectedFuncs(r *R) []*ssa.Function {
	c := r.C
	seen := map[*ssa.Function]bool{}
	var out []*ssa.Function
	for _, g := range goroutineRoots(c, proxyFuncs(c)) {
		unprotectedWalk(c, g.Fn, func(fn *ssa.Function, i ssa.Instruction, path func() string) {
			if !seen[fn] {
				seen[fn] = true
				out = append(out, fn)
			}
		})
	}
	return out
}
