package main

import (
	"strings"

	"golang.org/x/tools/go/ssa"
)

func init() {
	register("C20", false,
		ruleDef{"C20.R1", c20r1},
		ruleDef{"C20.R2", c20r2},
		ruleDef{"C20.R3", c20r3},
		ruleDef{"C20.R5", c20r5},
		ruleDef{"C20.R6", c20r6},
	)
}

func schedFuncs(c *Ctx) []*ssa.Function {
	var out []*ssa.Function
	for _, suf := range []string{"pkg/http2/writesched.go", "pkg/http2/writesched_roundrobin.go", "pkg/http2/writesched_priority.go", "pkg/http2/writesched_random.go"} {
		out = append(out, c.funcsInFile(suf)...)
	}
	return out
}

// R1: stream frames are released only through the window-limited consume.
func c20r1(r *R) {
	c := r.C
	cons := c.Method("pkg/http2", "writeQueue", "consume")
	r.need(cons != nil, "writeQueue.consume not found")
	o := r.Ob("C20.R1", "shift-only-via-consume-or-control")
	n := 0
	for _, fn := range c.FuncsIn("pkg/http2") {
		for _, s := range callsIn(fn, "(*http2.writeQueue).shift") {
			n++
			rcv := c.Expr(callOf(s).Args[0])
			okc := fn == cons || strings.HasSuffix(rcv, ".control") || strings.HasSuffix(rcv, ".zero")
			o.AtI(s).Check(okc, "%s takes a frame off queue %s with shift(): stream data must leave through consume() so that the stream/connection windows and the max frame size are honoured", funcName(fn), rcv)
		}
	}
	o.Check(n >= 3, "expected >= 3 shift() call sites, found %d", n)
	// consume: the three results of Consume are handled: 0 -> nothing, 1 -> shift, 2 -> head replaced by rest
	o2 := r.Ob("C20.R1", "consume-cases:"+funcName(cons)).At(cons.Pos())
	cc := callsIn(cons, "(http2.FrameWriteRequest).Consume")
	if o2.Check(len(cc) == 1, "expected one Consume call in writeQueue.consume") {
		res := c.Expr(cc[0].(ssa.Value))
		o2.Check(strings.HasPrefix(res, "(http2.FrameWriteRequest).Consume(p0.s[0], p1)"), "consume works on %s, want the head of the queue with the caller's byte limit", res)
		for _, s := range callsIn(cons, "(*http2.writeQueue).shift") {
			o2.AtI(s).Check(hasGuard(c.guardStrs(s.Block()), "+"+eqs("1", res+"#2")), "shift happens under %v, want only when the whole frame was consumed", c.guardStrs(s.Block()))
		}
		repl := false
		eachInstr(cons, func(i ssa.Instruction) {
			if st, ok := i.(*ssa.Store); ok && c.Expr(st.Addr) == "p0.s[0]" {
				repl = true
				o2.AtI(i).Check(c.Expr(st.Val) == res+"#1" && hasGuard(c.guardStrs(i.Block()), "+"+eqs("2", res+"#2")), "the queue head is replaced by %s under %v, want the unsent rest when the frame was split", c.Expr(st.Val), c.guardStrs(i.Block()))
			}
		})
		o2.Check(repl, "a split frame's rest is not put back at the head of the queue (the remainder would be lost or reordered)")
		eachInstr(cons, func(i ssa.Instruction) {
			if ret, ok := i.(*ssa.Return); ok && c.Expr(ret.Results[1]) == "true" {
				o2.Check(c.Expr(ret.Results[0]) == res+"#0", "consume returns %s as the released frame", c.Expr(ret.Results[0]))
				o2.Check(!hasGuard(c.guardStrs(i.Block()), "+"+eqs("0", res+"#2")), "a frame is reported although nothing could be consumed")
			}
		})
	}
	checkTable(r, "C20.R1", "h2_sched_queue", queueRows(c), "write-queue step")
}

func queueRows(c *Ctx) []siteRow {
	var rows []siteRow
	for _, nm := range []string{"empty", "push", "shift", "consume"} {
		if fn := c.Method("pkg/http2", "writeQueue", nm); fn != nil {
			rows = append(rows, effectRows(c, fn)...)
		}
	}
	for _, nm := range []string{"put", "get"} {
		if fn := c.Method("pkg/http2", "writeQueuePool", nm); fn != nil {
			rows = append(rows, effectRows(c, fn)...)
		}
	}
	if fn := c.Method("pkg/http2", "FrameWriteRequest", "Consume"); fn != nil {
		rows = append(rows, effectRows(c, fn)...)
	}
	// the queue has exactly the reviewed fields (a new cursor/index field needs its own reset discipline in the pool)
	if nt := c.Named("pkg/http2", "writeQueue"); nt != nil {
		var fs []string
		for i := 0; i < structNumFields(nt); i++ {
			fs = append(fs, structField(nt, i).Name()+" "+typeName(structField(nt, i).Type()))
		}
		rows = append(rows, siteRow{"writeQueue fields", fs, nil})
	}
	return rows
}

// R2: control frames before stream data.
func c20r2(r *R) {
	c := r.C
	for _, t := range []string{"roundRobinWriteScheduler", "randomWriteScheduler"} {
		pop := c.Method("pkg/http2", t, "Pop")
		r.need(pop != nil, "%s.Pop not found", t)
		o := r.Ob("C20.R2", "control-first:"+funcName(pop)).At(pop.Pos())
		ctl := "p0.control"
		if t == "randomWriteScheduler" {
			ctl = "p0.zero"
		}
		emptyG := "-(*http2.writeQueue).empty(" + ctl + ")"
		n := 0
		eachInstr(pop, func(i ssa.Instruction) {
			if isCall(i, "(*http2.writeQueue).consume") {
				n++
				gs := c.guardStrs(i.Block())
				o.AtI(i).Check(hasGuard(gs, "+(*http2.writeQueue).empty("+ctl+")"), "stream data is popped while control frames may be queued; guards %v", gs)
			}
			if isCall(i, "(*http2.writeQueue).shift") {
				gs := c.guardStrs(i.Block())
				o.AtI(i).Check(c.Expr(callOf(i).Args[0]) == ctl && hasGuard(gs, emptyG), "shift of %s under %v", c.Expr(callOf(i).Args[0]), gs)
			}
		})
		o.Check(n >= 1, "no consume call in %s.Pop", t)
	}
	pp := c.Method("pkg/http2", "priorityWriteScheduler", "Pop")
	r.need(pp != nil, "priorityWriteScheduler.Pop not found")
	var rows []siteRow
	rows = append(rows, effectRows(c, pp)...)
	if w := c.Method("pkg/http2", "priorityNode", "walkReadyInOrder"); w != nil {
		rows = append(rows, effectRows(c, w)...)
	}
	for _, t := range []string{"roundRobinWriteScheduler", "randomWriteScheduler"} {
		rows = append(rows, effectRows(c, c.Method("pkg/http2", t, "Pop"))...)
	}
	checkTable(r, "C20.R2", "h2_sched_pop", rows, "Pop step")
}

// R3: where frames are queued (control queues never hold DATA) and how streams are opened/closed.
func c20r3(r *R) {
	c := r.C
	var rows []siteRow
	for _, t := range []string{"roundRobinWriteScheduler", "randomWriteScheduler", "priorityWriteScheduler"} {
		for _, m := range []string{"Push", "OpenStream", "CloseStream"} {
			fn := c.Method("pkg/http2", t, m)
			r.need(fn != nil, "%s.%s not found", t, m)
			rows = append(rows, effectRows(c, fn)...)
		}
	}
	r.Ob("C20.R3", "instances").Check(len(rows) >= 40, "expected >= 40 rows, found %d", len(rows))
	checkTable(r, "C20.R3", "h2_sched_push_open_close", rows, "scheduler step")
	// explicit: a frame for an unknown stream goes to the control queue only when it carries no DATA
	for _, t := range []string{"roundRobinWriteScheduler", "priorityWriteScheduler"} {
		push := c.Method("pkg/http2", t, "Push")
		o := r.Ob("C20.R3", "no-data-on-control-queue:"+funcName(push)).At(push.Pos())
		np := 0
		eachInstr(push, func(i ssa.Instruction) {
			if p, ok := i.(*ssa.Panic); ok {
				np++
				gs := c.guardStrs(i.Block())
				o.AtI(p).Check(hasGuardContaining(gs, "+", "(0 < (http2.FrameWriteRequest).DataSize("), "the DATA-on-closed-stream panic is under %v", gs)
			}
		})
		o.Check(np == 1, "%s.Push no longer refuses DATA for a stream without a queue (%d panic sites)", t, np)
	}
}

// R5: link fields are encapsulated.
func c20r5(r *R) {
	c := r.C
	fns := c.FuncsIn("pkg/http2")
	pn := c.Named("pkg/http2", "priorityNode")
	wq := c.Named("pkg/http2", "writeQueue")
	r.need(pn != nil && wq != nil, "priorityNode/writeQueue not found")
	okPN := map[string]bool{"(*http2.priorityNode).setParent": true}
	n := 0
	for _, f := range []string{"parent", "kids", "prev", "next"} {
		for _, a := range fieldAccesses(fns, pn, f) {
			if a.Kind == "read" {
				continue
			}
			n++
			if _, fresh := addrRoot(a.Addr).(*ssa.Alloc); fresh {
				continue
			}
			r.Ob("C20.R5", "tree-link-writer:"+f+":"+funcName(a.Fn)).AtI(a.Instr).Check(okPN[funcName(a.Fn)], "priority tree link %s is written in %s, outside setParent (the only place that keeps parent/kids/sibling links consistent)", f, funcName(a.Fn))
		}
	}
	okWQ := map[string]bool{"(*http2.roundRobinWriteScheduler).OpenStream": true, "(*http2.roundRobinWriteScheduler).CloseStream": true}
	for _, f := range []string{"prev", "next"} {
		for _, a := range fieldAccesses(fns, wq, f) {
			if a.Kind == "read" {
				continue
			}
			n++
			r.Ob("C20.R5", "ring-link-writer:"+f+":"+funcName(a.Fn)).AtI(a.Instr).Check(okWQ[funcName(a.Fn)], "round-robin ring link %s is written in %s", f, funcName(a.Fn))
		}
	}
	okS := map[string]bool{"(*http2.writeQueue).push": true, "(*http2.writeQueue).shift": true, "(*http2.writeQueue).consume": true, "(*http2.writeQueuePool).put": true, "(*http2.priorityWriteScheduler).CloseStream": true}
	for _, a := range fieldAccesses(fns, wq, "s") {
		if a.Kind == "read" {
			continue
		}
		n++
		r.Ob("C20.R5", "queue-slice-writer:"+funcName(a.Fn)).AtI(a.Instr).Check(okS[funcName(a.Fn)], "the frame slice of a write queue is written in %s", funcName(a.Fn))
	}
	r.Ob("C20.R5", "instances").Check(n >= 10, "expected >= 10 link/queue writes, found %d", n)
}

// R6: priority tree surgery.
func c20r6(r *R) {
	c := r.C
	var rows []siteRow
	for _, nm := range [][2]string{{"priorityWriteScheduler", "AdjustStream"}, {"priorityWriteScheduler", "removeNode"}, {"priorityWriteScheduler", "addClosedOrIdleNode"}, {"priorityNode", "setParent"}, {"priorityNode", "addBytes"}} {
		fn := c.Method("pkg/http2", nm[0], nm[1])
		r.need(fn != nil, "%s.%s not found", nm[0], nm[1])
		rows = append(rows, effectRows(c, fn)...)
	}
	if fn := c.Func("pkg/http2", "NewPriorityWriteScheduler"); fn != nil {
		rows = append(rows, effectRows(c, fn)...)
	}
	r.Ob("C20.R6", "instances").Check(len(rows) >= 40, "expected >= 40 tree-surgery rows, found %d", len(rows))
	checkTable(r, "C20.R6", "h2_sched_priority_tree", rows, "priority-tree step")
}

func init() {
	p := registry["C20"]
	p.Rules = append(p.Rules, ruleDef{"C20.R7", func(r *R) {
		siblingCompare(r, "C20.R7", "pkg/zz_ref_http2", schedFuncs(r.C), nil, "scheduler function")
	}})
	wantRefs("C20")
}
