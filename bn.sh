#!/bin/sh
# usage: bn.sh <benign/X/NN.diff> <prop|all>  — apply one behaviour-preserving diff to a scratch worktree and run a check on it
cd /verif
WT=/tmp/wt/bn1
git -C /repo worktree remove --force $WT >/dev/null 2>&1
git -C /repo worktree add --detach $WT HEAD >/dev/null 2>&1 || exit 2
(cd $WT && git apply /verif/$1) || { echo "patch fails"; git -C /repo worktree remove --force $WT; exit 2; }
S=$(mktemp -d /tmp/fpbn.XXXXXX); cp known_findings.txt $S/; mkdir -p $S/spec; cp -r spec/* $S/spec/
export GOFLAGS=-mod=mod GOPROXY=off GOSUMDB=off GOTOOLCHAIN=local GOWORK=off CGO_ENABLED=0
BIN=${FPBIN:-./bin/fpcheck}
[ -n "$FPBIN" ] || (cd checker && go build -o ../bin/fpcheck .) || exit 2
$BIN -property ${2:-all} -tier quick -repo $WT -verif $S 2>&1 | grep -v "^WARN" | grep -E "rule=|tier=|^  [^ ]" | cut -c1-${COLS:-400}
grep -h "normalisation" $S/evidence/*.json 2>/dev/null | sort -u | head -${NOTES:-5} | cut -c1-300
rm -rf $S
[ -n "$KEEP" ] || git -C /repo worktree remove --force $WT
