#!/bin/sh
# usage: collect_r2.sh Cxx   — copies round-3 seeds of a property into /verif/seeded as Cxx-m5, Cxx-m6 and runs its check on each
p=$1
for k in 1 2; do
  src=/tmp/wt/r3_$p/_seed/m$k
  [ -f $src/patch.diff ] || { echo "$p m$k: no patch"; continue; }
  n=$((k+4)); dst=/verif/seeded/$p-m$n
  mkdir -p $dst; cp $src/patch.diff $dst/; cp $src/*_test.go $dst/ 2>/dev/null; cp $src/README.md $dst/ 2>/dev/null
  [ -f $dst/demo_test.go ] || { f=$(ls $dst/*_test.go 2>/dev/null | head -1); [ -n "$f" ] && cp "$f" $dst/demo_test.go; }
  /verif/seed_check.sh $p-m$n $p 2>&1 | grep -E "SEED|rule=" | cut -c1-200 | head -6
done
