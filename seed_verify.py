#!/usr/bin/env python3
"""Confirms a seeded mutation in a scratch worktree and stores it under /verif/seeded/<id>/.

usage: seed_verify.py <srcdir> <seed-id> <property> [--no-suite]
  srcdir : directory holding patch.diff, demo_test.go (and README.md)
Steps (all in a scratch git worktree of /repo, removed afterwards):
  1. demo passes on clean HEAD
  2. patch applies, go build ./... and go vet ./... pass
  3. demo fails with the patch
  4. the repository's test suite (529 baseline tests) still passes with the patch
"""
import json, os, re, shutil, subprocess, sys, time

ENV = dict(os.environ, GOFLAGS="-mod=mod", GOPROXY="off", GOSUMDB="off", GOTOOLCHAIN="local")

def sh(cmd, cwd, timeout=1500):
    p = subprocess.run(cmd, shell=True, cwd=cwd, env=ENV, stdout=subprocess.PIPE, stderr=subprocess.STDOUT, timeout=timeout, text=True)
    return p.returncode, p.stdout

def main():
    src, sid, prop = sys.argv[1], sys.argv[2], sys.argv[3]
    nosuite = "--no-suite" in sys.argv
    wt = "/tmp/wt/verify_" + sid
    subprocess.run("git -C /repo worktree remove --force %s" % wt, shell=True, stdout=subprocess.DEVNULL, stderr=subprocess.DEVNULL)
    rc, out = sh("git -C /repo worktree add --detach %s HEAD" % wt, "/")
    assert rc == 0, out
    meta = {"seed": sid, "property": prop, "repo_head": sh("git rev-parse --short HEAD", "/repo")[1].strip(), "verified_at": time.strftime("%Y-%m-%dT%H:%M:%SZ", time.gmtime())}
    try:
        demo = open(os.path.join(src, "demo_test.go")).read()
        head = "\n".join(demo.split("\n")[:25])
        m = re.search(r"(pkg/[A-Za-z0-9_/]+?)/?[\s`'\")]", head)
        pkgdir = m.group(1) if m else "."
        if re.search(r"repository root|repo root|package fingerproxy\b", head) and not m:
            pkgdir = "."
        pk = re.search(r"^package (\w+)", demo, re.M).group(1)
        if pk in ("fingerproxy", "fingerproxy_test"):
            pkgdir = "."
        tests = re.findall(r"^func (Test\w+)\(", demo, re.M)
        runre = "^(" + "|".join(tests) + ")$"
        meta["demo_package_dir"] = pkgdir
        meta["demo_tests"] = tests
        dst = os.path.join(wt, pkgdir, "zz_seed_demo_test.go")
        shutil.copy(os.path.join(src, "demo_test.go"), dst)
        # a demonstration of an unsynchronised access says so at its top and needs the race detector
        race = "-race " if re.search(r"go test[^\n]*-race", head) or re.search(r"go test[^\n]*-race", open(os.path.join(src, "README.md")).read() if os.path.exists(os.path.join(src, "README.md")) else "") else ""
        cmd = "CGO_ENABLED=1 go test %s-vet=off -count=1 -run '%s' ./%s/" % (race, runre, pkgdir) if race else "go test -vet=off -count=1 -run '%s' ./%s/" % (runre, pkgdir)
        rc, out = sh(cmd, wt, 600)
        meta["demo_without_patch"] = {"cmd": cmd, "rc": rc, "tail": out[-600:]}
        ok_clean = rc == 0
        rc, out = sh("git apply %s" % os.path.join(os.path.abspath(src), "patch.diff"), wt)
        meta["apply_rc"] = rc
        if rc != 0:
            meta["apply_out"] = out[-500:]
        rc_b, out_b = sh("go build ./... && go vet ./... ", wt, 900)
        meta["build_vet_rc"] = rc_b
        if rc_b != 0:
            meta["build_vet_out"] = out_b[-800:]
        rc, out = sh(cmd, wt, 600)
        meta["demo_with_patch"] = {"rc": rc, "tail": out[-1500:]}
        fails = rc != 0
        suite_ok = None
        if not nosuite:
            os.remove(dst)
            rc, out = sh("go test -json -vet=off -count=1 -timeout 25m ./... ", wt, 1800)
            base = set(json.load(open("/root/.vp/BASELINE.json"))["stable_pass"])
            passed = set()
            for l in out.split("\n"):
                try:
                    e = json.loads(l)
                except Exception:
                    continue
                if e.get("Action") == "pass" and e.get("Test"):
                    passed.add(e["Package"] + "::" + e["Test"])
            missing = sorted(base - passed)
            suite_ok = not missing
            meta["suite_with_patch"] = {"baseline": len(base), "passed": len(base & passed), "missing": missing[:10]}
        meta["confirmed"] = bool(ok_clean and meta["apply_rc"] == 0 and rc_b == 0 and fails and (suite_ok is not False))
    finally:
        subprocess.run("git -C /repo worktree remove --force %s" % wt, shell=True, stdout=subprocess.DEVNULL, stderr=subprocess.DEVNULL)
    out = "/verif/seeded/" + sid
    os.makedirs(out, exist_ok=True)
    for f in ("patch.diff", "demo_test.go", "README.md"):
        if os.path.exists(os.path.join(src, f)) and os.path.abspath(os.path.join(src, f)) != os.path.abspath(os.path.join(out, f)):
            shutil.copy(os.path.join(src, f), os.path.join(out, f))
    old = {}
    if os.path.exists(os.path.join(out, "meta.json")):
        old = json.load(open(os.path.join(out, "meta.json")))
    for k in ("needs_to_manifest", "what", "detected_by", "check_runs"):
        if k in old:
            meta[k] = old[k]
    json.dump(meta, open(os.path.join(out, "meta.json"), "w"), indent=1)
    print(sid, "confirmed" if meta["confirmed"] else "NOT CONFIRMED", json.dumps({k: meta[k] for k in ("apply_rc", "build_vet_rc") if k in meta}), "demo clean rc=%s, with patch rc=%s" % (meta["demo_without_patch"]["rc"], meta["demo_with_patch"]["rc"]), meta.get("suite_with_patch"))

main()
