package main

import (
	"bytes"
	"context"
	"crypto/ecdsa"
	"crypto/elliptic"
	"crypto/rand"
	"crypto/tls"
	"crypto/x509"
	"crypto/x509/pkix"
	"fmt"
	"io"
	"log"
	"math/big"
	"net"
	"net/http"
	"net/http/httptest"
	"net/http/httputil"
	"net/url"
	"os"
	"runtime"
	"strings"
	"sync"
	"time"

	"github.com/wi1dcard/fingerproxy/pkg/fingerprint"
	"github.com/wi1dcard/fingerproxy/pkg/proxyserver"
	"github.com/wi1dcard/fingerproxy/pkg/reverseproxy"
	xhttp2 "golang.org/x/net/http2"
)

func selfSigned() tls.Certificate {
	key, _ := ecdsa.GenerateKey(elliptic.P256(), rand.Reader)
	tmpl := &x509.Certificate{SerialNumber: big.NewInt(1), Subject: pkix.Name{CommonName: "localhost"},
		NotBefore: time.Now().Add(-time.Hour), NotAfter: time.Now().Add(time.Hour),
		DNSNames: []string{"localhost"}, IPAddresses: []net.IP{net.ParseIP("127.0.0.1")}}
	der, _ := x509.CreateCertificate(rand.Reader, tmpl, tmpl, &key.PublicKey, key)
	return tls.Certificate{Certificate: [][]byte{der}, PrivateKey: key}
}

type rec struct {
	mu   sync.Mutex
	hdrs []http.Header
}

func main() {
	mode := os.Args[1]
	log.SetOutput(io.Discard)
	r := &rec{}
	backend := httptest.NewServer(http.HandlerFunc(func(w http.ResponseWriter, req *http.Request) {
		r.mu.Lock()
		r.hdrs = append(r.hdrs, req.Header.Clone())
		r.mu.Unlock()
		if mode == "D4" {
			time.Sleep(time.Millisecond)
		}
		w.Write([]byte("ok"))
	}))
	defer backend.Close()
	u, _ := url.Parse(backend.URL)
	h2p := &fingerprint.HTTP2FingerprintParam{MaxPriorityFrames: 10000}
	inj := []reverseproxy.HeaderInjector{
		fingerprint.NewFingerprintHeaderInjector("X-JA3-Fingerprint", fingerprint.JA3Fingerprint),
		fingerprint.NewFingerprintHeaderInjector("X-JA4-Fingerprint", fingerprint.JA4Fingerprint),
		fingerprint.NewFingerprintHeaderInjector("X-HTTP2-Fingerprint", h2p.HTTP2Fingerprint),
	}
	handler := reverseproxy.NewHTTPHandler(u, &httputil.ReverseProxy{ErrorLog: log.New(io.Discard, "", 0)}, inj)
	cert := selfSigned()
	tlsConf := &tls.Config{NextProtos: []string{"h2", "http/1.1"}, Certificates: []tls.Certificate{cert}}
	if mode == "D3" {
		tlsConf.Certificates = nil
		tlsConf.GetCertificate = func(*tls.ClientHelloInfo) (*tls.Certificate, error) { panic("user TLS callback panics") }
	}
	ctx, cancel := context.WithCancel(context.Background())
	defer cancel()
	srv := proxyserver.NewServer(ctx, handler, tlsConf)
	srv.ErrorLog = log.New(io.Discard, "", 0)
	if mode == "F6" {
		srv.HTTPServer.ConnState = func(c net.Conn, s http.ConnState) {
			if s == http.StateNew {
				panic("user ConnState hook panics")
			}
		}
	}
	ln, _ := net.Listen("tcp", "127.0.0.1:0")
	serveRet := make(chan error, 1)
	if mode == "F7" {
		srv.VerboseLogs = true
		srv.ErrorLog = log.New(writerFunc(func(p []byte) (int, error) {
			if bytes.Contains(p, []byte("client hello (")) {
				cancel()                           // shutdown begins right after a successful handshake
				time.Sleep(300 * time.Millisecond) // let the HTTP/1.1 server stop accepting
			}
			return len(p), nil
		}), "", 0)
	}
	go func() { serveRet <- srv.Serve(ln) }()
	addr := "https://" + ln.Addr().String() + "/"
	cliTLS := &tls.Config{InsecureSkipVerify: true}

	switch mode {
	case "D1D2":
		cliTLS.NextProtos = []string{"http/1.1"}
		c := &http.Client{Transport: &http.Transport{TLSClientConfig: cliTLS}}
		req, _ := http.NewRequest("GET", addr, nil)
		req.Header.Set("X-HTTP2-Fingerprint", "forged-by-client")
		req.Header.Set("x-ja3-fingerprint", "will-be-overwritten")
		resp, err := c.Do(req)
		if err != nil {
			fmt.Println("ERR", err)
			return
		}
		resp.Body.Close()
		h := r.hdrs[0]
		fmt.Printf("D1 backend saw X-Http2-Fingerprint=%q (client forged it; proxy computed none on h1)\n", h["X-Http2-Fingerprint"])
		fmt.Printf("   backend saw X-Ja3-Fingerprint=%q\n", h["X-Ja3-Fingerprint"])
		fmt.Printf("D2 backend saw X-Forwarded-Proto=%q on an HTTP/1.1-over-TLS request\n", h["X-Forwarded-Proto"])
		fmt.Printf("D5 HTTPServer.IdleTimeout=%v HTTP2Server.IdleTimeout=%v (NewServer; CLI wiring only sets the former)\n", srv.HTTPServer.IdleTimeout, srv.HTTP2Server.IdleTimeout)
	case "D3", "F6":
		if mode == "F6" {
			cliTLS.NextProtos = []string{"http/1.1"}
		}
		c := &http.Client{Transport: &http.Transport{TLSClientConfig: cliTLS}, Timeout: 2 * time.Second}
		_, err := c.Get(addr)
		fmt.Println("client err:", err)
		time.Sleep(300 * time.Millisecond)
		fmt.Println("process still alive (no defect)")
	case "F7":
		conn, err := tls.Dial("tcp", ln.Addr().String(), &tls.Config{InsecureSkipVerify: true, NextProtos: []string{"http/1.1"}})
		fmt.Println("client handshake err:", err)
		fmt.Println("Serve returned:", <-serveRet)
		time.Sleep(500 * time.Millisecond)
		buf := make([]byte, 1<<20)
		st := string(buf[:runtime.Stack(buf, true)])
		fmt.Println("goroutine blocked in SendToChannel after shutdown:", strings.Contains(st, "SendToChannel"))
		conn.SetReadDeadline(time.Now().Add(time.Second))
		_, rerr := conn.Read(make([]byte, 1))
		fmt.Println("client read (proxy never closes the conn):", rerr)
	case "D4":
		// raw h2 client: many streams + PRIORITY frames while handlers run
		conn, err := tls.Dial("tcp", ln.Addr().String(), &tls.Config{InsecureSkipVerify: true, NextProtos: []string{"h2"}})
		if err != nil {
			panic(err)
		}
		io.WriteString(conn, xhttp2.ClientPreface)
		fr := xhttp2.NewFramer(conn, conn)
		fr.WriteSettings()
		go func() {
			for {
				if _, err := fr.ReadFrame(); err != nil {
					return
				}
			}
		}()
		var hb bytes.Buffer
		// minimal static-table header block: :method GET(2) :scheme https(7) :path /(4) :authority (1, literal)
		hb.Write([]byte{0x82, 0x87, 0x84, 0x41, 0x09})
		hb.WriteString("localhost")
		for i := 0; i < 50; i++ {
			id := uint32(2*i + 1)
			fr.WriteHeaders(xhttp2.HeadersFrameParam{StreamID: id, BlockFragment: hb.Bytes(), EndStream: true, EndHeaders: true,
				Priority: xhttp2.PriorityParam{StreamDep: 0, Weight: uint8(i)}})
			fr.WritePriority(id+100, xhttp2.PriorityParam{StreamDep: id, Weight: 3})
			fr.WriteWindowUpdate(0, 1000)
		}
		time.Sleep(500 * time.Millisecond)
		r.mu.Lock()
		fmt.Println("backend requests:", len(r.hdrs))
		r.mu.Unlock()
	}
}

type writerFunc func([]byte) (int, error)

func (f writerFunc) Write(p []byte) (int, error) { return f(p) }
