package http2_test

// Demonstration for finding D7 (C12): a WINDOW_UPDATE that overflows a stream's send window makes the client
// transport's read loop call abortStream (which locks cc.mu) while processWindowUpdate already holds cc.mu.
// Copy into pkg/http2/ and run: go test -run TestD7 -count=1 ./pkg/http2/

import (
	"context"
	"crypto/tls"
	"net"
	"net/http"
	"testing"
	"time"

	"github.com/wi1dcard/fingerproxy/pkg/http2"
)

func TestD7WindowUpdateOverflowOnStream(t *testing.T) {
	ln, err := net.Listen("tcp", "127.0.0.1:0")
	if err != nil {
		t.Fatal(err)
	}
	defer ln.Close()
	go func() {
		c, err := ln.Accept()
		if err != nil {
			return
		}
		defer c.Close()
		buf := make([]byte, len(http2.ClientPreface))
		if _, err := c.Read(buf); err != nil {
			return
		}
		fr := http2.NewFramer(c, c)
		fr.WriteSettings()
		for {
			f, err := fr.ReadFrame()
			if err != nil {
				return
			}
			switch f := f.(type) {
			case *http2.SettingsFrame:
				if !f.IsAck() {
					fr.WriteSettingsAck()
				}
			case *http2.HeadersFrame:
				// 65535 + (2^31-1) overflows the stream's send window
				fr.WriteWindowUpdate(f.StreamID, 1<<31-1)
			case *http2.RSTStreamFrame:
				t.Logf("server got RST_STREAM %v", f.ErrCode)
			}
		}
	}()
	tr := &http2.Transport{
		AllowHTTP: true,
		DialTLSContext: func(ctx context.Context, network, addr string, _ *tls.Config) (net.Conn, error) {
			return net.Dial("tcp", ln.Addr().String())
		},
	}
	req, _ := http.NewRequest("GET", "http://"+ln.Addr().String()+"/", nil)
	done := make(chan error, 1)
	go func() {
		_, err := tr.RoundTrip(req)
		done <- err
	}()
	select {
	case err := <-done:
		t.Logf("RoundTrip returned: %v", err)
		if err == nil {
			t.Fatal("expected a flow-control stream error")
		}
	case <-time.After(3 * time.Second):
		t.Fatal("VIOLATION C12: transport read loop deadlocked on a stream WINDOW_UPDATE overflow (RoundTrip still blocked after 3s)")
	}
}
