#!/bin/sh
# usage: mut.sh <file-in-repo> <sed-expr> <property...>   (ad-hoc sensitivity probe; always reverts)
f="$1"; e="$2"; shift 2
cd /repo || exit 2
git diff --quiet || { echo "repo dirty"; exit 2; }
sed -i "$e" "$f"
if git diff --quiet; then echo "MUT no-op: $e"; exit 0; fi
export GOFLAGS=-mod=mod GOPROXY=off GOSUMDB=off GOTOOLCHAIN=local
if ! go build ./... 2>/tmp/mut_build.err; then echo "MUT does not build: $e"; head -3 /tmp/mut_build.err; git checkout -- .; exit 0; fi
scratch=$(mktemp -d /tmp/fpmut.XXXXXX); cp /verif/known_findings.txt $scratch/
hit=0
for p in "$@"; do
  ${FPMUTBIN:-/verif/bin/fpcheck} -property $p -repo /repo -verif $scratch > $scratch/out 2>&1 || hit=1
  grep -E "^  rule=" $scratch/out | cut -c1-160 | head -4
done
git checkout -- .
rm -rf $scratch
[ $hit = 1 ] && echo "MUT detected: $e" || echo "MUT MISSED: $e"
