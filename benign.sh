#!/bin/sh
# usage: benign.sh <file> <sed-expr>  — applies a behaviour-preserving edit to /repo, runs ALL checks, reverts. Expect no alarm.
f="$1"; e="$2"
cd /repo || exit 2
git diff --quiet || { echo "repo dirty"; exit 2; }
sed -i "$e" "$f"
if git diff --quiet; then echo "BENIGN no-op: $e"; exit 0; fi
export GOFLAGS=-mod=mod GOPROXY=off GOSUMDB=off GOTOOLCHAIN=local
if ! go build ./... 2>/tmp/mut_build.err; then echo "BENIGN does not build: $e"; head -3 /tmp/mut_build.err; git checkout -- .; exit 0; fi
scratch=$(mktemp -d /tmp/fpben.XXXXXX); cp /verif/known_findings.txt $scratch/
/verif/bin/fpcheck -property all -repo /repo -verif $scratch > $scratch/out 2>&1
grep -E "^VIOLATION|^  rule=" $scratch/out | cut -c1-200 | head -12
n=$(grep -c "^VIOLATION" $scratch/out)
git checkout -- .
rm -rf $scratch
[ "$n" = "0" ] && echo "BENIGN ok (silent): $e" || echo "BENIGN FALSE ALARM ($n): $e"
