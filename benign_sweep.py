#!/usr/bin/env python3
"""Runs behaviour-preserving changes (a directory of *.diff files) against all checks in a scratch worktree of /repo HEAD.
Every alarm is a false alarm to be triaged. usage: benign_sweep.py <dir-with-diffs> [name...]"""
import json, os, re, subprocess, sys, glob, shutil, tempfile

ENV = dict(os.environ, GOFLAGS="-mod=mod", GOPROXY="off", GOSUMDB="off", GOTOOLCHAIN="local", GOWORK="off")
WT = "/tmp/wt/bsweep%d" % os.getpid()

def sh(cmd, cwd=None):
    p = subprocess.run(cmd, shell=True, cwd=cwd, env=ENV, stdout=subprocess.PIPE, stderr=subprocess.STDOUT, text=True)
    return p.returncode, p.stdout

def main():
    src = sys.argv[1]
    only = sys.argv[2:]
    sh("git -C /repo worktree remove --force %s" % WT)
    rc, out = sh("git -C /repo worktree add --detach %s HEAD" % WT)
    assert rc == 0, out
    BIN = "/tmp/fpcheck.sweep.%d" % os.getpid()
    if os.environ.get("FPSWEEP_BIN"):
        shutil.copy(os.environ["FPSWEEP_BIN"], BIN)  # a frozen binary: the source may be mid-edit
    else:
        sh("cd /verif/checker && go build -o ../bin/fpcheck .")
        shutil.copy("/verif/bin/fpcheck", BIN)
    total = 0
    try:
        for d in sorted(glob.glob(os.path.join(src, "*.diff"))):
            name = os.path.basename(d)
            if only and name not in only:
                continue
            sh("git checkout -- . && git clean -fdq", WT)
            rc, out = sh("git apply %s" % os.path.abspath(d), WT)
            if rc != 0:
                print(name, "PATCH-FAILS", out[-200:])
                continue
            rc, out = sh("go build ./...", WT)
            if rc != 0:
                print(name, "DOES-NOT-BUILD", out[-120:])
                continue
            scratch = tempfile.mkdtemp(prefix="fpbsweep.")
            shutil.copy("/verif/known_findings.txt", scratch)
            shutil.copytree(os.environ.get("FPSWEEP_SPEC", "/verif/spec"), os.path.join(scratch, "spec"))
            rc, out = sh(BIN + " -property all -tier quick -repo %s -verif %s" % (WT, scratch))
            hits = []
            for ln in out.split("\n"):
                m = re.match(r"\s+rule=(\S+) construct=(.*?) verdict=(\S+)", ln)
                if m:
                    hits.append(m.group(1) + " " + m.group(2)[:110])
            shutil.rmtree(scratch, ignore_errors=True)
            if len(re.findall(r"tier=quick obligations=", out)) != 20:
                hits.append("CHECKER-DID-NOT-COMPLETE " + out[-120:].replace("\n", " | "))
            total += len(hits)
            print(name, "silent" if not hits else "ALARMS %d" % len(hits))
            for h in sorted(set(hits)):
                print("    ", h)
            sys.stdout.flush()
    finally:
        sh("git -C /repo worktree remove --force %s" % WT)
        try:
            os.remove(BIN)
        except OSError:
            pass
    print("total alarms:", total)

main()
