#!/bin/sh
# usage: collect_r4.sh Cxx   — copies round-4 seeds of a property into /verif/seeded as Cxx-m7, Cxx-m8 and runs its check on each (scratch worktree)
p=$1
for k in 1 2; do
  src=/tmp/wt/${R:-r4}_$p/_seed/m$k
  [ -f $src/patch.diff ] || { echo "$p m$k: no patch"; continue; }
  n=$((k+${OFF:-6})); dst=/verif/seeded/$p-m$n
  mkdir -p $dst; cp $src/patch.diff $dst/; cp $src/*_test.go $dst/ 2>/dev/null; cp $src/*.go $dst/ 2>/dev/null; cp $src/README.md $dst/ 2>/dev/null
  [ -f $dst/demo_test.go ] || { f=$(ls $dst/*_test.go 2>/dev/null | head -1); [ -n "$f" ] && cp "$f" $dst/demo_test.go; }
  echo "== $p-m$n: $(head -1 $dst/README.md | cut -c1-150)"
  NOTES=0 /verif/bn.sh seeded/$p-m$n/patch.diff $p 2>&1 | grep -E "rule=|tier=" | cut -c1-200 | head -6
done
