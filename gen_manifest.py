#!/usr/bin/env python3
"""Generates /verif/MANIFEST.json from the table below (kept next to DESIGN.md section 4)."""
import json, os, subprocess

HERE = os.path.dirname(os.path.abspath(__file__))

# id -> (technique, what is decided, what is not decided / trusted)
CLAIMS = {}

def claim(pid, technique, decided, note):
    CLAIMS[pid] = (technique, decided, note)

exec(open(os.path.join(HERE, "claims.py")).read())

ALL = ["C%02d" % i for i in range(1, 21)]

checks = []
for pid in ALL:
    if pid not in CLAIMS:
        continue
    tech, decided, note = CLAIMS[pid]
    checks.append({
        "property_id": pid,
        "quick_cmd": "./run.sh %s quick" % pid,
        "thorough_cmd": "./run.sh %s thorough" % pid,
        "evidence_file": "/verif/evidence/%s.json" % pid,
        "replay_cmd_template": "./bin/fpcheck -explain {path}",
        "engine": "fpcheck",
        "level_claimed": {
            "category": "other",
            "text": "Static analysis (no execution): structural necessary conditions of the property decided over every CFG / call-graph path of the named functions of /repo's current source. Decided: " + decided,
            "design_ref": "DESIGN.md section 4, " + pid,
        },
        "level_note": note,
        "technique": tech,
    })

na = []
NA = {}
if os.path.exists(os.path.join(HERE, "not_applicable.json")):
    NA = json.load(open(os.path.join(HERE, "not_applicable.json")))
for pid in ALL:
    if pid not in CLAIMS:
        na.append({"property_id": pid, "reason": NA.get(pid, "check not built yet (static rules designed in DESIGN.md section 4, not implemented at this commit)")})

m = {
    "version": 1,
    "setup_cmd": "./setup.sh",
    "hooks": {
        "guard": "verif",
        "enable": "none needed: static analysis reads /repo's source; no hooks or instrumentation exist in /repo",
        "baseline_off_cmd": "./baseline.sh",
        "source_commits": [],
        "add_only": True,
    },
    "engines": [{
        "name": "fpcheck",
        "path": "/verif/checker",
        "serves_properties": sorted(CLAIMS.keys()),
        "kind_free_text": "repository-specific static analyser: go/packages + go/types + go/ssa (x/tools v0.29.0), VTA call graph; rules = dominance/guard checks, must-pass-through and exact-count path rules, access index (who-may-write / who-may-call), lock-held dataflow, recover-frame reachability, table extraction from typed syntax",
    }],
    "checks": checks,
    "not_applicable": na,
    "notes": "All checks are static analysis of /repo's working tree (rebuilt = re-parsed, re-type-checked and re-lowered to SSA on every run). Level is 'other' for every property: each check decides the structural clauses listed in DESIGN.md and states which behavioural clauses it does not decide. Defects found on the original tree were repaired by 'fix:' commits in /repo and are listed as fixed: lines in known_findings.txt.",
}
json.dump(m, open(os.path.join(HERE, "MANIFEST.json"), "w"), indent=1)
print("MANIFEST.json: %d checks, %d not_applicable" % (len(checks), len(na)))
