#!/bin/sh
# Builds the checker from files on disk only (offline).
set -e
cd "$(dirname "$0")"
export GOFLAGS=-mod=mod GOPROXY=off GOSUMDB=off GOTOOLCHAIN=local GOWORK=off CGO_ENABLED=0
mkdir -p bin evidence
(cd checker && go build -o ../bin/fpcheck .)
echo "built bin/fpcheck"
