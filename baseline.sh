#!/bin/sh
# Runs the repository's test suite (guard off: no hooks exist) and compares with /root/.vp/BASELINE.json stable_pass.
export GOFLAGS=-mod=mod GOPROXY=off GOSUMDB=off GOTOOLCHAIN=local
cd "${FP_REPO:-/repo}" && go test -json -vet=off -count=1 -timeout 25m ./... > /tmp/fp_baseline.json 2>/tmp/fp_baseline.err
python3 - <<'PY'
import json
base=set(json.load(open('/root/.vp/BASELINE.json'))['stable_pass'])
passed=set()
for l in open('/tmp/fp_baseline.json'):
    try: e=json.loads(l)
    except: continue
    if e.get('Action')=='pass' and e.get('Test'):
        passed.add(e['Package']+'::'+e['Test'])
missing=sorted(base-passed)
print('baseline',len(base),'passed_now',len(passed&base),'missing',len(missing))
for m in missing[:20]: print('  MISSING',m)
import sys; sys.exit(1 if missing else 0)
PY
rc=$?; rm -f /tmp/fp_baseline.json /tmp/fp_baseline.err; exit $rc
