#!/bin/sh
# usage: run.sh <property> <quick|thorough>
# Rebuilds the checker if needed (incremental), then analyses /repo's current working tree.
cd "$(dirname "$0")"
export GOFLAGS=-mod=mod GOPROXY=off GOSUMDB=off GOTOOLCHAIN=local GOWORK=off CGO_ENABLED=0
mkdir -p bin evidence
if ! (cd checker && go build -o ../bin/fpcheck .) >bin/build.log 2>&1; then
  cat bin/build.log
  echo "checker build failed" >&2
  exit 2
fi
exec ./bin/fpcheck -property "$1" -tier "${2:-quick}" -repo "${FP_REPO:-/repo}" -verif "$(pwd)"
